"""pyvc.values -- symbolic value representation and primitive operations.

Encoding decisions (see DESIGN.md 2.2):
  int   -> SMT Int (exact, unbounded)          real -> SMT Real  (A-REAL: float rounding ignored)
  bool  -> SMT Bool                            str / bytes -> SMT String (bytes: code points 0..255)
  ids that the code only compares for equality -> uninterpreted sorts ('u:<Sort>')
Concrete python values (int, float, bool, None, str, bytes, tuple) are used directly while known.
"""
import fractions
import z3


class Undecided(Exception):
    """construct outside the subset / no contract / solver unknown: the obligation is undecided"""


class SV:
    __slots__ = ("t", "ty")

    def __init__(self, t, ty):
        self.t = t
        self.ty = ty  # 'int' | 'real' | 'bool' | 'str' | 'bytes' | 'u:<Sort>'

    def __repr__(self):
        return "SV(%s:%s)" % (self.t, self.ty)

    def __bool__(self):
        raise Undecided("python truth value of symbolic %r requested by engine code" % (self,))

    # convenience for sidecar code (ghost counters): SV + int, SV - int
    def __add__(self, o):
        return conc(SV(self.t + (o.t if isinstance(o, SV) else o), self.ty))

    __radd__ = __add__

    def __sub__(self, o):
        return conc(SV(self.t - (o.t if isinstance(o, SV) else o), self.ty))


class Ref:
    """A mutable heap object; state lives in ctx.heap[oid]."""
    __slots__ = ("oid", "kind", "cls", "tag")

    def __init__(self, oid, kind, cls=None, tag=None):
        self.oid = oid
        self.kind = kind      # 'obj' | 'buf' | 'list' | 'deque' | 'dict' | 'sdict' | 'wseq' | 'ext' | 'gen'
        self.cls = cls
        self.tag = tag

    def __repr__(self):
        return "<%s#%d%s>" % (self.kind, self.oid, (":" + self.cls.name) if self.cls is not None and hasattr(self.cls, "name") else "")

    def __eq__(self, o):
        return isinstance(o, Ref) and o.oid == self.oid

    def __hash__(self):
        return hash(("ref", self.oid))


class ExcVal:
    def __init__(self, cls, args=(), upper=None, attrs=None):
        self.cls = cls          # ClassInfo | python exception class | None when symbolic
        self.args = tuple(args)
        self.upper = upper      # when cls is None: an (unknown) subclass of `upper`
        self.attrs = attrs or {}
        self.excluded = []      # classes it is known NOT to be an instance of (symbolic case)

    def __repr__(self):
        n = self.cls.__name__ if isinstance(self.cls, type) else (self.cls.name if self.cls is not None else "?<=%s" % self.upper.__name__)
        return "<exc %s%r>" % (n, self.args)


class FuncVal:
    def __init__(self, mod, node, cls=None, bound=None, closure=None, qual=None):
        self.mod = mod
        self.node = node
        self.cls = cls          # defining ClassInfo (for super())
        self.bound = bound      # self
        self.closure = closure  # enclosing frame locals (dict) for nested defs
        self.qual = qual

    def __repr__(self):
        return "<func %s>" % (self.qual or self.node.name)


class ModelFn:
    """A python-level model of an external or virtual callable: fn(ctx, args, kwargs) -> value."""

    def __init__(self, fn, name, meta=None):
        self.fn = fn
        self.name = name
        self.meta = meta or {}

    def __repr__(self):
        return "<model %s>" % self.name


class BoundBuiltin:
    def __init__(self, recv, name):
        self.recv = recv
        self.name = name

    def __repr__(self):
        return "<builtin-method %s of %r>" % (self.name, self.recv)


class SuperProxy:
    def __init__(self, cls, obj):
        self.cls = cls
        self.obj = obj


def frac(x):
    if isinstance(x, float):
        return fractions.Fraction(repr(x)) if x == x and x not in (float("inf"), float("-inf")) else None
    return fractions.Fraction(x)


def realval(x):
    f = frac(x)
    if f is None:
        raise Undecided("non-finite float")
    return z3.RealVal(str(f))


def b2s(b):
    return bytes(b).decode("latin-1")


def strval(s):
    return z3.StringVal(s)


def is_sym(v):
    return isinstance(v, SV)


def ty_of(v):
    if isinstance(v, SV):
        return v.ty
    if isinstance(v, bool):
        return "bool"
    if isinstance(v, int):
        return "int"
    if isinstance(v, float):
        return "real"
    if isinstance(v, (bytes, bytearray)):
        return "bytes"
    if isinstance(v, str):
        return "str"
    if v is None:
        return "none"
    if isinstance(v, tuple):
        return "tuple"
    if isinstance(v, Ref):
        return "ref"
    return type(v).__name__


def z(v, want=None):
    """python/SV value -> z3 term (optionally coerced to 'real')."""
    if isinstance(v, SV):
        t = v.t
        if want == "real" and v.ty == "int":
            return z3.ToReal(t)
        if want == "real" and v.ty == "bool":
            return z3.If(t, z3.RealVal(1), z3.RealVal(0))
        if want == "int" and v.ty == "bool":
            return z3.If(t, z3.IntVal(1), z3.IntVal(0))
        return t
    if isinstance(v, bool):
        if want == "real":
            return z3.RealVal(int(v))
        if want == "int":
            return z3.IntVal(int(v))
        return z3.BoolVal(v)
    if isinstance(v, int):
        return z3.RealVal(v) if want == "real" else z3.IntVal(v)
    if isinstance(v, float):
        return realval(v)
    if isinstance(v, (bytes, bytearray)):
        return strval(b2s(v))
    if isinstance(v, str):
        return strval(v)
    raise Undecided("cannot encode %r as a term" % (v,))


def simp(t):
    return z3.simplify(t)


def conc(v):
    """Try to turn an SV into a concrete python value (after simplification)."""
    if not isinstance(v, SV):
        return v
    t = z3.simplify(v.t)
    if v.ty == "bool":
        if z3.is_true(t):
            return True
        if z3.is_false(t):
            return False
    elif v.ty == "int":
        if z3.is_int_value(t):
            return t.as_long()
    elif v.ty in ("str", "bytes"):
        if z3.is_string_value(t):
            s = t.as_string()
            s = _unescape(s)
            return s.encode("latin-1") if v.ty == "bytes" else s
    return SV(t, v.ty)


def _unescape(s):
    # z3 prints non printable characters as \u{xx}
    import re
    return re.sub(r"\\u\{([0-9a-fA-F]+)\}", lambda m: chr(int(m.group(1), 16)), s)


def num_kind(a, b):
    ta, tb = ty_of(a), ty_of(b)
    if ta == "real" or tb == "real":
        return "real"
    return "int"


NUM = ("int", "real", "bool")
TEXT = ("str", "bytes")

"""pyvc.source -- loads the *real* source of ioflo/hio on every run.

Nothing is cached across runs: every check re-reads the files under SRC_ROOT (default
/repo/src, override with HIO_SRC for scratch copies used by the mutation self-test).
"""
import ast
import builtins
import hashlib
import importlib
import os

SRC_ROOT = os.environ.get("HIO_SRC", "/repo/src")


class Module:
    def __init__(self, name, path):
        self.name = name
        self.path = path
        with open(path, "r", encoding="utf-8") as f:
            self.src = f.read()
        self.tree = ast.parse(self.src, filename=path)
        self.is_pkg = os.path.basename(path) == "__init__.py"
        self.defs = {}      # name -> ast node (FunctionDef / ClassDef / Assign value / import)
        self.classes = {}
        self.mutated = set()   # module-level names changed by later module-level statements (their defining expression is not their value)
        for node in self.tree.body:
            self._index(node)

    def _index(self, node):
        if isinstance(node, (ast.FunctionDef, ast.AsyncFunctionDef)):
            self.defs[node.name] = ("func", node)
        elif isinstance(node, ast.ClassDef):
            self.defs[node.name] = ("class", node)
        elif isinstance(node, ast.Assign):
            for t in node.targets:
                if isinstance(t, ast.Name):
                    if t.id in self.defs and self.defs[t.id][0] == "assign":
                        self.mutated.add(t.id)          # re-bound: which binding is live depends on control flow
                    self.defs[t.id] = ("assign", node.value)
                elif isinstance(t, ast.Subscript) and isinstance(t.value, ast.Name):
                    self.mutated.add(t.value.id)        # TABLE[k] = v at module level
        elif isinstance(node, ast.AugAssign) and isinstance(node.target, ast.Name):
            self.mutated.add(node.target.id)
        elif isinstance(node, ast.AnnAssign) and isinstance(node.target, ast.Name) and node.value is not None:
            self.defs[node.target.id] = ("assign", node.value)
        elif isinstance(node, ast.Import):
            for a in node.names:
                nm = a.asname or a.name.split(".")[0]
                self.defs[nm] = ("import", a.name if a.asname else a.name.split(".")[0])
        elif isinstance(node, ast.ImportFrom):
            for a in node.names:
                nm = a.asname or a.name
                self.defs[nm] = ("importfrom", (node.level, node.module, a.name))
        elif isinstance(node, ast.Expr) and isinstance(node.value, ast.Call) and isinstance(node.value.func, ast.Attribute) \
                and isinstance(node.value.func.value, ast.Name):
            self.mutated.add(node.value.func.value.id)      # e.g. TABLE.update(...) at module level
        elif isinstance(node, (ast.If, ast.Try)):
            for sub in ast.iter_child_nodes(node):
                if isinstance(sub, ast.stmt):
                    self._index(sub)

    def package(self):
        return self.name if self.is_pkg else self.name.rpartition(".")[0]


_modules = {}


def module_path(name):
    base = os.path.join(SRC_ROOT, *name.split("."))
    if os.path.isdir(base) and os.path.exists(os.path.join(base, "__init__.py")):
        return os.path.join(base, "__init__.py")
    if os.path.exists(base + ".py"):
        return base + ".py"
    return None


def load_module(name):
    if name not in _modules:
        p = module_path(name)
        if p is None:
            raise KeyError("no repo module " + name)
        _modules[name] = Module(name, p)
    return _modules[name]


def is_repo_module(name):
    return name.split(".")[0] == "hio" and module_path(name) is not None


def resolve_relative(mod, level, target):
    pkg = mod.package()
    if level:
        parts = pkg.split(".")
        if level > 1:
            parts = parts[: -(level - 1)]
        pkg = ".".join(parts)
        return pkg + ("." + target if target else "")
    return target


class ClassInfo:
    """A class of the repo as read from its ClassDef."""

    def __init__(self, mod, node):
        self.mod = mod
        self.node = node
        self.name = node.name
        self.qual = mod.name + ":" + node.name
        self.methods = {}     # name -> FunctionDef (plain methods, static, class)
        self.kinds = {}       # name -> 'method'|'static'|'class'
        self.getters = {}
        self.setters = {}
        self.attrs = {}       # class-level assigns: name -> ast expr
        for st in node.body:
            if isinstance(st, (ast.FunctionDef, ast.AsyncFunctionDef)):
                kind = "method"
                for d in st.decorator_list:
                    if isinstance(d, ast.Name) and d.id == "property":
                        kind = "getter"
                    elif isinstance(d, ast.Attribute) and d.attr == "setter":
                        kind = "setter"
                    elif isinstance(d, ast.Name) and d.id == "staticmethod":
                        kind = "static"
                    elif isinstance(d, ast.Name) and d.id == "classmethod":
                        kind = "class"
                if kind == "getter":
                    self.getters[st.name] = st
                elif kind == "setter":
                    self.setters[st.name] = st
                else:
                    self.methods[st.name] = st
                    self.kinds[st.name] = kind
            elif isinstance(st, ast.Assign):
                for t in st.targets:
                    if isinstance(t, ast.Name):
                        self.attrs[t.id] = st.value
            elif isinstance(st, ast.AnnAssign) and isinstance(st.target, ast.Name) and st.value is not None:
                self.attrs[st.target.id] = st.value
        self._bases = None
        self._mro = None

    def bases(self):
        if self._bases is None:
            out = []
            for b in self.node.bases:
                out.append(resolve_class_expr(self.mod, b))
            self._bases = out
        return self._bases

    def mro(self):
        if self._mro is None:
            self._mro = _c3(self)
        return self._mro

    def __repr__(self):
        return "<class %s>" % self.qual


def _c3(cls):
    def lin(c):
        if not isinstance(c, ClassInfo):
            return [c]
        seqs = [lin(b) for b in c.bases()] + [list(c.bases())]
        res = [c]
        seqs = [list(s) for s in seqs if s]
        while seqs:
            for s in seqs:
                h = s[0]
                if not any(h in t[1:] for t in seqs):
                    break
            else:
                raise TypeError("inconsistent MRO for %r" % c)
            res.append(h)
            seqs = [[x for x in s if x is not h] for s in seqs]
            seqs = [s for s in seqs if s]
        return res
    return lin(cls)


_classes = {}


def get_class(mod, name):
    key = (mod.name, name)
    if key not in _classes:
        kind, node = mod.defs[name]
        assert kind == "class", (mod.name, name, kind)
        _classes[key] = ClassInfo(mod, node)
    return _classes[key]


def class_by_qual(qual):
    m, _, c = qual.partition(":")
    return get_class(load_module(m), c)


class Foreign:
    """A python object from outside the repo (stdlib / third party): module, class, function, constant."""

    def __init__(self, obj, name):
        self.obj = obj
        self.name = name

    def __repr__(self):
        return "<foreign %s>" % self.name

    def __eq__(self, other):
        return isinstance(other, Foreign) and other.obj is self.obj

    def __hash__(self):
        return hash(id(self.obj))


def resolve_global(mod, name):
    """Return ('func', Module, node) | ClassInfo | Module | Foreign | ('assign', Module, expr) | None."""
    if name in mod.defs:
        kind, val = mod.defs[name]
        if kind == "func":
            return ("func", mod, val)
        if kind == "class":
            return get_class(mod, name)
        if kind == "assign":
            return ("assign", mod, val)
        if kind == "import":
            if is_repo_module(val):
                return load_module(val)
            return Foreign(importlib.import_module(val), val)
        if kind == "importfrom":
            level, target, member = val
            full = resolve_relative(mod, level, target)
            if full.split(".")[0] == "hio":
                sub = full + "." + member if full else member
                if is_repo_module(sub):
                    return load_module(sub)
                m = load_module(full)
                return resolve_global(m, member)
            pm = importlib.import_module(full)
            return Foreign(getattr(pm, member), full + "." + member)
    if hasattr(builtins, name):
        return Foreign(getattr(builtins, name), "builtins." + name)
    return None


def resolve_class_expr(mod, expr):
    if isinstance(expr, ast.Name):
        r = resolve_global(mod, expr.id)
    elif isinstance(expr, ast.Attribute):
        base = resolve_class_expr(mod, expr.value)
        if isinstance(base, Module):
            r = resolve_global(base, expr.attr)
        elif isinstance(base, Foreign):
            r = Foreign(getattr(base.obj, expr.attr), base.name + "." + expr.attr)
        else:
            raise TypeError("cannot resolve base %s" % ast.dump(expr))
    else:
        raise TypeError("cannot resolve base %s" % ast.dump(expr))
    return r


def find_function(qual):
    """'hio.base.tyming:Tymer.restart' or 'hio.help.helping:intToB64' -> (Module, ClassInfo|None, FunctionDef, kind)"""
    m, _, rest = qual.partition(":")
    mod = load_module(m)
    if "." in rest:
        cname, fname = rest.split(".", 1)
        cls = get_class(mod, cname)
        prop = None
        if fname.endswith("@get"):
            return mod, cls, cls.getters[fname[:-4]], "getter"
        if fname.endswith("@set"):
            return mod, cls, cls.setters[fname[:-4]], "setter"
        for c in cls.mro():        # inherited methods resolve through the MRO read from the source
            if not isinstance(c, ClassInfo):
                continue
            if fname in c.methods:
                return c.mod, c, c.methods[fname], c.kinds[fname]
            if fname in c.getters:
                return c.mod, c, c.getters[fname], "getter"
        raise KeyError(qual)
    kind, node = mod.defs[rest]
    assert kind == "func", qual
    return mod, None, node, "func"


def segment_hash(mod, node):
    seg = ast.get_source_segment(mod.src, node) or ""
    return hashlib.sha256(seg.encode("utf-8")).hexdigest()[:16]


def any_owned_yield(fn):
    stack = list(fn.body)
    while stack:
        n = stack.pop()
        if isinstance(n, (ast.Yield, ast.YieldFrom)):
            return True
        if isinstance(n, (ast.FunctionDef, ast.AsyncFunctionDef, ast.Lambda, ast.ClassDef)):
            continue
        stack.extend(ast.iter_child_nodes(n))
    return False


is_generator_def = any_owned_yield

"""pyvc.spec -- contracts, the builder API used by the sidecar, loop specifications, the path driver.

A contract is a python function `fn(B)` in /verif/contracts.  It is run once per path:
    set up a symbolic pre-state  ->  B.call(...) interprets the REAL function from /repo/src
    ->  B.ensures / B.raises evaluate clause strings on the post-state (each one an obligation).
Clause strings are python expressions evaluated by the same interpreter (so `self.x`, `len(b)`,
slices, `old(e)`, `result`, ghost names and spec functions all mean what they mean in the code).
"""
import ast
import os
import re
import subprocess
import tempfile
import time
import traceback
import z3

from . import source
from .source import ClassInfo, Foreign
from .values import SV, Ref, ExcVal, FuncVal, ModelFn, Undecided, z, conc, ty_of
from . import engine as E
from .engine import Ctx, Frame, PathEnd, PyExc, Signal, ReturnSig, Obl, truth, mk, py_exc
from . import builtins as BI


class SpecModule:
    """pseudo module for clause evaluation: no definitions, python builtins only"""
    name = "<spec>"
    defs = {}
    src = ""

    def package(self):
        return ""


SPECMOD = SpecModule()


class ChainLocals(dict):
    def __init__(self, *maps):
        super().__init__()
        self.maps = maps

    def __contains__(self, k):
        return any(k in m for m in self.maps)

    def __getitem__(self, k):
        for m in self.maps:
            if k in m:
                return m[k]
        raise KeyError(k)

    def get(self, k, d=None):
        for m in self.maps:
            if k in m:
                return m[k]
        return d

    def __setitem__(self, k, v):
        self.maps[0][k] = v

    def pop(self, k, d=None):
        return self.maps[0].pop(k, d)


_clause_cache = {}


def parse_clause(text):
    if text not in _clause_cache:
        _clause_cache[text] = ast.parse(text.strip(), mode="eval").body
    return _clause_cache[text]


class LoopSpec:
    def __init__(self, ordinal, invariant=(), modifies=(), types=None, env=None, top=(), head=None, body_ensures=()):
        self.ordinal = ordinal
        self.invariant = list(invariant)
        self.modifies = list(modifies)
        self.types = types or {}
        self.env = env or {}
        self.top = set(top)
        self.head = head                        # callback(ctx, frame) at the head of the arbitrary iteration
        self.body_ensures = list(body_ensures)  # clauses checked at the END of the arbitrary iteration only (may use ghosts set by head)

    def check_body(self, interp, fr, name):
        sf = self._frame(interp, fr)
        for i, cl in enumerate(self.body_ensures):
            label = None
            if isinstance(cl, tuple):        # (label, clause): a readable obligation name instead of the ordinal
                label, cl = cl
            v = eval_clause(interp, cl, sf)
            interp.ctx.prove("%s#%d" % (name, i) if label is None else "%s/%s" % (name, label), v, kind="loop-body", detail=cl, top=True)

    def _frame(self, interp, fr):
        prog = interp.ctx.prog
        sf = Frame(None, ChainLocals(dict(self.env), fr.locals, interp.ctx.ghost, prog.spec_env), SPECMOD)
        sf.qual = fr.qual + "/spec"
        return sf

    def check(self, interp, fr, name, kind):
        sf = self._frame(interp, fr)
        interp.ctx.spec_mode = "check"
        for i, cl in enumerate(self.invariant):
            v = eval_clause(interp, cl, sf)
            interp.ctx.prove("%s#%d" % (name, i), v, kind=kind, detail=cl, top=(i in self.top))

    def assume(self, interp, fr):
        sf = self._frame(interp, fr)
        interp.ctx.spec_mode = "assume"      # spec functions with existential ghosts introduce fresh witnesses here
        for cl in self.invariant:
            interp.ctx.assume(as_term(eval_clause(interp, cl, sf)))
        interp.ctx.spec_mode = "check"

    def havoc(self, interp, fr, st):
        ctx = interp.ctx
        names = assigned_names(st) | set(getattr(self, "extra_havoc", ()))
        for n in sorted(names):
            if n in fr.locals:
                fr.locals[n] = havoc_value(ctx, fr.locals[n], self.types.get(n), n)
            elif n in self.types:
                fr.locals[n] = fresh_of_type(ctx, self.types[n], n)
        sf = self._frame(interp, fr)
        for m in self.modifies:
            if callable(m):
                m(interp, fr)          # custom havoc written in the sidecar (e.g. only the bounds of a window sequence)
                continue
            try:
                havoc_path(interp, sf, m, self.types)
            except PyExc as pe:
                raise Undecided("loop modifies %r cannot be evaluated: %r" % (m, pe.exc))


def assigned_names(st):
    out = set()
    for n in ast.walk(st):
        if isinstance(n, ast.Name) and isinstance(n.ctx, (ast.Store, ast.Del)):
            out.add(n.id)
        elif isinstance(n, ast.ExceptHandler) and n.name:
            out.add(n.name)
    return out


def havoc_value(ctx, cur, ty, hint):
    if ty is not None:
        return fresh_of_type(ctx, ty, hint)
    if isinstance(cur, SV):
        return ctx.fresh(cur.ty, hint)
    if isinstance(cur, bool):
        return ctx.fresh("bool", hint)
    if isinstance(cur, int):
        return ctx.fresh("int", hint)
    if isinstance(cur, float):
        return ctx.fresh("real", hint)
    if isinstance(cur, bytes):
        return ctx.fresh("bytes", hint)
    if isinstance(cur, str):
        return ctx.fresh("str", hint)
    if isinstance(cur, tuple):
        return tuple(havoc_value(ctx, x, None, hint) for x in cur)
    if cur is None:
        return None      # stays None unless a type is declared
    if isinstance(cur, Ref):
        return cur       # identity is kept; contents only change through `modifies`
    return cur


def havoc_path(interp, sf, path, types):
    """path: 'self.x' (attribute) | 'name' (a local holding a mutable ref) | 'ghost:name'"""
    ctx = interp.ctx
    ty = None
    if ":" in path and not path.startswith("ghost:"):
        path, ty = path.split(":", 1)
    if path.startswith("ghost:"):
        g = path[6:]
        if ":" in g:
            g, ty = g.split(":", 1)
        ctx.ghost[g] = havoc_value(ctx, ctx.ghost.get(g), ty or types.get(g), g)
        return
    node = parse_clause(path)
    if isinstance(node, ast.Attribute):
        obj = interp.eval(node.value, sf)
        cur = None
        if isinstance(obj, Ref) and obj.kind == "obj":
            cur = ctx.st(obj).get(node.attr)
            if isinstance(cur, Ref) and ty is None:
                havoc_ref(ctx, cur, path)
            else:
                ctx.st(obj)[node.attr] = havoc_value(ctx, cur, ty or types.get(path), node.attr)
        else:
            raise Undecided("havoc of %s" % path)
    else:
        cur = interp.eval(node, sf)
        if isinstance(cur, Ref):
            havoc_ref(ctx, cur, path)
        else:
            raise Undecided("havoc of non-ref local %s (locals assigned in the loop are havoced automatically)" % path)


def havoc_ref(ctx, r, hint):
    s = ctx.st(r)
    hint = re.sub(r"[^A-Za-z0-9_]", "_", hint)
    if r.kind == "buf":
        s["v"] = ctx.fresh("bytes", hint)
    elif r.kind == "wseq":
        f = BI.wseq_fresh(ctx, s["shape"], hint, s["kind2"])
        fs = ctx.st(f)
        s.update(arrs=fs["arrs"], lo=fs["lo"], hi=fs["hi"])
    elif r.kind == "sdict":
        f = BI.sdict_fresh(ctx, s["kty"], s["vty"], hint)
        fs = ctx.st(f)
        s.update(dom=fs["dom"], map=fs["map"], n=fs["n"])
    elif r.kind == "ext":
        m = s["model"]
        if hasattr(m, "havoc"):
            m.havoc(ctx, r)
        else:
            raise Undecided("havoc of external %r" % r)
    elif r.kind == "obj":
        ft = ctx.prog.field_types.get(r.cls.qual, {})
        for k, v in list(s.items()):
            if k.startswith("__"):
                continue
            if isinstance(v, Ref):
                continue
            s[k] = havoc_value(ctx, v, ft.get(k), k)
    else:
        raise Undecided("havoc of %r" % r)


def fresh_of_type(ctx, ty, hint="v"):
    if ty in ("int", "nat", "real", "bool", "str", "bytes") or ty.startswith("u:"):
        return ctx.fresh(ty, hint)
    if ty == "none":
        return None
    if ty == "pos":
        v = ctx.fresh("real", hint)
        ctx.assume(v.t > 0)
        return v
    if ty == "nonneg":
        v = ctx.fresh("real", hint)
        ctx.assume(v.t >= 0)
        return v
    if ty.startswith("opt[") and ty.endswith("]"):
        if ctx.fork(2, "opt-" + hint) == 0:
            return None
        return fresh_of_type(ctx, ty[4:-1], hint)
    if ty == "buf":
        return ctx.alloc("buf", init={"v": ctx.fresh("bytes", hint)})
    if ty.startswith("tuple[") and ty.endswith("]"):
        return tuple(fresh_of_type(ctx, t.strip(), hint) for t in split_types(ty[6:-1]))
    if ty.startswith("obj:"):
        return fresh_object(ctx, ty[4:], hint)
    mk_ = ctx.prog.type_makers.get(ty)
    if mk_ is not None:
        return mk_(ctx, hint)
    raise Undecided("no fresh value for type %s" % ty)


def split_types(s):
    out, depth, cur = [], 0, ""
    for ch in s:
        if ch == "[":
            depth += 1
        elif ch == "]":
            depth -= 1
        if ch == "," and depth == 0:
            out.append(cur)
            cur = ""
        else:
            cur += ch
    if cur.strip():
        out.append(cur)
    return out


def fresh_object(ctx, qual, hint="o", **overrides):
    cls = source.class_by_qual(qual)
    obj = ctx.alloc("obj", cls=cls)
    st = ctx.st(obj)
    ft = {}
    for c in reversed(cls.mro()):
        if isinstance(c, ClassInfo):
            ft.update(ctx.prog.field_types.get(c.qual, {}))
    for k, ty in ft.items():
        if k in overrides:
            st[k] = overrides[k]
        else:
            st[k] = fresh_of_type(ctx, ty, "%s.%s" % (hint, k))
    for k, v in overrides.items():
        st[k] = v
    return obj


def as_term(v):
    if isinstance(v, SV):
        if v.ty != "bool":
            raise Undecided("clause value is %s, not bool" % v.ty)
        return v.t
    if isinstance(v, bool):
        return z3.BoolVal(v)
    if z3.is_expr(v):
        return v
    raise Undecided("clause value %r is not a boolean" % (v,))


def eval_clause(interp, clause, sf):
    node = parse_clause(clause) if isinstance(clause, str) else clause
    try:
        v = interp.eval(node, sf)
    except PyExc as pe:
        raise Undecided("clause %r raised %r" % (clause, pe.exc))
    if isinstance(v, (SV, bool)) or z3.is_expr(v):
        return as_term(v)
    c = truth(interp.ctx, v)
    return as_term(c)


# ------------------------------------------------------------------ special forms available in clauses

def sf_old(interp, e, fr):
    ctx = interp.ctx
    if ctx.snap is None:
        raise Undecided("old() outside a contract call")
    saved = ctx.heap
    ctx.heap = {k: dict(v) for k, v in ctx.snap.items()}
    try:
        # old() of locals: parameters are immutable bindings in the spec frame, so only the heap is swapped
        v = interp.eval(e.args[0], fr)
        # a mutable container is materialised from the snapshot (its value THEN), so that `old(self.txbs) + data`
        # does not read the current contents through the shared reference
        if isinstance(v, Ref) and v.kind == "buf":
            return ctx.heap[v.oid]["v"]
        if isinstance(v, Ref) and v.kind in ("list", "deque"):
            items = list(ctx.heap[v.oid]["v"])
            ctx.heap = saved
            return ctx.alloc(v.kind, init={"v": items})
        if isinstance(v, Ref) and v.kind in ("sdict", "dict"):
            st = dict(ctx.heap[v.oid])
            ctx.heap = saved
            return ctx.alloc(v.kind, init=st)
        return v
    finally:
        ctx.heap = saved


def _under(interp, cond, node, fr):
    """evaluate node under the extra assumption cond; result must be a boolean term"""
    ctx = interp.ctx
    if isinstance(cond, bool):
        if not cond:
            return True
        return eval_clause(interp, node, fr)
    n = len(ctx.trail)
    npc = len(ctx.pc)
    ctx.solver.push()
    try:
        ctx.solver.add(cond)
        ctx.pc.append(cond)
        r = eval_clause(interp, node, fr)
        if len(ctx.trail) != n:
            raise Undecided("clause forks under implication; split it")
        return r
    except PathEnd:
        return True
    finally:
        del ctx.pc[npc:]
        ctx.solver.pop()


def sf_implies(interp, e, fr):
    a = eval_clause(interp, e.args[0], fr)
    a = z3.simplify(a)
    if z3.is_false(a):
        return True
    b = _under(interp, True if z3.is_true(a) else a, e.args[1], fr)
    if isinstance(b, bool):
        b = z3.BoolVal(b)
    return mk(z3.Implies(a, b), "bool")


def sf_ite(interp, e, fr):
    a = eval_clause(interp, e.args[0], fr)
    b = _under(interp, a, e.args[1], fr)
    c = _under(interp, z3.Not(a), e.args[2], fr)
    return mk(z3.If(a, as_term(b), as_term(c)), "bool")


def sf_ghost(interp, e, fr):
    return interp.ctx.ghost[e.args[0].value]


SPECIAL_FORMS = {"old": sf_old, "implies": sf_implies, "ite": sf_ite, "ghost": sf_ghost}


# ------------------------------------------------------------------ function specs (loops of inlined functions)

class FuncSpec:
    def __init__(self, qual):
        self.qual = qual
        self.loops = {}
        self._ord = None

    def loop_for(self, st, fr):
        if self._ord is None or self._ord[0] is not fr.fv.node:
            loops = [n for n in ast.walk(fr.fv.node) if isinstance(n, (ast.While, ast.For))]
            loops.sort(key=lambda n: (n.lineno, n.col_offset))
            self._ord = (fr.fv.node, {id(n): i for i, n in enumerate(loops)})
        o = self._ord[1].get(id(st))
        return self.loops.get(o)


# ------------------------------------------------------------------ the program / registry

class Prog:
    def __init__(self):
        self.timeout_ms = int(os.environ.get("PYVC_TIMEOUT_MS", "10000"))
        self.externals = {}
        self.class_models = {}
        self.text_models = {}
        self.type_makers = {}
        self.field_types = {}
        self.special_forms = dict(SPECIAL_FORMS)
        self.spec_env = {}
        self.pure_foreign = set()
        self.usort_models = {}
        self.func_specs = {}
        self.modular = {}
        self.global_models = {}     # (module name, global name) -> value standing in for a module-level object
        self.dict_maker = None
        self.use_cvc5 = True
        self.cvc5_ms = int(os.environ.get("PYVC_CVC5_MS", "8000"))
        self.stats = {"cvc5_calls": 0}

    def inline_spec(self, qual):
        return self.func_specs.get(qual)

    def modular_contract(self, qual, caller):
        return self.modular.get(qual)

    def new_dict(self, ctx):
        if self.dict_maker is not None:
            return self.dict_maker(ctx)
        return ctx.alloc("dict", init={"v": {}})

    def ext_text(self, op, ctx, s, enc):
        h = self.text_models.get(op)
        if h is None:
            raise Undecided("no model for text %s" % op)
        return h(ctx, s, [enc], {})

    def second_opinion(self, formulas):
        if not self.use_cvc5:
            return None
        self.stats["cvc5_calls"] += 1
        return cvc5_check(formulas, self.cvc5_ms)


def cvc5_check(formulas, ms):
    s = z3.Solver()
    for f in formulas:
        s.add(f)
    smt = s.to_smt2()
    smt = "(set-logic ALL)\n(set-option :produce-models true)\n" + smt.replace("(check-sat)", "(check-sat)\n(get-model)")
    with tempfile.NamedTemporaryFile("w", suffix=".smt2", delete=False) as f:
        f.write(smt)
        path = f.name
    try:
        p = subprocess.run(["/usr/bin/cvc5", "--strings-exp", "--tlimit=%d" % ms, path], capture_output=True, text=True, timeout=ms / 1000 + 10)
        out = p.stdout.strip().splitlines()
        first = out[0].strip() if out else ""
        if first == "unsat":
            return ("cvc5", z3.unsat, None)
        if first == "sat":
            model = {}
            for m in re.finditer(r"\(define-fun\s+(\S+)\s+\(\)\s+(\S+)\s+(.*)\)\s*$", "\n".join(out[1:]), re.M):
                model[m.group(1).strip("|")] = m.group(3).strip()
            return ("cvc5", z3.sat, model or {"cvc5": "sat (model not extracted)"})
        return None
    except (subprocess.TimeoutExpired, OSError):
        return None
    finally:
        os.unlink(path)


# ------------------------------------------------------------------ contracts and the builder

class Contract:
    def __init__(self, qual, fn, props, name=None, note=""):
        self.qual = qual
        self.fn = fn
        self.props = list(props)
        self.name = name or qual
        self.note = note


REGISTRY = []


def contract(qual, props, name=None, note="", z3_ms=None, cvc5_first=False, cvc5_ms=None):
    def deco(fn):
        c = Contract(qual, fn, props, name, note)
        c.z3_ms = z3_ms      # per-query z3 budget; string-heavy contracts use a short one and let cvc5 take the unknowns
        c.cvc5_ms = cvc5_ms          # per-query cvc5 budget where the default (8 s) is too close to what a query needs
        c.cvc5_first = cvc5_first    # obligations go to cvc5 before z3 (z3's sequence solver overruns its timeout on nested substrings)
        REGISTRY.append(c)
        return fn
    return deco


class Builder:
    def __init__(self, ctx, con):
        self.ctx = ctx
        self.con = con
        self.prog = ctx.prog
        self.env = {}
        self.outcome = None
        self.handled = False
        self.nens = 0
        self.name = con.name
        self.functions = {}

    # ---- symbolic values
    def int(self, hint="i"):
        return self.ctx.fresh("int", hint)

    def nat(self, hint="n"):
        return self.ctx.fresh("nat", hint)

    def real(self, hint="r"):
        return self.ctx.fresh("real", hint)

    def bool(self, hint="b"):
        return self.ctx.fresh("bool", hint)

    def bytes(self, hint="bs"):
        return self.ctx.fresh("bytes", hint)

    def str(self, hint="s"):
        return self.ctx.fresh("str", hint)

    def uid(self, sort, hint=None):
        return self.ctx.fresh("u:" + sort, hint or sort.lower())

    def of(self, ty, hint="v"):
        return fresh_of_type(self.ctx, ty, hint)

    def opt(self, ty, hint="v"):
        return fresh_of_type(self.ctx, "opt[%s]" % ty, hint)

    def choice(self, *vals, label="choice"):
        return vals[self.ctx.fork(len(vals), label)]

    def buf(self, content=None, hint="buf"):
        return self.ctx.alloc("buf", init={"v": content if content is not None else self.ctx.fresh("bytes", hint)})

    def obj(self, qual, hint="self", **fields):
        return fresh_object(self.ctx, qual, hint, **fields)

    def model(self, fn, name="model"):
        return ModelFn(fn, name)

    def ext(self, model, tag=None):
        return self.ctx.alloc("ext", init={"model": model}, tag=tag)

    def list(self, items):
        return self.ctx.alloc("list", init={"v": list(items)})

    def deque(self, items):
        return self.ctx.alloc("deque", init={"v": list(items)})

    def dict(self, d):
        # keys may be symbolic values that the contract has assumed pairwise distinct (see builtins.dict_slot)
        return self.ctx.alloc("dict", init={"v": {BI.dict_new_slot(k): (k, v) for k, v in d.items()}})

    def sdict(self, kty, vty, hint="d"):
        return BI.sdict_fresh(self.ctx, kty, vty, hint)

    def virtual(self, obj, name, fn):
        st = self.ctx.st(obj)
        st.setdefault("__virtual__", {})
        st["__virtual__"] = dict(st["__virtual__"])
        st["__virtual__"][name] = fn if isinstance(fn, (ModelFn, FuncVal)) else ModelFn(fn, "virtual:" + name)

    def ghost(self, name, value):
        self.ctx.ghost[name] = value
        return value

    def assume(self, clause, **env):
        if isinstance(clause, str):
            self.ctx.assume(self.eval(clause, **env))
        else:
            self.ctx.assume(clause)

    def let(self, **kw):
        self.env.update(kw)

    # ---- loop specs for the function under contract or functions it inlines
    def loop(self, qual, ordinal, invariant=(), modifies=(), types=None, top=(), head=None, body_ensures=()):
        fs = self.prog.func_specs.setdefault(qual, FuncSpec(qual))
        fs.loops[ordinal] = LoopSpec(ordinal, invariant, modifies, types, env=self.env, top=top, head=head, body_ensures=body_ensures)

    # ---- running the real code
    def funcval(self, qual, bound=None):
        mod, cls, node, kind = source.find_function(qual)
        self.functions[qual] = source.segment_hash(mod, node)
        return FuncVal(mod, node, cls=cls, bound=bound, qual=qual)

    def call(self, *args, qual=None, bound=None, yield_handler=None, **kwargs):
        """interpret the real function; records outcome; returns the result (or None if it raised)"""
        qual = qual or self.con.qual
        fv = self.funcval(qual, bound)
        ctx = self.ctx
        # vacuity guard: a pre-state the solver can REFUTE generates no obligations at all (the path is dropped; the ledger then
        # reports the missing obligations), and every contract must reach its call on at least one satisfiable pre-state
        if ctx.pc:
            r, _ = ctx._check()
            if r == z3.unsat:
                raise E.PathEnd()
        # (sat, or unknown for quantified pre-states: recorded either way so the cover does not flip with solver load)
        ctx.obls.append(Obl("%s/cover:precondition-not-refuted" % self.name, ctx.path_id(), "cover", 0.0, "", "", "cover"))
        ctx.snap = ctx.snapshot()
        interp = ctx.interp
        init = {}
        try:
            locs = interp.bind(fv, list(args), kwargs)
            init = dict(locs)
            fr = Frame(fv, locs, fv.mod, fv.cls, yield_handler, self.prog.inline_spec(qual))
            self.frame = fr
            r = interp.run_body(fv, fr)
            self.outcome = ("return", r)
            self.env["result"] = r
        except PyExc as pe:
            self.outcome = ("raise", pe.exc)
            self.env["exc"] = pe.exc
            r = None
        except E.Suspend as sp:
            # the generator under contract suspended at a yield (step contracts of incremental parsers)
            self.outcome = ("yield", sp.value)
            self.env["yielded"] = sp.value
            r = sp.value
        # expose the parameters to the clauses
        a = fv.node.args
        names = [p.arg for p in a.posonlyargs + a.args + a.kwonlyargs]
        for n in names:
            if n in init and n not in self.env:
                self.env[n] = init[n]
        return r

    # ---- clauses
    def spec_frame(self, **env):
        sf = Frame(None, ChainLocals(dict(env), self.env, self.ctx.ghost, self.prog.spec_env), SPECMOD)
        sf.qual = self.name + "/spec"
        return sf

    def eval(self, clause, **env):
        return eval_clause(self.ctx.interp, clause, self.spec_frame(**env))

    def value(self, expr, **env):
        return self.ctx.interp.eval(parse_clause(expr), self.spec_frame(**env))

    def returned(self):
        return self.outcome is not None and self.outcome[0] == "return"

    def raised(self, cls=None):
        if self.outcome is None or self.outcome[0] != "raise":
            return False
        if cls is None:
            return True
        return bool(self.ctx.interp.exc_isinstance(self.outcome[1], cls))

    def prove(self, label, clause, top=False, props=None, **env):
        v = self.eval(clause, **env) if isinstance(clause, str) else clause
        saved = Obl.cur_props
        if props is not None:
            Obl.cur_props = list(props)
        try:
            return self.ctx.prove("%s/%s" % (self.name, label), v, kind="clause", detail=clause if isinstance(clause, str) else label, top=top)
        finally:
            Obl.cur_props = saved

    def only(self, *props):
        """context manager: obligations generated inside belong to these properties only"""
        b = self

        class _Only:
            def __enter__(self_):
                self_.saved = Obl.cur_props
                Obl.cur_props = list(props)

            def __exit__(self_, *a):
                Obl.cur_props = self_.saved
                return False
        return _Only()

    def ensures(self, clause, top=False, label=None, **env):
        """postcondition on normal return"""
        if not self.returned():
            return None
        self.nens += 1
        return self.prove(label or ("ensures#%d" % self.nens), clause, top=top, **env)

    def raises(self, cls, clause="True", top=False, label=None, **env):
        """allowed exceptional exit: exception class `cls` may escape, and then `clause` holds"""
        if not self.raised(cls):
            return None
        self.handled = True
        nm = getattr(cls, "__name__", getattr(cls, "name", "exc"))
        return self.prove(label or ("raises-%s" % nm), clause, top=top, **env)

    def no_other_exception(self, top=False, label="no-unexpected-exception"):
        if self.raised() and not self.handled:
            ex = self.outcome[1]
            self.ctx.prove("%s/%s" % (self.name, label), z3.BoolVal(False), kind="exception-freedom",
                           detail="unexpected %r" % (ex,), top=top)
        else:
            self.ctx.prove("%s/%s" % (self.name, label), z3.BoolVal(True), kind="exception-freedom", detail="", top=top)

    def cover(self, label):
        """reachability witness: this point is reached on a feasible path"""
        self.ctx.obls.append(Obl("%s/cover:%s" % (self.name, label), self.ctx.path_id(), "cover", 0.0, "", "", "cover"))


# ------------------------------------------------------------------ the DFS driver

def run_contract(prog_factory, con, max_paths=20000, budget_s=600):
    """Enumerate every path of the contract harness.  Returns a result dict (picklable)."""
    t0 = time.time()
    prefix = []
    results = []
    npaths = 0
    functions = {}
    inlined = set()
    undecided = []
    solver_ms = 0.0
    error = None
    covers = set()
    while True:
        prog = prog_factory()
        if getattr(con, "z3_ms", None):
            prog.timeout_ms = con.z3_ms
        prog.cvc5_first = bool(getattr(con, "cvc5_first", False))
        if getattr(con, "cvc5_ms", None):
            prog.cvc5_ms = max(prog.cvc5_ms, con.cvc5_ms)
        ctx = Ctx(prog, prefix)
        ctx.cname = con.name
        B = Builder(ctx, con)
        try:
            con.fn(B)
        except PathEnd:
            pass
        except Undecided as u:
            undecided.append({"path": ctx.path_id(), "reason": str(u)})
        except PyExc as pe:
            undecided.append({"path": ctx.path_id(), "reason": "uncaught python exception in harness: %r" % (pe.exc,)})
        except Signal as s:
            undecided.append({"path": ctx.path_id(), "reason": "stray control signal %r" % (s,)})
        except z3.Z3Exception as ze:
            error = "z3 exception: %s\n%s" % (ze, traceback.format_exc())
        except Exception as ex:   # engine bug: checker error, never a verdict
            error = "engine exception: %r\n%s" % (ex, traceback.format_exc())
        npaths += 1
        solver_ms += ctx.solver_ms
        for o in ctx.obls:
            if o.status == "cover":
                covers.add(o.name)
            else:
                results.append(o.as_dict())
        functions.update(B.functions)
        inlined |= ctx.inlined
        if error:
            break
        # next prefix
        trail = ctx.trail
        k = len(trail) - 1
        while k >= 0 and trail[k][0] + 1 >= len(trail[k][1]):
            k -= 1
        if k < 0:
            break
        prefix = [(c, o, l) for c, o, l in trail[:k]] + [(trail[k][0] + 1, trail[k][1], trail[k][2])]
        if npaths >= max_paths or time.time() - t0 > budget_s:
            undecided.append({"path": "*", "reason": "path budget exhausted (%d paths, %.0fs)" % (npaths, time.time() - t0)})
            break
    return dict(contract=con.name, qual=con.qual, props=con.props, paths=npaths, obligations=results, functions=functions,
                inlined=sorted(inlined), undecided=undecided, error=error, wall_s=round(time.time() - t0, 3),
                solver_ms=round(solver_ms, 1), covers=sorted(covers))

"""pyvc.builtins -- models of python built-in types and functions used by hio.

Every model here is part of the trusted base (DESIGN.md section 7); the harness cross-checks the
verified contracts against CPython, which is what catches a wrong model.
"""
import ast
import z3

from .values import (SV, Ref, ExcVal, FuncVal, ModelFn, BoundBuiltin, SuperProxy, Undecided,
                     z, conc, ty_of, strval, b2s, NUM, TEXT)
from .source import ClassInfo, Foreign, Module
from . import engine as E
from .engine import PyExc, PathEnd, py_exc, truth, mk, t_and, t_or, t_not, values_equal


# ------------------------------------------------------------------ helpers

def hashable(k):
    if isinstance(k, Ref):
        return ("ref", k.oid)
    if isinstance(k, SV):
        c = conc(k)
        if isinstance(c, SV):
            raise Undecided("symbolic key %r in a concrete dict" % (k,))
        return c
    if isinstance(k, tuple):
        return tuple(hashable(x) for x in k)
    if isinstance(k, (FuncVal, ModelFn, ClassInfo, Foreign)):
        return ("id", id(k) if not isinstance(k, FuncVal) else (id(k.node), k.bound.oid if isinstance(k.bound, Ref) else None))
    return k


def _is_sym_slot(hk):
    return isinstance(hk, tuple) and len(hk) == 2 and hk[0] == "sym!"


def dict_new_slot(key):
    """hash key for a NEW entry: the python value when concrete, a name for the term when symbolic"""
    try:
        return hashable(key)
    except Undecided:
        return ("sym!", "%s:%s" % (key.t.sexpr(), key.ty))


def dict_slot(ctx, s, key):
    """slot of a concrete-shape dict that holds `key` on this path, or None.  Entries may have symbolic keys: equality with such
    an entry (or of a symbolic key with any entry) is decided by a case split, so afterwards the path condition pins it down."""
    try:
        hk = hashable(key)
        sym = False
    except Undecided:
        hk, sym = None, True
    if hk is not None and hk in s["v"]:
        return hk
    if sym:
        nm = dict_new_slot(key)
        if nm in s["v"]:
            return nm
    for ek, (kk, _) in list(s["v"].items()):
        if sym or _is_sym_slot(ek):
            try:
                eq = values_equal(ctx, key, kk)
            except Undecided:
                continue
            if eq is True or (eq is not False and ctx.branch(eq, "dict-key")):
                return ek
    return None


def text_len(v):
    if isinstance(v, SV):
        return mk(z3.Length(v.t), "int")
    return len(v)


def length(ctx, v):
    if isinstance(v, SV) and v.ty in TEXT:
        return text_len(v)
    if isinstance(v, (str, bytes, tuple)):
        return len(v)
    if isinstance(v, Ref):
        s = ctx.st(v)
        if v.kind in ("list", "deque"):
            return len(s["v"])
        if v.kind == "dict":
            return len(s["v"])
        if v.kind == "buf":
            return text_len(s["v"])
        if v.kind == "wseq":
            return mk(s["hi"] - s["lo"], "int")
        if v.kind == "sdict":
            return mk(s["n"], "int")
        if v.kind == "ext":
            m = s["model"]
            if hasattr(m, "length"):
                return m.length(ctx, v)
    raise py_exc(TypeError, "object of type %s has no len()" % ty_of(v))


def ref_truth(ctx, r):
    if r.kind == "obj":
        return True
    if r.kind in ("list", "deque", "dict", "buf", "wseq", "sdict"):
        n = length(ctx, r)
        if isinstance(n, int):
            return n > 0
        return n.t > 0
    if r.kind == "ext":
        m = ctx.st(r)["model"]
        if hasattr(m, "truth"):
            t = m.truth(ctx, r)
            return t.t if isinstance(t, SV) else t
        return True
    if r.kind == "gen":
        return True
    raise Undecided("truth of %r" % r)


def ref_equal(ctx, a, b):
    if isinstance(a, Ref) and isinstance(b, Ref):
        if a.kind == "obj" or b.kind == "obj":
            return a.oid == b.oid     # A-ATTR: no __eq__ overrides in the classes under contract
        if a.kind == "ext" or b.kind == "ext":
            ma = ctx.st(a).get("model") if a.kind == "ext" else None
            if ma is not None and hasattr(ma, "equal"):
                return ma.equal(ctx, a, b)
            return a.oid == b.oid
        if a.kind == "buf" and b.kind == "buf":
            return values_equal(ctx, ctx.st(a)["v"], ctx.st(b)["v"])
        if a.kind in ("list", "deque") and b.kind == a.kind:
            la, lb = ctx.st(a)["v"], ctx.st(b)["v"]
            if len(la) != len(lb):
                return False
            return t_and(*[values_equal(ctx, x, y) for x, y in zip(la, lb)])
        if a.kind == "dict" and b.kind == "dict":
            da, db = ctx.st(a)["v"], ctx.st(b)["v"]
            if set(da) != set(db):
                return False
            return t_and(*[values_equal(ctx, da[k][1], db[k][1]) for k in da])
        if a.kind == "sdict" and b.kind == "sdict":
            sa, sb = ctx.st(a), ctx.st(b)
            return z3.And(sa["dom"] == sb["dom"], _maps_eq_on_dom(sa, sb))
        return False
    r, o = (a, b) if isinstance(a, Ref) else (b, a)
    if r.kind == "buf" and ty_of(o) == "bytes":
        return values_equal(ctx, ctx.st(r)["v"], o)
    if r.kind == "ext":
        m = ctx.st(r)["model"]
        if hasattr(m, "equal"):
            return m.equal(ctx, r, o)
    return False


def _maps_eq_on_dom(sa, sb):
    k = z3.Const("k!eq", sa["dom"].sort().domain())
    return z3.ForAll([k], z3.Implies(z3.Select(sa["dom"], k), z3.Select(sa["map"], k) == z3.Select(sb["map"], k)))


def contains(ctx, container, item):
    if isinstance(container, tuple):
        return t_or(*[values_equal(ctx, item, x) for x in container])
    if isinstance(container, Ref):
        s = ctx.st(container)
        if container.kind in ("list", "deque"):
            return t_or(*[values_equal(ctx, item, x) for x in s["v"]])
        if container.kind == "dict":
            if not any(_is_sym_slot(ek) for ek in s["v"]):
                try:
                    return hashable(item) in s["v"]
                except Undecided:
                    pass
            return dict_slot(ctx, s, item) is not None
        if container.kind == "sdict":
            return z3.Select(s["dom"], _key_term(s, item))
        if container.kind == "buf":
            return contains(ctx, s["v"], item)
        if container.kind == "ext":
            m = s["model"]
            if hasattr(m, "contains"):
                return m.contains(ctx, container, item)
        if container.kind == "wseq":
            raise Undecided("`in` on window sequence")
    tc, ti = ty_of(container), ty_of(item)
    if tc in TEXT:
        if ti == "int" and tc == "bytes":
            raise Undecided("int in bytes")
        if ti != tc:
            if isinstance(item, Ref) and item.kind == "buf":
                item = ctx.st(item)["v"]
            else:
                raise py_exc(TypeError, "'in <%s>' requires %s as left operand, not %s" % (tc, tc, ti))
        if not isinstance(container, SV) and not isinstance(item, SV):
            return item in container
        return z3.Contains(z(container), z(item))
    raise Undecided("`in` on %s" % tc)


def concrete_iter(ctx, it, must=False):
    if isinstance(it, tuple):
        return list(it)
    if isinstance(it, (str,)):
        return list(it)
    if isinstance(it, bytes):
        return list(it)
    if isinstance(it, range):
        return list(it)
    if isinstance(it, list):
        return list(it)
    if isinstance(it, Ref):
        s = ctx.st(it)
        if it.kind in ("list", "deque"):
            return list(s["v"])
        if it.kind == "dict":
            return [k for k, _ in s["v"].values()]
        if it.kind == "iter":
            return list(s["v"])
        if it.kind == "ext" and hasattr(s["model"], "iterate"):
            return s["model"].iterate(ctx, it)      # a (lazy) python iterator written in the sidecar, e.g. a database cursor that moves as it is iterated
    if must:
        raise Undecided("iteration over symbolic %r" % (it,))
    return None


def concrete_dict_items(ctx, d):
    if isinstance(d, Ref) and d.kind == "dict":
        return [(k, v) for k, v in ctx.st(d)["v"].values()]
    if isinstance(d, dict):
        return list(d.items())
    if isinstance(d, SV) and d.ty.startswith("u:"):
        # a mapping known only by identity: its (fixed) key set and per-key values come from the sidecar model
        m = ctx.prog.usort_models.get(d.ty[2:])
        if m is not None and hasattr(m, "mapping"):
            return list(m.mapping(ctx, d))
    raise Undecided("** of non-concrete dict %r" % (d,))


def unpack(ctx, v, n):
    if isinstance(v, tuple):
        vals = list(v)
    elif isinstance(v, Ref) and v.kind in ("list", "deque"):
        vals = list(ctx.st(v)["v"])
    elif isinstance(v, Ref) and v.kind == "ext" and hasattr(ctx.st(v)["model"], "unpack"):
        return ctx.st(v)["model"].unpack(ctx, v, n)
    else:
        raise Undecided("unpack of %r" % (v,))
    if len(vals) != n:
        raise py_exc(ValueError, "not enough values to unpack" if len(vals) < n else "too many values to unpack")
    return vals


# ------------------------------------------------------------------ text

def _norm_index(i, n, default):
    """python slice bound normalisation as a z3 Int term. n: z3 Int (length)."""
    if i is None:
        return default
    iz = z(i, "int") if not isinstance(i, int) else z3.IntVal(i)
    if isinstance(i, int):
        if i >= 0:
            return z3.If(iz > n, n, iz)
        return z3.If(iz + n < 0, z3.IntVal(0), iz + n)
    return z3.If(iz < 0, z3.If(iz + n < 0, z3.IntVal(0), iz + n), z3.If(iz > n, n, iz))


def text_slice(ctx, s, sl):
    if sl.step is not None and conc(sl.step) != 1:
        raise Undecided("slice step")
    ty = ty_of(s)
    lo, hi = sl.start, sl.stop
    lo, hi = conc(lo), conc(hi)
    if not isinstance(s, SV) and not isinstance(lo, SV) and not isinstance(hi, SV):
        return s[lo:hi]
    st = z(s)
    n = z3.Length(st)
    a = _norm_index(lo, n, z3.IntVal(0))
    b = _norm_index(hi, n, n)
    return mk(z3.SubString(st, a, z3.If(b > a, b - a, z3.IntVal(0))), ty)


def text_index(ctx, s, i):
    ty = ty_of(s)
    i = conc(i)
    if not isinstance(s, SV) and not isinstance(i, SV):
        try:
            return s[i]
        except IndexError:
            raise py_exc(IndexError, "index out of range")
    st = z(s)
    n = z3.Length(st)
    iz = z(i, "int")
    if ctx.branch(z3.Or(iz >= n, iz < -n), "index-range"):
        raise py_exc(IndexError, "index out of range")
    pos = z3.If(iz < 0, iz + n, iz)
    ch = z3.SubString(st, pos, 1)
    if ty == "bytes":
        return mk(z3.StrToCode(ch), "int")
    return mk(ch, "str")


def text_find(ctx, s, sub, start=None):
    if not isinstance(s, SV) and not isinstance(sub, SV) and start is None:
        return s.find(sub)
    return mk(z3.IndexOf(z(s), z(sub), z(start, "int") if start is not None else z3.IntVal(0)), "int")


def as_text(ctx, v):
    """bytes-like value of a bytearray ref or text value"""
    if isinstance(v, Ref) and v.kind == "buf":
        return ctx.st(v)["v"]
    return v


TEXT_METHODS = {"find", "startswith", "endswith", "split", "rsplit", "partition", "decode", "encode", "strip", "lstrip", "rstrip",
                "lower", "upper", "title", "join", "format", "index", "replace", "isdigit", "hex", "count", "splitlines", "rpartition", "zfill",
                "capitalize", "casefold", "isalnum"}


def text_method(ctx, s, name, args, kwargs):
    ty = ty_of(s)
    args = [as_text(ctx, a) for a in args]
    def _sym(x):
        return isinstance(x, (SV, Ref)) or (isinstance(x, (tuple, list)) and any(_sym(y) for y in x))
    allconc = not isinstance(s, SV) and not any(_sym(a) for a in args) and not any(_sym(a) for a in kwargs.values())
    if allconc and name in TEXT_METHODS:
        try:
            r = getattr(s, name)(*args, **kwargs)
        except UnicodeDecodeError as ex:
            raise py_exc(UnicodeDecodeError, *ex.args)
        except UnicodeEncodeError as ex:
            raise py_exc(UnicodeEncodeError, *ex.args)
        except (ValueError, TypeError, LookupError) as ex:
            raise py_exc(type(ex), *ex.args)
        if isinstance(r, list):
            return ctx.alloc("list", init={"v": r})
        return r
    if name == "format":
        exact = simple_format(s, args, kwargs)
        if exact is not None:
            return exact
        return ctx.fresh(ty if ty in TEXT else "str", "fmt")     # message text is opaque
    st = z(s)
    if name == "find":
        return text_find(ctx, s, args[0], args[1] if len(args) > 1 else None)
    if name == "startswith":
        if isinstance(args[0], tuple):
            return mk(z3.Or(*[z3.PrefixOf(z(a), st) for a in args[0]]), "bool")
        return mk(z3.PrefixOf(z(args[0]), st), "bool")
    if name == "endswith":
        if isinstance(args[0], tuple):
            return mk(z3.Or(*[z3.SuffixOf(z(a), st) for a in args[0]]), "bool")
        return mk(z3.SuffixOf(z(args[0]), st), "bool")
    if name == "partition":
        sep = z(args[0])
        k = z3.IndexOf(st, sep, 0)
        if ctx.branch(k >= 0, "partition-found"):
            head = z3.SubString(st, 0, k)
            tail = z3.SubString(st, k + z3.Length(sep), z3.Length(st) - k - z3.Length(sep))
            return (mk(head, ty), args[0], mk(tail, ty))
        return (s, b"" if ty == "bytes" else "", b"" if ty == "bytes" else "")
    if name == "split" and len(args) == 2 and conc(args[1]) == 1:
        sep = z(args[0])
        k = z3.IndexOf(st, sep, 0)
        if ctx.branch(k >= 0, "split-found"):
            head = z3.SubString(st, 0, k)
            tail = z3.SubString(st, k + z3.Length(sep), z3.Length(st) - k - z3.Length(sep))
            return ctx.alloc("list", init={"v": [mk(head, ty), mk(tail, ty)]})
        return ctx.alloc("list", init={"v": [s]})
    if name == "decode":
        enc = (args[0] if args else kwargs.get("encoding", "utf-8"))
        return ctx.prog.ext_text("decode", ctx, s, enc)
    if name == "encode":
        enc = (args[0] if args else kwargs.get("encoding", "utf-8"))
        return ctx.prog.ext_text("encode", ctx, s, enc)
    h = ctx.prog.text_models.get(name)
    if h is not None:
        return h(ctx, s, args, kwargs)
    raise Undecided("text method %s on symbolic %s" % (name, ty))


def simple_format(s, args, kwargs):
    """'..{0}..{1}..'.format(a, b) exactly, when the template is a concrete str whose fields are plain positional ones (no
    conversion, no format spec) and every argument used is a str (symbolic or concrete): the concatenation.  Else None."""
    import string
    if not isinstance(s, str) or kwargs:
        return None
    try:
        fields = list(string.Formatter().parse(s))
    except ValueError:
        return None
    parts, auto = [], 0
    for lit, field, spec, conv in fields:
        if lit:
            parts.append(z3.StringVal(lit))
        if field is None:
            continue
        if spec or conv:
            return None
        if field == "":
            idx, auto = auto, auto + 1
        elif field.isdigit():
            idx = int(field)
        else:
            return None
        if idx >= len(args):
            return None
        a = args[idx]
        if isinstance(a, str):
            parts.append(z3.StringVal(a))
        elif isinstance(a, SV) and a.ty == "str":
            parts.append(a.t)
        else:
            return None
    if not parts:
        return ""
    return SV(z3.Concat(*parts) if len(parts) > 1 else parts[0], "str")


def text_format(ctx, a, b):
    h = ctx.prog.text_models.get("%")
    if h is not None:
        r = h(ctx, a, [b], {})         # sidecar model of `fmt % args` (e.g. a fixed-width hex field as an uninterpreted function)
        if r is not NotImplemented:
            return r
    if not isinstance(a, SV):
        vals = b if isinstance(b, tuple) else (b,)
        if isinstance(b, Ref) and b.kind == "dict":
            d = {k: v for k, v in concrete_dict_items(ctx, b)}
            if all(not isinstance(v, (SV, Ref)) for v in d.values()):
                return a % d
        elif all(not isinstance(v, (SV, Ref)) for v in vals):
            return a % b
    return ctx.fresh(ty_of(a) if ty_of(a) in TEXT else "str", "fmt")


# ------------------------------------------------------------------ items

def getitem(ctx, obj, idx):
    if isinstance(idx, slice):
        if isinstance(obj, tuple):
            lo, hi = conc(idx.start), conc(idx.stop)
            if isinstance(lo, SV) or isinstance(hi, SV):
                raise Undecided("symbolic slice of tuple")
            return obj[lo:hi]
        if isinstance(obj, Ref):
            if obj.kind == "buf":
                return text_slice(ctx, ctx.st(obj)["v"], idx)   # note: a bytes value, not a new bytearray
            if obj.kind in ("list", "deque"):
                lo, hi = conc(idx.start), conc(idx.stop)
                if isinstance(lo, SV) or isinstance(hi, SV):
                    raise Undecided("symbolic slice of list")
                return ctx.alloc("list", init={"v": ctx.st(obj)["v"][lo:hi]})
        if isinstance(obj, Ref) and obj.kind == "wseq" and idx.step is None:
            return wseq_slice(ctx, obj, idx)
        if ty_of(obj) in TEXT:
            return text_slice(ctx, obj, idx)
        raise Undecided("slice of %r" % (obj,))
    if isinstance(obj, tuple):
        i = conc(idx)
        if isinstance(i, SV):
            raise Undecided("symbolic index into tuple")
        try:
            return obj[i]
        except IndexError:
            raise py_exc(IndexError, "tuple index out of range")
    if isinstance(obj, Ref):
        s = ctx.st(obj)
        if obj.kind in ("list", "deque"):
            i = conc(idx)
            if isinstance(i, SV):
                raise Undecided("symbolic index into concrete list")
            try:
                return s["v"][i]
            except IndexError:
                raise py_exc(IndexError, "list index out of range")
        if obj.kind == "dict":
            hk = dict_slot(ctx, s, idx)     # symbolic keys (on either side): case split on equality
            if hk is not None:
                return s["v"][hk][1]
            raise PyExc(ExcVal(KeyError, (idx,)))
        if obj.kind == "sdict":
            k = _key_term(s, idx)
            if not ctx.branch(z3.Select(s["dom"], k), "key-present"):
                raise PyExc(ExcVal(KeyError, (idx,)))
            return _val_from_term(s, z3.Select(s["map"], k))
        if obj.kind == "buf":
            return text_index(ctx, s["v"], idx)
        if obj.kind == "wseq":
            return wseq_get(ctx, obj, idx)
        if obj.kind == "ext":
            m = s["model"]
            if hasattr(m, "getitem"):
                return m.getitem(ctx, obj, idx)
    if ty_of(obj) in TEXT:
        return text_index(ctx, obj, idx)
    if obj is None:
        raise py_exc(TypeError, "'NoneType' object is not subscriptable")
    raise Undecided("subscript of %r" % (obj,))


def setitem(ctx, obj, idx, v):
    if isinstance(obj, Ref):
        s = ctx.st(obj)
        if obj.kind == "dict":
            hk = dict_slot(ctx, s, idx)
            s["v"] = dict(s["v"])
            if hk is not None:
                s["v"][hk] = (s["v"][hk][0], v)      # existing key object is kept (python keeps the first key)
            else:
                s["v"][dict_new_slot(idx)] = (idx, v)
            return
        if obj.kind == "sdict":
            _sdict_type(ctx, s, idx, v)
            k = _key_term(s, idx)
            s["n"] = z3.If(z3.Select(s["dom"], k), s["n"], s["n"] + 1)
            s["dom"] = z3.Store(s["dom"], k, True)
            s["map"] = z3.Store(s["map"], k, _val_term(s, v))
            return
        if obj.kind in ("list", "deque") and not isinstance(idx, slice):
            i = conc(idx)
            if isinstance(i, SV):
                raise Undecided("symbolic index store")
            s["v"] = list(s["v"])
            try:
                s["v"][i] = v
            except IndexError:
                raise py_exc(IndexError, "list assignment index out of range")
            return
        if obj.kind == "ext":
            m = s["model"]
            if hasattr(m, "setitem"):
                return m.setitem(ctx, obj, idx, v)
    raise Undecided("item assignment on %r" % (obj,))


def delitem(ctx, obj, idx):
    if isinstance(obj, Ref):
        s = ctx.st(obj)
        if obj.kind == "buf" and not isinstance(idx, slice) and conc(idx) == 0:
            if ctx.branch(z(text_len(s["v"]), "int") > 0, "buf-nonempty"):      # del b[0]
                s["v"] = text_slice(ctx, s["v"], slice(1, None, None))
                return
            raise py_exc(IndexError, "bytearray index out of range")
        if obj.kind == "buf" and isinstance(idx, slice):
            cur = s["v"]
            if idx.start is None and idx.stop is None:
                s["v"] = b""
                return
            if idx.start is None or conc(idx.start) == 0:
                # del b[:n]  ->  b = b[n:]
                s["v"] = text_slice(ctx, cur, slice(idx.stop, None, None))
                return
            if idx.stop is None:
                s["v"] = text_slice(ctx, cur, slice(None, idx.start, None))
                return
            a = text_slice(ctx, cur, slice(None, idx.start, None))
            # python: del b[i:j] with j<i deletes nothing
            b = text_slice(ctx, cur, slice(_smax(ctx, idx.start, idx.stop), None, None))
            s["v"] = E.binop(ctx, ast.Add(), a, b)
            return
        if obj.kind == "dict":
            hk = dict_slot(ctx, s, idx)
            if hk is None:
                raise PyExc(ExcVal(KeyError, (idx,)))
            s["v"] = dict(s["v"])
            del s["v"][hk]
            return
        if obj.kind == "sdict":
            k = _key_term(s, idx)
            if not ctx.branch(z3.Select(s["dom"], k), "key-present"):
                raise PyExc(ExcVal(KeyError, (idx,)))
            s["dom"] = z3.Store(s["dom"], k, False)
            s["n"] = s["n"] - 1
            return
        if obj.kind in ("list", "deque"):
            s["v"] = list(s["v"])
            if isinstance(idx, slice):
                del s["v"][conc(idx.start):conc(idx.stop)]
            else:
                del s["v"][conc(idx)]
            return
        if obj.kind == "ext":
            m = s["model"]
            if hasattr(m, "delitem"):
                return m.delitem(ctx, obj, idx)
    raise Undecided("del item on %r" % (obj,))


def _smax(ctx, a, b):
    a, b = conc(a), conc(b)
    if not isinstance(a, SV) and not isinstance(b, SV):
        return max(a, b)
    return mk(z3.If(z(a, "int") >= z(b, "int"), z(a, "int"), z(b, "int")), "int")


# ------------------------------------------------------------------ symbolic dict

def new_sdict(ctx, kty=None, vty=None):
    r = ctx.alloc("sdict", init={"kty": None, "vty": None, "dom": None, "map": None, "n": z3.IntVal(0)})
    if kty:
        _sdict_init(ctx, ctx.st(r), kty, vty)
    return r


def _sort_of_ty(ty):
    if ty == "int":
        return z3.IntSort()
    if ty == "real":
        return z3.RealSort()
    if ty == "bool":
        return z3.BoolSort()
    if ty in TEXT:
        return z3.StringSort()
    if ty.startswith("u:"):
        return E.usort(ty[2:])
    if ty.startswith("ref"):
        return z3.IntSort()
    raise Undecided("no sort for " + ty)


def _sdict_init(ctx, s, kty, vty):
    s["kty"], s["vty"] = kty, vty
    ks, vs = _sort_of_ty(kty), _sort_of_ty(vty)
    s["dom"] = z3.K(ks, z3.BoolVal(False))
    s["map"] = z3.K(ks, _default_of(vs))


def _default_of(sort):
    ctx_ = getattr(_default_of, "cache", None)
    if ctx_ is None:
        _default_of.cache = {}
    key = sort.name()
    if key not in _default_of.cache:
        _default_of.cache[key] = z3.Const("default!" + key, sort)
    return _default_of.cache[key]


def _sdict_type(ctx, s, k, v):
    if s["kty"] is None:
        _sdict_init(ctx, s, ty_of(k) if not isinstance(k, Ref) else "ref", ty_of(v) if not isinstance(v, Ref) else "ref")


def _key_term(s, k):
    if s["kty"] is None:
        raise Undecided("lookup in untyped empty symbolic dict")
    if isinstance(k, Ref):
        return z3.IntVal(k.oid)
    return z(k)


def _val_term(s, v):
    if isinstance(v, Ref):
        return z3.IntVal(v.oid)
    return z(v)


def _val_from_term(s, t):
    if s["vty"] == "ref":
        raise Undecided("ref-valued symbolic dict read")
    return mk(t, s["vty"])


def sdict_fresh(ctx, kty, vty, hint="d"):
    r = ctx.alloc("sdict", init={"kty": kty, "vty": vty, "dom": None, "map": None, "n": None})
    s = ctx.st(r)
    ks, vs = _sort_of_ty(kty), _sort_of_ty(vty)
    ctx.nfresh += 1
    s["dom"] = z3.Const("%s.dom!%d" % (hint, ctx.nfresh), z3.ArraySort(ks, z3.BoolSort()))
    s["map"] = z3.Const("%s.map!%d" % (hint, ctx.nfresh), z3.ArraySort(ks, vs))
    s["n"] = z3.Int("%s.n!%d" % (hint, ctx.nfresh))
    ctx.vars["%s.dom!%d" % (hint, ctx.nfresh)] = s["dom"]
    ctx.vars["%s.map!%d" % (hint, ctx.nfresh)] = s["map"]
    ctx.assume(s["n"] >= 0)
    return r


# ------------------------------------------------------------------ window sequences (array + bounds)

def wseq_fresh(ctx, shape, hint="q", kind2="deque"):
    """shape: tuple of component types; each element is a tuple (or scalar when len(shape)==1 and scalar=True)"""
    ctx.nfresh += 1
    arrs = []
    for i, ty in enumerate(shape):
        a = z3.Const("%s.a%d!%d" % (hint, i, ctx.nfresh), z3.ArraySort(z3.IntSort(), _sort_of_ty(_base_ty(ty))))
        arrs.append(a)
        ctx.vars[str(a)] = a
    lo = z3.Int("%s.lo!%d" % (hint, ctx.nfresh))
    hi = z3.Int("%s.hi!%d" % (hint, ctx.nfresh))
    ctx.vars[str(lo)] = lo
    ctx.vars[str(hi)] = hi
    ctx.assume(lo <= hi)
    return ctx.alloc("wseq", init={"arrs": arrs, "lo": lo, "hi": hi, "shape": tuple(shape), "kind2": kind2})


def _base_ty(ty):
    return ty[4:-1] if ty.startswith("opt[") else ty


def wseq_elem(ctx, s, i):
    """element at absolute index i (z3 Int) as a python tuple of values (options resolved lazily by the caller)"""
    out = []
    for a, ty in zip(s["arrs"], s["shape"]):
        out.append(mk(z3.Select(a, i), _base_ty(ty)))
    return tuple(out) if len(out) > 1 else out[0]


def wseq_store(ctx, s, i, v):
    vals = v if isinstance(v, tuple) else (v,)
    if len(vals) != len(s["shape"]):
        raise Undecided("window sequence element shape mismatch")
    def term(x, ty, a):
        if x is None:
            # python None in a typed slot: the distinguished constant none!<Sort> (e.g. the marker deed's dog)
            return z3.Const("none!" + a.sort().range().name(), a.sort().range())
        if isinstance(x, Ref) and x.kind == "buf" and _base_ty(ty) == "bytes":
            x = ctx.st(x)["v"]      # a bytearray stored in a bytes slot: by value (later mutation through the alias is not modelled: A-ITER)
        return z(x, _base_ty(ty) if _base_ty(ty) in ("real", "int") else None)
    s["arrs"] = [z3.Store(a, i, term(x, ty, a)) for a, x, ty in zip(s["arrs"], vals, s["shape"])]
    if s.get("on_store"):
        s["on_store"](ctx, i, vals)


def wseq_slice(ctx, r, sl):
    """seq[a:b] of a window sequence (a, b symbolic ints or None) as a NEW window over the same (immutable) SMT arrays;
    python clamping: negative bounds count from the end, everything is clamped to [0, len]"""
    s = ctx.st(r)
    n = s["hi"] - s["lo"]

    def bound(v, default):
        if v is None:
            return default
        t = z(v, "int")
        t = z3.If(t < 0, t + n, t)
        return z3.If(t < 0, 0, z3.If(t > n, n, t))
    a, b = bound(sl.start, z3.IntVal(0)), bound(sl.stop, n)
    b = z3.If(b < a, a, b)
    return ctx.alloc("wseq", init={"arrs": list(s["arrs"]), "lo": z3.simplify(s["lo"] + a), "hi": z3.simplify(s["lo"] + b),
                                   "shape": s["shape"], "kind2": "list"})


def wseq_reversed(ctx, r):
    """reversed(seq) / list(reversed(seq)): fresh arrays R over the same window with R[lo + k] == A[hi - 1 - k]"""
    s = ctx.st(r)
    ctx.nfresh += 1
    k = z3.Int("k!rev%d" % ctx.nfresh)
    arrs = []
    for j, a in enumerate(s["arrs"]):
        ra = z3.Const("rev.a%d!%d" % (j, ctx.nfresh), a.sort())
        ctx.vars[str(ra)] = ra
        ctx.assume(z3.ForAll([k], z3.Implies(z3.And(0 <= k, k < s["hi"] - s["lo"]),
                                              z3.Select(ra, s["lo"] + k) == z3.Select(a, s["hi"] - 1 - k))))
        arrs.append(ra)
    return ctx.alloc("wseq", init={"arrs": arrs, "lo": s["lo"], "hi": s["hi"], "shape": s["shape"], "kind2": "list"})


class SymRange:
    """range(n) with a symbolic n: the loop over it is cut by an invariant that may mention the hidden position _idx
    (the number of completed iterations; the loop variable of the arbitrary iteration is _idx before the increment)"""

    def __init__(self, n):
        self.n = n

    def for_loop(self, interp, st, fr, it, spec):
        n = self.n
        fr.locals["_idx"] = 0

        def test():
            return z(fr.locals["_idx"], "int") < n

        def pre():
            i = z(fr.locals["_idx"], "int")
            interp.assign(st.target, mk(i, "int"), fr)
            fr.locals["_idx"] = mk(i + 1, "int")
        spec.types.setdefault("_idx", "int")
        return interp.cut_loop(st, fr, spec, test=test, body=st.body, pre=pre, extra_havoc=("_idx",))


def wseq_get(ctx, r, idx):
    s = ctx.st(r)
    i = z(idx, "int")
    n = s["hi"] - s["lo"]
    if ctx.branch(z3.Or(i >= n, i < -n), "index-range"):
        raise py_exc(IndexError, "index out of range")
    return wseq_elem(ctx, s, z3.If(i < 0, s["hi"] + i, s["lo"] + i))


# ------------------------------------------------------------------ methods on refs

def ref_getattr(ctx, r, name):
    s = ctx.st(r)
    if r.kind == "ext":
        m = s["model"]
        a = getattr(m, "attr_" + name, None)
        if a is not None:
            return a(ctx, r)
        f = getattr(m, "m_" + name, None)
        if f is not None:
            return ModelFn(lambda c, args, kwargs, f=f, r=r: f(c, r, args, kwargs), "%s.%s" % (type(m).__name__, name))
        if hasattr(m, "getattr"):
            return m.getattr(ctx, r, name)
        raise Undecided("external model %s has no attribute %s" % (type(m).__name__, name))
    return BoundBuiltin(r, name)


def ref_setattr(ctx, r, name, v):
    s = ctx.st(r)
    if r.kind == "ext":
        m = s["model"]
        if hasattr(m, "setattr"):
            return m.setattr(ctx, r, name, v)
    raise Undecided("setattr %s on %r" % (name, r))


def value_getattr(ctx, v, name):
    if v is None:
        raise py_exc(AttributeError, "'NoneType' object has no attribute '%s'" % name)
    t = ty_of(v)
    if t.startswith("u:"):
        # an object known only by identity (uninterpreted sort): its attributes/methods are given by a sidecar model
        m = ctx.prog.usort_models.get(t[2:])
        if m is None:
            raise Undecided("no model for attributes of %s values" % t)
        return m.getattr(ctx, v, name)
    if t in TEXT:
        if name in TEXT_METHODS:
            if (t == "bytes" and name in ("encode", "format", "casefold")) or (t == "str" and name in ("decode", "hex")):
                raise py_exc(AttributeError, "'%s' object has no attribute '%s'" % (t, name))
            return BoundBuiltin(v, name)
        raise py_exc(AttributeError, "'%s' object has no attribute '%s'" % (t, name))
    if isinstance(v, tuple) and name in ("index", "count"):
        return BoundBuiltin(v, name)
    if t in ("int",) and name in ("to_bytes", "bit_length"):
        return BoundBuiltin(v, name)
    raise py_exc(AttributeError, "'%s' object has no attribute '%s'" % (t, name))


def exc_getattr(ctx, exc, name):
    if name == "args":
        return exc.args
    if name in exc.attrs:
        return exc.attrs[name]
    if name == "errno":
        if exc.cls is not None and E.class_issub(exc.cls, OSError) or (exc.cls is None and E.class_issub(exc.upper, OSError)):
            # CPython: OSError(errno, msg) sets .errno = args[0] when 2+ args; with 1 arg errno is None
            if len(exc.args) >= 2:
                return exc.args[0]
            return None
    if name == "value" and (exc.cls is StopIteration):
        return exc.args[0] if exc.args else None
    raise Undecided("exception attribute %s" % name)


def call_method(ctx, recv, name, args, kwargs):
    if isinstance(recv, Ref):
        s = ctx.st(recv)
        k = recv.kind
        if k in ("list", "deque"):
            return list_method(ctx, recv, s, name, args, kwargs)
        if k == "dict":
            return dict_method(ctx, recv, s, name, args, kwargs)
        if k == "sdict":
            return sdict_method(ctx, recv, s, name, args, kwargs)
        if k == "buf":
            return buf_method(ctx, recv, s, name, args, kwargs)
        if k == "wseq":
            return wseq_method(ctx, recv, s, name, args, kwargs)
        raise Undecided("method %s on %r" % (name, recv))
    if ty_of(recv) in TEXT:
        return text_method(ctx, recv, name, args, kwargs)
    if isinstance(recv, tuple):
        if name == "index":
            for i, x in enumerate(recv):
                if ctx.branch(values_equal(ctx, x, args[0]), "tuple-index"):
                    return i
            raise py_exc(ValueError, "tuple.index(x): x not in tuple")
    if ty_of(recv) == "int" and name == "to_bytes":
        h = ctx.prog.text_models.get("int.to_bytes")
        if h:
            return h(ctx, recv, args, kwargs)
    raise Undecided("method %s on %r" % (name, recv))


def list_method(ctx, r, s, name, args, kwargs):
    v = s["v"]
    if name == "append":
        s["v"] = list(v) + [args[0]]
        return None
    if name == "appendleft" and r.kind == "deque":
        s["v"] = [args[0]] + list(v)
        return None
    if name == "extend":
        items = concrete_iter(ctx, args[0], must=True)
        s["v"] = list(v) + items
        return None
    if name == "pop":
        if not v:
            raise py_exc(IndexError, "pop from empty list")
        i = conc(args[0]) if args else -1
        s["v"] = list(v)
        return s["v"].pop(i)
    if name == "popleft" and r.kind == "deque":
        if not v:
            raise py_exc(IndexError, "pop from an empty deque")
        s["v"] = list(v)
        return s["v"].pop(0)
    if name == "clear":
        s["v"] = []
        return None
    if name == "remove":
        for i, x in enumerate(v):
            if ctx.branch(values_equal(ctx, x, args[0]), "list-remove"):
                s["v"] = list(v[:i]) + list(v[i + 1:])
                return None
        raise py_exc(ValueError, "list.remove(x): x not in list")
    if name == "index":
        for i, x in enumerate(v):
            if ctx.branch(values_equal(ctx, x, args[0]), "list-index"):
                return i
        raise py_exc(ValueError, "x not in list")
    if name == "copy":
        return ctx.alloc(r.kind, init={"v": list(v)})
    if name == "insert":
        s["v"] = list(v)
        s["v"].insert(conc(args[0]), args[1])
        return None
    if name == "reverse":
        s["v"] = list(reversed(v))
        return None
    if name == "count":
        raise Undecided("list.count")
    raise Undecided("list method " + name)


def dict_method(ctx, r, s, name, args, kwargs):
    d = s["v"]
    if name == "get":
        hk = dict_slot(ctx, s, args[0])
        if hk is not None:
            return d[hk][1]
        return args[1] if len(args) > 1 else kwargs.get("default", None)
    if name == "items":
        return ctx.alloc("iter", init={"v": [(k, v) for k, v in d.values()]})
    if name == "values":
        return ctx.alloc("iter", init={"v": [v for _, v in d.values()]})
    if name == "keys":
        return ctx.alloc("iter", init={"v": [k for k, _ in d.values()]})
    if name == "pop":
        hk = dict_slot(ctx, s, args[0])
        if hk is not None:
            s["v"] = dict(d)
            return s["v"].pop(hk)[1]
        if len(args) > 1:
            return args[1]
        raise PyExc(ExcVal(KeyError, (args[0],)))
    if name == "clear":
        s["v"] = {}
        return None
    if name == "update":
        s["v"] = dict(d)
        if args:
            if isinstance(args[0], Ref) and args[0].kind == "dict":
                pairs = concrete_dict_items(ctx, args[0])
            else:      # iterable of (key, value) pairs
                pairs = [tuple(unpack(ctx, kv, 2)) for kv in concrete_iter(ctx, args[0], must=True)]
            for k, v in pairs:
                hk = dict_slot(ctx, s, k)
                s["v"][hk if hk is not None else dict_new_slot(k)] = (k, v)
        for k, v in kwargs.items():
            s["v"][k] = (k, v)
        return None
    if name == "setdefault":
        hk = dict_slot(ctx, s, args[0])
        if hk is None:
            hk = dict_new_slot(args[0])
            s["v"] = dict(d)
            s["v"][hk] = (args[0], args[1] if len(args) > 1 else None)
        return s["v"][hk][1]
    if name == "copy":
        return ctx.alloc("dict", init={"v": dict(d)})
    raise Undecided("dict method " + name)


def sdict_method(ctx, r, s, name, args, kwargs):
    if name == "get":
        if s["kty"] is None:
            return args[1] if len(args) > 1 else None
        k = _key_term(s, args[0])
        if ctx.branch(z3.Select(s["dom"], k), "key-present"):
            return _val_from_term(s, z3.Select(s["map"], k))
        return args[1] if len(args) > 1 else None
    if name == "clear":
        if s["kty"] is not None:
            _sdict_init(ctx, s, s["kty"], s["vty"])
        s["n"] = z3.IntVal(0)
        return None
    raise Undecided("symbolic dict method " + name)


def buf_method(ctx, r, s, name, args, kwargs):
    if name == "extend":
        add = as_text(ctx, args[0])
        if ty_of(add) != "bytes":
            if isinstance(add, Ref) and add.kind in ("list",):
                raise Undecided("bytearray.extend(list)")
            raise py_exc(TypeError, "can't extend bytearray with %s" % ty_of(add))
        s["v"] = E.binop(ctx, ast.Add(), s["v"], add)
        return None
    if name == "clear":
        s["v"] = b""
        return None
    if name == "append":
        raise Undecided("bytearray.append")
    if name in ("partition", "rpartition"):
        # bytearray.partition returns bytearrays (mutable, e.g. `del value[0]` afterwards)
        parts = text_method(ctx, s["v"], name, args, kwargs)
        return tuple(ctx.alloc("buf", init={"v": as_text(ctx, x)}) for x in parts)
    if name in TEXT_METHODS:
        return text_method(ctx, s["v"], name, args, kwargs)
    raise Undecided("bytearray method " + name)


def wseq_method(ctx, r, s, name, args, kwargs):
    if name == "reverse":
        rev = ctx.st(wseq_reversed(ctx, r))      # in place: the SAME list object now holds the reversed window
        s["arrs"] = rev["arrs"]
        return None
    if name == "append":
        wseq_store(ctx, s, s["hi"], args[0])
        s["hi"] = s["hi"] + 1
        return None
    if name == "clear":
        s["hi"] = s["lo"]
        return None
    if name == "extend":
        src = args[0]
        items = concrete_iter(ctx, src)
        if items is not None:
            for x in items:
                wseq_store(ctx, s, s["hi"], x)
                s["hi"] = s["hi"] + 1
            return None
        if isinstance(src, Ref) and src.kind == "wseq" and ctx.st(src)["shape"] == s["shape"]:
            # extend by a sequence of symbolic length: fresh arrays that agree with the old ones below hi and with the source above
            o = ctx.st(src)
            n = o["hi"] - o["lo"]
            ctx.nfresh += 1
            k = z3.Int("k!ext%d" % ctx.nfresh)
            new = []
            for j, (a, b) in enumerate(zip(s["arrs"], o["arrs"])):
                ra = z3.Const("ext.a%d!%d" % (j, ctx.nfresh), a.sort())
                ctx.vars[str(ra)] = ra
                ctx.assume(z3.ForAll([k], z3.Implies(z3.And(s["lo"] <= k, k < s["hi"]), z3.Select(ra, k) == z3.Select(a, k))))
                ctx.assume(z3.ForAll([k], z3.Implies(z3.And(s["hi"] <= k, k < s["hi"] + n), z3.Select(ra, k) == z3.Select(b, k - s["hi"] + o["lo"]))))
                new.append(ra)
            s["arrs"] = new
            s["hi"] = s["hi"] + n
            return None
        raise Undecided("window-sequence extend by %r" % (src,))
    if name == "appendleft" and s.get("kind2") == "deque":
        s["lo"] = s["lo"] - 1
        wseq_store(ctx, s, s["lo"], args[0])
        return None
    if name == "popleft":
        if not ctx.branch(s["hi"] > s["lo"], "nonempty"):
            raise py_exc(IndexError, "pop from an empty deque")
        e = wseq_elem(ctx, s, s["lo"])
        s["lo"] = s["lo"] + 1
        return e
    if name == "pop" and not args:
        if not ctx.branch(s["hi"] > s["lo"], "nonempty"):
            raise py_exc(IndexError, "pop from an empty deque")
        s["hi"] = s["hi"] - 1
        return wseq_elem(ctx, s, s["hi"])
    raise Undecided("window-sequence method " + name)


# ------------------------------------------------------------------ ref operators

def ref_binop(ctx, op, a, b):
    for x in (a, b):
        if isinstance(x, Ref) and x.kind == "ext" and hasattr(ctx.st(x)["model"], "binop"):
            return ctx.st(x)["model"].binop(ctx, op, a, b)       # sidecar model of an operator on a model object
    if isinstance(op, ast.Add):
        if isinstance(a, Ref) and a.kind == "list" and isinstance(b, Ref) and b.kind == "list":
            return ctx.alloc("list", init={"v": list(ctx.st(a)["v"]) + list(ctx.st(b)["v"])})
        if isinstance(a, Ref) and a.kind == "deque" and isinstance(b, Ref) and b.kind == "deque":
            return ctx.alloc("deque", init={"v": list(ctx.st(a)["v"]) + list(ctx.st(b)["v"])})      # a NEW deque object
        ta, tb = as_text(ctx, a), as_text(ctx, b)
        if ty_of(ta) == "bytes" and ty_of(tb) == "bytes":
            v = E.binop(ctx, op, ta, tb)
            if isinstance(a, Ref) and a.kind == "buf":
                return ctx.alloc("buf", init={"v": v})
            return v
    raise Undecided("binop %s on %r, %r" % (type(op).__name__, a, b))


def ref_iop(ctx, op, cur, val):
    if isinstance(op, ast.Add):
        if cur.kind == "buf":
            buf_method(ctx, cur, ctx.st(cur), "extend", [val], {})
            return cur
        if cur.kind == "list":
            list_method(ctx, cur, ctx.st(cur), "extend", [val], {})
            return cur
    return NotImplemented


# ------------------------------------------------------------------ loops over symbolic things

def symbolic_for(interp, st, fr, it, spec):
    ctx = interp.ctx
    if isinstance(it, Ref) and it.kind == "ext" and hasattr(ctx.st(it)["model"], "for_loop"):
        return ctx.st(it)["model"].for_loop(interp, st, fr, it, spec)
    if isinstance(it, Ref) and it.kind == "wseq":
        # `for x in <sequence of symbolic length>`: invariant cut with a hidden position `_idx` (absolute array index);
        # the invariant may mention _idx.  (Mutation of the sequence by the body is not modelled: A-ITER.)
        fr.locals["_idx"] = mk(ctx.st(it)["lo"], "int")

        def test():
            return z(fr.locals["_idx"], "int") < ctx.st(it)["hi"]

        def pre():
            i = z(fr.locals["_idx"], "int")
            interp.assign(st.target, wseq_elem(ctx, ctx.st(it), i), fr)
            fr.locals["_idx"] = mk(i + 1, "int")
        spec.types.setdefault("_idx", "int")
        fr.locals.setdefault("_idx", 0)
        return interp.cut_loop(st, fr, spec, test=test, body=st.body, pre=pre, extra_havoc=("_idx",))
    if isinstance(it, Ref) and it.kind == "srange":
        s = ctx.st(it)
        # for i in range(n): as a cut loop with hidden counter
        cnt = {"i": s["start"]}

        def test():
            return z(cnt["i"], "int") < z(s["stop"], "int")

        def pre():
            interp.assign(st.target, cnt["i"], fr)
        raise Undecided("symbolic range loop (use a while invariant)")
    raise Undecided("for loop over %r" % (it,))


def symbolic_listcomp(interp, e, fr, it):
    ctx = interp.ctx
    if isinstance(it, Ref) and it.kind == "ext" and hasattr(ctx.st(it)["model"], "listcomp"):
        return ctx.st(it)["model"].listcomp(interp, e, fr, it)
    h = getattr(ctx.prog, "listcomp_model", None)
    if h is not None:
        r = h(interp, e, fr, it)      # sidecar summary of a comprehension over a symbolic sequence (e.g. a per-character test)
        if r is not NotImplemented:
            return r
    g = e.generators[0]
    if isinstance(it, Ref) and it.kind == "wseq" and not g.ifs and isinstance(g.target, ast.Name) and isinstance(e.elt, ast.Name) \
            and e.elt.id == g.target.id:
        return _wseq_copy(ctx, it, "list")          # [x for x in seq] is a copy of seq
    raise Undecided("list comprehension over %r" % (it,))


def ext_yield_from(interp, fr, e, g):
    m = interp.ctx.st(g)["model"]
    if hasattr(m, "yield_from"):
        return m.yield_from(interp, fr, e, g)
    raise Undecided("yield from external %r" % (g,))


def ext_call(ctx, r, args, kwargs):
    m = ctx.st(r)["model"]
    if hasattr(m, "call"):
        return m.call(ctx, r, args, kwargs)
    raise Undecided("call of external %r" % (r,))


# ------------------------------------------------------------------ arithmetic helpers

def sym_pow(ctx, a, b):
    h = ctx.prog.text_models.get("pow")
    if h:
        return h(ctx, a, [b], {})
    raise Undecided("symbolic power")


def sym_bitop(ctx, op, a, b):
    h = ctx.prog.text_models.get("bitop")
    if h:
        return h(ctx, (op, a), [b], {})
    raise Undecided("symbolic bit operation")


# ------------------------------------------------------------------ foreign objects and builtin functions

CONST_TYPES = (int, float, str, bytes, bool, type(None))


def foreign_getattr(ctx, f, name):
    try:
        v = getattr(f.obj, name)
    except AttributeError:
        raise py_exc(AttributeError, "%s has no attribute %s" % (f.name, name))
    if isinstance(v, CONST_TYPES):
        return v
    if isinstance(v, tuple) and all(isinstance(x, CONST_TYPES) for x in v):
        return v
    import enum
    if isinstance(v, enum.IntEnum):
        return int(v)
    return Foreign(v, f.name + "." + name)


def isinstance_check(ctx, v, t):
    """python isinstance(v, t) -> bool (python) ; t: Foreign type | ClassInfo | tuple"""
    if isinstance(t, tuple):
        return any(isinstance_check(ctx, v, x) for x in t)
    tt = t.obj if isinstance(t, Foreign) else t
    if isinstance(v, Ref):
        if v.kind == "obj":
            return E.class_issub(v.cls, tt)
        if v.kind == "ext":
            m = ctx.st(v)["model"]
            if hasattr(m, "isinstance"):
                return m.isinstance(ctx, v, tt)
            return False
        km = {"list": list, "deque": __import__("collections").deque, "dict": dict, "sdict": dict, "buf": bytearray,
              "wseq": __import__("collections").deque}
        pt = km.get(v.kind)
        if v.kind == "wseq" and ctx.st(v).get("kind2") == "list":
            pt = list
        return isinstance(tt, type) and pt is not None and issubclass(pt, tt)
    if isinstance(v, ExcVal):
        if v.cls is None:
            raise Undecided("isinstance of symbolic exception")
        return E.class_issub(v.cls, tt)
    ty = ty_of(v)
    if ty.startswith("u:"):
        m = ctx.prog.usort_models.get(ty[2:])
        if m is not None and hasattr(m, "isinstance"):
            return m.isinstance(ctx, v, tt)
        raise Undecided("isinstance of a value known only by identity (%s)" % ty)
    if isinstance(tt, ClassInfo):
        return False
    pm = {"int": int, "real": float, "bool": bool, "str": str, "bytes": bytes, "none": type(None), "tuple": tuple}
    if ty in pm:
        return isinstance(tt, type) and issubclass(pm[ty], tt)
    if isinstance(v, (FuncVal, ModelFn)):
        return False
    raise Undecided("isinstance(%r, %r)" % (v, t))


def to_real(ctx, v):
    t = ty_of(v)
    if t == "real":
        return v
    if t == "int" or t == "bool":
        if isinstance(v, SV):
            return mk(z(v, "real"), "real")
        return float(v)
    if t == "none":
        raise py_exc(TypeError, "float() argument must be a string or a real number, not 'NoneType'")
    if t in TEXT and not isinstance(v, SV):
        try:
            return float(v)
        except ValueError as ex:
            raise py_exc(ValueError, *ex.args)
    h = ctx.prog.text_models.get("float")
    if h:
        return h(ctx, v, [], {})
    raise Undecided("float(%s)" % t)


def num_abs(ctx, v):
    if isinstance(v, SV):
        return mk(z3.If(v.t >= 0, v.t, -v.t), v.ty)
    if isinstance(v, (int, float)):
        return abs(v)
    raise py_exc(TypeError, "bad operand type for abs(): %s" % ty_of(v))


def num_minmax(ctx, which, vals):
    if any(ty_of(v) not in NUM for v in vals):
        raise Undecided("%s over non numbers" % which)
    if all(not isinstance(v, SV) for v in vals):
        import fractions
        fr = [fractions.Fraction(repr(v)) if isinstance(v, float) else fractions.Fraction(int(v)) for v in vals]
        i = fr.index(max(fr) if which == "max" else min(fr))
        return vals[i]
    k = "real" if any(ty_of(v) == "real" for v in vals) else "int"
    acc = z(vals[0], k)
    for v in vals[1:]:
        t = z(v, k)
        acc = z3.If(t > acc, t, acc) if which == "max" else z3.If(t < acc, t, acc)
    return mk(acc, k)


def call_foreign(interp, f, args, kwargs, fr, site):
    ctx = interp.ctx
    prog = ctx.prog
    model = prog.externals.get(f.name)
    if model is not None:
        return model(ctx, args, kwargs)
    o = f.obj
    import collections
    import builtins as pyb
    if isinstance(o, type) and issubclass(o, BaseException):
        return ExcVal(o, tuple(args))
    if o is pyb.len:
        if isinstance(args[0], Ref) and args[0].kind == "obj":
            return interp.call_value(interp.getattr(args[0], "__len__", fr), [], {}, fr, site)     # len(x) of a repo object: its __len__
        return length(ctx, args[0])
    if o is pyb.float:
        return to_real(ctx, args[0]) if args else 0.0
    if o is pyb.abs:
        return num_abs(ctx, args[0])
    if o is pyb.max or o is pyb.min:
        vals = args if len(args) > 1 else concrete_iter(ctx, args[0], must=True)
        return num_minmax(ctx, "max" if o is pyb.max else "min", list(vals))
    if o is pyb.bool:
        c = truth(ctx, args[0]) if args else False
        return c if isinstance(c, bool) else mk(c, "bool")
    if o is pyb.isinstance:
        return isinstance_check(ctx, args[0], args[1])
    if o is pyb.hasattr:
        try:
            interp.getattr(args[0], args[1], fr)
            return True
        except PyExc as pe:
            if interp.exc_isinstance(pe.exc, AttributeError):
                return False
            raise
    if o is pyb.getattr:
        try:
            return interp.getattr(args[0], args[1], fr)
        except PyExc as pe:
            if len(args) > 2 and interp.exc_isinstance(pe.exc, AttributeError):
                return args[2]
            raise
    if o is pyb.setattr:
        return interp.setattr(args[0], args[1], args[2], fr)
    if o is pyb.list:
        if not args:
            return ctx.alloc("list", init={"v": []})
        a0 = args[0]
        if isinstance(a0, Ref) and a0.kind == "ext" and hasattr(ctx.st(a0)["model"], "to_list"):
            return ctx.st(a0)["model"].to_list(ctx, a0)
        if isinstance(a0, Ref) and a0.kind == "wseq":
            return a0 if False else _wseq_copy(ctx, a0, "list")
        return ctx.alloc("list", init={"v": concrete_iter(ctx, a0, must=True)})
    if o is pyb.tuple:
        return tuple(concrete_iter(ctx, args[0], must=True)) if args else ()
    if o is collections.deque:
        if args and isinstance(args[0], Ref) and args[0].kind == "wseq":
            return _wseq_copy(ctx, args[0], "deque")
        return ctx.alloc("deque", init={"v": concrete_iter(ctx, args[0], must=True) if args else []})
    if o is pyb.dict:
        if not args and not kwargs:
            return prog.new_dict(ctx)
        if args and isinstance(args[0], Ref) and args[0].kind == "dict":
            d = dict(ctx.st(args[0])["v"])
        elif args:
            d = {}
            for kv in concrete_iter(ctx, args[0], must=True):
                k, v = unpack(ctx, kv, 2)
                d[hashable(k)] = (k, v)
        else:
            d = {}
        for k, v in kwargs.items():
            d[k] = (k, v)
        return ctx.alloc("dict", init={"v": d})
    if o is pyb.bytearray:
        if not args:
            return ctx.alloc("buf", init={"v": b""})
        a0 = as_text(ctx, args[0])
        if ty_of(a0) == "bytes":
            return ctx.alloc("buf", init={"v": a0})
        raise Undecided("bytearray(%s)" % ty_of(a0))
    if o is pyb.bytes:
        if not args:
            return b""
        a0 = as_text(ctx, args[0])
        if ty_of(a0) == "bytes":
            return a0
        raise Undecided("bytes(%s)" % ty_of(a0))
    if o is pyb.str:
        if not args:
            return ""
        a0 = args[0]
        if ty_of(a0) == "str":
            return a0
        if isinstance(a0, (int, float)) and not isinstance(a0, bool):
            return str(a0)
        return ctx.fresh("str", "str")
    if o is pyb.repr:
        return ctx.fresh("str", "repr")
    if o is pyb.range:
        cs = [conc(a) for a in args]
        if all(isinstance(c, int) for c in cs):
            return range(*cs)
        if len(args) == 1 and ty_of(args[0]) == "int":
            return ctx.alloc("ext", init={"model": SymRange(z(args[0], "int"))})
        raise Undecided("symbolic range with start/step")
    if o is pyb.enumerate:
        items = concrete_iter(ctx, args[0], must=True)
        start = args[1] if len(args) > 1 else kwargs.get("start", 0)
        return ctx.alloc("iter", init={"v": [(i + start, x) for i, x in enumerate(items)]})
    if o is pyb.zip:
        cols = [concrete_iter(ctx, a, must=True) for a in args]
        return ctx.alloc("iter", init={"v": [tuple(t) for t in zip(*cols)]})
    if o is pyb.reversed and isinstance(args[0], Ref) and args[0].kind == "wseq":
        return wseq_reversed(ctx, args[0])
    if o is pyb.reversed:
        return ctx.alloc("iter", init={"v": list(reversed(concrete_iter(ctx, args[0], must=True)))})
    if o is pyb.sorted and not kwargs:
        items = concrete_iter(ctx, args[0], must=True)
        if all(not isinstance(x, (SV, Ref)) for x in items):
            return ctx.alloc("list", init={"v": sorted(items)})
    if o is pyb.print:
        return None
    if o is pyb.type:
        if len(args) == 1:
            v = args[0]
            if isinstance(v, Ref) and v.kind == "obj":
                return v.cls
            pm = {"int": int, "real": float, "bool": bool, "str": str, "bytes": bytes, "none": type(None), "tuple": tuple}
            if ty_of(v) in pm:
                return Foreign(pm[ty_of(v)], "builtins." + pm[ty_of(v)].__name__)
            if isinstance(v, Ref):
                km = {"list": list, "deque": collections.deque, "dict": dict, "sdict": dict, "buf": bytearray}
                if v.kind in km:
                    return Foreign(km[v.kind], km[v.kind].__name__)
        raise Undecided("type() of %r" % (args,))
    if o is pyb.int:
        if not args:
            return 0
        a0 = args[0]
        t = ty_of(a0)
        if t in ("int", "bool") and len(args) == 1:
            return a0 if t == "int" else (int(a0) if isinstance(a0, bool) else mk(z(a0, "int"), "int"))
        if t == "real" and len(args) == 1:
            if isinstance(a0, float):
                return int(a0)
            # truncation toward zero
            tr = z3.If(a0.t >= 0, z3.ToInt(a0.t), -z3.ToInt(-a0.t))
            return mk(tr, "int")
        if t in TEXT or (isinstance(a0, Ref) and a0.kind == "buf"):
            a0 = as_text(ctx, a0)
            base = conc(args[1]) if len(args) > 1 else conc(kwargs.get("base", 10))
            if not isinstance(a0, SV):
                try:
                    return int(a0, base)
                except ValueError as ex:
                    raise py_exc(ValueError, *ex.args)
            h = prog.text_models.get("int")
            if h:
                return h(ctx, a0, [base], {})
        if t == "none":
            raise py_exc(TypeError, "int() argument must be a string, a bytes-like object or a real number, not 'NoneType'")
        raise Undecided("int(%s)" % t)
    if o is pyb.next or o is pyb.iter or o is pyb.id or o is pyb.hash:
        h = prog.externals.get("builtins." + o.__name__)
        if h:
            return h(ctx, args, kwargs)
        if o is pyb.next and isinstance(args[0], Ref) and args[0].kind == "ext":
            return interp.call_value(ref_getattr(ctx, args[0], "__next__"), [], {}, fr, site)
        if o is pyb.next and isinstance(args[0], SV) and args[0].ty.startswith("u:"):
            return interp.call_value(value_getattr(ctx, args[0], "__next__"), [], {}, fr, site)
        raise Undecided("builtin %s" % o.__name__)
    if (o is pyb.any or o is pyb.all) and isinstance(args[0], Ref) and args[0].kind == "ext" and \
            hasattr(ctx.st(args[0])["model"], "all" if o is pyb.all else "any"):
        return getattr(ctx.st(args[0])["model"], "all" if o is pyb.all else "any")(ctx, args[0])
    if o is pyb.any or o is pyb.all:
        items = concrete_iter(ctx, args[0], must=True)
        cs = [truth(ctx, x) for x in items]
        r = t_or(*cs) if o is pyb.any else t_and(*cs)
        return r if isinstance(r, bool) else mk(r, "bool")
    if o is pyb.callable:
        return isinstance(args[0], (FuncVal, ModelFn, ClassInfo, Foreign, BoundBuiltin))
    # pure foreign function on fully concrete arguments: run it (A-DET for the listed names only)
    if f.name in prog.pure_foreign and all(not isinstance(a, (SV, Ref)) for a in args) and all(not isinstance(a, (SV, Ref)) for a in kwargs.values()):
        try:
            r = o(*args, **kwargs)
        except Exception as ex:   # noqa
            raise PyExc(ExcVal(type(ex), ex.args))
        return r
    raise Undecided("no model for foreign callable %s" % f.name)


def _wseq_copy(ctx, r, kind2):
    s = ctx.st(r)
    return ctx.alloc("wseq", init={"arrs": list(s["arrs"]), "lo": s["lo"], "hi": s["hi"], "shape": s["shape"], "kind2": kind2})

"""pyvc.engine -- symbolic executor / verification-condition generator over the real hio AST.

Paths are enumerated by re-execution with a decision list (DFS).  Every obligation is one solver
query per path.  See DESIGN.md section 2 for the subset and the assumptions (A-REAL, A-DET, A-ATTR,
A-GIL, A-MEM, A-312).
"""
import ast
import time
import z3

from . import source
from .source import ClassInfo, Foreign, Module
from .values import (SV, Ref, ExcVal, FuncVal, ModelFn, BoundBuiltin, SuperProxy, Undecided,
                     z, conc, ty_of, realval, strval, b2s, NUM, TEXT)


class PathEnd(Exception):
    """analysis cut: infeasible path, loop back edge, assume(false). Bypasses python finally."""


class Suspend(Exception):
    """the generator under contract is suspended at a yield (not a python-level exit: finally blocks do not run)"""

    def __init__(self, value, node=None):
        self.value = value
        self.node = node


class Signal(Exception):
    """python-level control flow inside the interpreted program"""


class ReturnSig(Signal):
    def __init__(self, value):
        self.value = value


class BreakSig(Signal):
    pass


class ContinueSig(Signal):
    pass


class PyExc(Signal):
    def __init__(self, exc):
        self.exc = exc


class GenVal:
    """an un-started generator made from repo source (consumed via `yield from` inlining)"""

    def __init__(self, fv, frame):
        self.fv = fv
        self.frame = frame
        self.started = False


class Obl:
    __slots__ = ("name", "path", "status", "ms", "backend", "detail", "kind", "model", "top", "props")
    cur_props = None      # set by the builder around a clause that belongs to specific properties only

    def __init__(self, name, path, status, ms=0.0, backend="", detail="", kind="", model=None, top=False):
        self.props = Obl.cur_props
        self.name = name
        self.path = path
        self.status = status     # 'proved' | 'failed' | 'undecided'
        self.ms = ms
        self.backend = backend
        self.detail = detail
        self.kind = kind
        self.model = model
        self.top = top

    def as_dict(self):
        return dict(name=self.name, path=self.path, status=self.status, ms=round(self.ms, 2), backend=self.backend,
                    detail=self.detail, kind=self.kind, model=self.model, top=self.top, props=self.props)


class Frame:
    def __init__(self, fv, locs, mod, cls=None, yield_handler=None, spec=None):
        self.fv = fv
        self.locals = locs
        self.mod = mod
        self.cls = cls
        self.yield_handler = yield_handler
        self.spec = spec              # FuncSpec for the function under contract (loop invariants, call-site clauses)
        self.loop_ordinals = {}
        self.cur_exc = None
        self.qual = fv.qual if fv is not None else "<spec>"


class Ctx:
    """One path."""

    def __init__(self, prog, prefix):
        self.prog = prog
        self.solver = z3.Solver()
        self.solver.set("timeout", prog.timeout_ms)
        self.pc = []
        self.prefix = prefix
        self.trail = []
        self.heap = {}
        self.next_oid = 1
        self.ghost = {}
        self.obls = []
        self.nfresh = 0
        self.depth = 0
        self.snap = None
        self.notes = []
        self.interp = Interp(self)
        self.inlined = set()
        self.solver_ms = 0.0
        self.vars = {}            # name -> z3 const, for model printing

    # ---- fresh symbols
    def fresh(self, ty, hint="v"):
        self.nfresh += 1
        nm = "%s!%d" % (hint, self.nfresh)
        if ty in ("int", "nat"):
            t = z3.Int(nm)
            v = SV(t, "int")
            if ty == "nat":
                self.assume(t >= 0)
        elif ty == "real":
            t = z3.Real(nm)
            v = SV(t, "real")
        elif ty == "bool":
            t = z3.Bool(nm)
            v = SV(t, "bool")
        elif ty in ("str", "bytes"):
            t = z3.String(nm)
            v = SV(t, ty)
        elif ty.startswith("u:"):
            t = z3.Const(nm, usort(ty[2:]))
            v = SV(t, ty)
        else:
            raise Undecided("fresh of type %s" % ty)
        self.vars[nm] = t
        return v

    # ---- heap
    def alloc(self, kind, cls=None, init=None, tag=None):
        r = Ref(self.next_oid, kind, cls, tag)
        self.next_oid += 1
        self.heap[r.oid] = dict(init or {})
        return r

    def st(self, ref):
        return self.heap[ref.oid]

    def snapshot(self):
        return {k: dict(v) for k, v in self.heap.items()}

    # ---- path condition
    def assume(self, f):
        if isinstance(f, bool):
            if not f:
                raise PathEnd()
            return
        if isinstance(f, SV):
            f = f.t
        f = z3.simplify(f)
        if z3.is_true(f):
            return
        if z3.is_false(f):
            raise PathEnd()
        self.pc.append(f)
        self.solver.add(f)

    def _check(self, *extra):
        t0 = time.time()
        self.solver.push()
        try:
            for e in extra:
                self.solver.add(e)
            r = self.solver.check()
            m = self.solver.model() if r == z3.sat else None
        finally:
            self.solver.pop()
        self.solver_ms += (time.time() - t0) * 1000
        return r, m

    def feasible(self, f):
        # (feasibility stays with z3 even for cvc5-first contracts: cvc5 needs its whole time limit on satisfiable string queries)
        r, _ = self._check(f)
        return r != z3.unsat     # unknown counts as feasible (sound for proofs)

    def fork(self, n, label=""):
        i = len(self.trail)
        if i < len(self.prefix):
            c = self.prefix[i][0]
            opts = self.prefix[i][1]
        else:
            c = 0
            opts = list(range(n))
        self.trail.append((c, opts, label))
        return opts[c]

    def branch(self, cond, label=""):
        """python-bool outcome of a (possibly symbolic) condition; forks when both sides are feasible."""
        if isinstance(cond, SV):
            cond = cond.t
        if isinstance(cond, bool):
            return cond
        cond = z3.simplify(cond)
        if z3.is_true(cond):
            return True
        if z3.is_false(cond):
            return False
        i = len(self.trail)
        if i < len(self.prefix):
            c, opts, _ = self.prefix[i]
        else:
            opts = []
            if self.feasible(cond):
                opts.append(True)
            if self.feasible(z3.Not(cond)):
                opts.append(False)
            if not opts:
                raise PathEnd()
            c = 0
        self.trail.append((c, opts, label))
        v = opts[c]
        self.assume(cond if v else z3.Not(cond))
        return v

    def path_id(self):
        return "".join(_pchar(c, opts) for c, opts, _ in self.trail)

    # ---- obligations
    def prove(self, name, goal, kind="", detail="", top=False):
        if isinstance(goal, SV):
            goal = goal.t
        if isinstance(goal, bool):
            goal = z3.BoolVal(goal)
        goal = z3.simplify(goal)
        t0 = time.time()
        if z3.is_true(goal):
            self.obls.append(Obl(name, self.path_id(), "proved", 0.0, "simplify", detail, kind, top=top))
            return True
        r, m, backend = z3.unknown, None, "z3"
        if getattr(self.prog, "cvc5_first", False):
            r2 = self.prog.second_opinion(self.pc + [z3.Not(goal)])
            if r2 is not None and r2[1] != z3.unknown:
                backend, r, m = r2
        if r == z3.unknown:
            r, m = self._check(z3.Not(goal))
            backend = "z3"
        if r == z3.unknown and not getattr(self.prog, "cvc5_first", False):
            r2 = self.prog.second_opinion(self.pc + [z3.Not(goal)])
            if r2 is not None:
                backend, r, m = r2
        ms = (time.time() - t0) * 1000
        if r == z3.unsat:
            self.obls.append(Obl(name, self.path_id(), "proved", ms, backend, detail, kind, top=top))
            self.assume(goal)
            return True
        if r == z3.sat:
            self.obls.append(Obl(name, self.path_id(), "failed", ms, backend, detail, kind, model=self.model_dict(m), top=top))
            self.assume(goal)      # continue as if it held, so one failure does not cascade
            return False
        self.obls.append(Obl(name, self.path_id(), "undecided", ms, backend, detail + " [solver unknown]", kind, top=top))
        self.assume(goal)
        return None

    def model_dict(self, m):
        if m is None or not hasattr(m, "eval"):
            return m if isinstance(m, dict) else None
        out = {}
        for nm, t in self.vars.items():
            try:
                v = m.eval(t, model_completion=False)
                if v is not None and not z3.eq(v, t):
                    out[nm] = str(v)
            except z3.Z3Exception:
                pass
        for k, v in self.ghost.items():
            if isinstance(v, SV):
                try:
                    out["ghost:" + k] = str(m.eval(v.t, model_completion=True))
                except z3.Z3Exception:
                    pass
        return out

    def note(self, s):
        self.notes.append(s)


def _pchar(c, opts):
    v = opts[c]
    if v is True:
        return "T"
    if v is False:
        return "F"
    return str(v) if isinstance(v, int) and v < 10 else "(%s)" % v


_usorts = {}


def usort(name):
    if name not in _usorts:
        _usorts[name] = z3.DeclareSort(name)
    return _usorts[name]


_ufuncs = {}


def ufunc(name, *sorts):
    if name not in _ufuncs:
        _ufuncs[name] = z3.Function(name, *sorts)
    return _ufuncs[name]


def truthy_u(v):
    s = v.t.sort()
    return ufunc("truthy_" + s.name(), s, z3.BoolSort())(v.t)


# =====================================================================================
#  primitive operations
# =====================================================================================

def py_exc(cls, *args, **attrs):
    return PyExc(ExcVal(cls, args, attrs=attrs))


def truth(ctx, v):
    """-> python bool or z3 Bool"""
    if isinstance(v, SV):
        if v.ty == "bool":
            return v.t
        if v.ty == "int":
            return v.t != 0
        if v.ty == "real":
            return v.t != 0
        if v.ty in TEXT:
            return z3.Length(v.t) > 0
        if v.ty.startswith("u:"):
            return truthy_u(v)
        raise Undecided("truth of " + v.ty)
    if isinstance(v, Ref):
        from . import builtins as B
        return B.ref_truth(ctx, v)
    if isinstance(v, (ExcVal, FuncVal, ModelFn, ClassInfo, Foreign, BoundBuiltin, GenVal)):
        return True
    if isinstance(v, (bool, int, float, str, bytes, tuple, type(None), list, dict)):
        return bool(v)
    raise Undecided("truth of %r" % (v,))


def as_bool_term(c):
    if isinstance(c, bool):
        return z3.BoolVal(c)
    return c


def t_not(c):
    if isinstance(c, bool):
        return not c
    return z3.Not(c)


def t_and(*cs):
    out = []
    for c in cs:
        if isinstance(c, bool):
            if not c:
                return False
        else:
            out.append(c)
    if not out:
        return True
    return z3.And(*out) if len(out) > 1 else out[0]


def t_or(*cs):
    out = []
    for c in cs:
        if isinstance(c, bool):
            if c:
                return True
        else:
            out.append(c)
    if not out:
        return False
    return z3.Or(*out) if len(out) > 1 else out[0]


def mk(t, ty):
    return conc(SV(t, ty))


def values_equal(ctx, a, b):
    """python == as a python bool or z3 Bool"""
    if isinstance(a, Ref) or isinstance(b, Ref):
        if isinstance(a, Ref) and isinstance(b, Ref):
            if a.oid == b.oid:
                return True
            from . import builtins as B
            return B.ref_equal(ctx, a, b)
        if a is None or b is None:
            return False
        from . import builtins as B
        return B.ref_equal(ctx, a, b)
    if a is None or b is None:
        return a is None and b is None
    if isinstance(a, tuple) or isinstance(b, tuple):
        if not (isinstance(a, tuple) and isinstance(b, tuple)):
            return False
        if len(a) != len(b):
            return False
        return t_and(*[values_equal(ctx, x, y) for x, y in zip(a, b)])
    ta, tb = ty_of(a), ty_of(b)
    if not isinstance(a, SV) and not isinstance(b, SV):
        if isinstance(a, (ClassInfo, Foreign, FuncVal, ModelFn, ExcVal)) or isinstance(b, (ClassInfo, Foreign, FuncVal, ModelFn, ExcVal)):
            return a is b or (isinstance(a, Foreign) and a == b)
        return a == b
    if ta in NUM and tb in NUM:
        if ta == "bool" and tb == "bool":
            return z(a) == z(b)
        k = "real" if "real" in (ta, tb) else "int"
        return z(a, k) == z(b, k)
    if ta in TEXT and tb in TEXT:
        if ta != tb:
            return False      # bytes never equal str
        return z(a) == z(b)
    if ta.startswith("u:") and ta == tb:
        return a.t == b.t
    if ta.startswith("u:") or tb.startswith("u:"):
        raise Undecided("compare %s with %s" % (ta, tb))
    return False


def compare(ctx, op, a, b):
    if isinstance(op, ast.Eq):
        return values_equal(ctx, a, b)
    if isinstance(op, ast.NotEq):
        return t_not(values_equal(ctx, a, b))
    if isinstance(op, ast.Is):
        return is_same(ctx, a, b)
    if isinstance(op, ast.IsNot):
        return t_not(is_same(ctx, a, b))
    if isinstance(op, (ast.In, ast.NotIn)):
        from . import builtins as B
        r = B.contains(ctx, b, a)
        return r if isinstance(op, ast.In) else t_not(r)
    ta, tb = ty_of(a), ty_of(b)
    if ta in NUM and tb in NUM:
        if not isinstance(a, SV) and not isinstance(b, SV):
            return {ast.Lt: a < b, ast.LtE: a <= b, ast.Gt: a > b, ast.GtE: a >= b}[type(op)]
        k = "real" if "real" in (ta, tb) else "int"
        x, y = z(a, k), z(b, k)
        if isinstance(op, ast.Lt):
            return x < y
        if isinstance(op, ast.LtE):
            return x <= y
        if isinstance(op, ast.Gt):
            return x > y
        if isinstance(op, ast.GtE):
            return x >= y
    if ta == "none" or tb == "none":
        raise py_exc(TypeError, "'%s' not supported between instances of %s and %s" % (type(op).__name__, ta, tb))
    if ta in TEXT and tb in TEXT and not isinstance(a, SV) and not isinstance(b, SV):
        return {ast.Lt: a < b, ast.LtE: a <= b, ast.Gt: a > b, ast.GtE: a >= b}[type(op)]
    if isinstance(a, tuple) and isinstance(b, tuple) and all(not isinstance(x, SV) for x in a + b):
        return {ast.Lt: a < b, ast.LtE: a <= b, ast.Gt: a > b, ast.GtE: a >= b}[type(op)]
    raise Undecided("ordering compare of %s and %s" % (ta, tb))


def is_same(ctx, a, b):
    if a is None or b is None:
        return a is None and b is None
    if isinstance(a, Ref) and isinstance(b, Ref):
        return a.oid == b.oid
    if isinstance(a, Ref) or isinstance(b, Ref):
        return False
    if isinstance(a, SV) or isinstance(b, SV):
        ta, tb = ty_of(a), ty_of(b)
        if ta == tb and (ta == "bool" or ta.startswith("u:")):
            return z(a) == z(b)
        if {ta, tb} <= {"bool"}:
            return z(a) == z(b)
        if ta != tb:
            if ta in NUM and tb in NUM and ("bool" in (ta, tb)):
                return False
        raise Undecided("`is` on symbolic %s / %s" % (ta, tb))
    if isinstance(a, (bool, int, str, bytes, float, tuple)) and isinstance(b, (bool, int, str, bytes, float, tuple)):
        if isinstance(a, bool) or isinstance(b, bool):
            return a is b
        if isinstance(a, tuple) and isinstance(b, tuple):
            return len(a) == len(b) and all(is_same(ctx, x, y) is True for x, y in zip(a, b))
        return type(a) is type(b) and a == b
    if isinstance(a, Foreign) and isinstance(b, Foreign):
        return a == b
    return a is b


def pyfloordiv(x, y):
    return z3.If(y > 0, x / y, (-x) / (-y))


def binop(ctx, op, a, b):
    from . import builtins as B
    ta, tb = ty_of(a), ty_of(b)
    if isinstance(a, Ref) or isinstance(b, Ref):
        return B.ref_binop(ctx, op, a, b)
    if ta in NUM and tb in NUM:
        if not isinstance(a, SV) and not isinstance(b, SV):
            try:
                if isinstance(a, float) or isinstance(b, float) or isinstance(op, ast.Div):
                    # keep exact rationals under A-REAL
                    import fractions
                    fa, fb = fractions.Fraction(repr(a)) if isinstance(a, float) else fractions.Fraction(a), \
                        fractions.Fraction(repr(b)) if isinstance(b, float) else fractions.Fraction(b)
                    if isinstance(op, ast.Add):
                        r = fa + fb
                    elif isinstance(op, ast.Sub):
                        r = fa - fb
                    elif isinstance(op, ast.Mult):
                        r = fa * fb
                    elif isinstance(op, ast.Div):
                        r = fa / fb
                    else:
                        r = None
                    if r is not None:
                        return mk(z3.RealVal(str(r)), "real")
                return _concrete_binop(op, a, b)
            except ZeroDivisionError:
                raise py_exc(ZeroDivisionError, "division by zero")
        k = "real" if ("real" in (ta, tb) or isinstance(op, ast.Div)) else "int"
        x, y = z(a, k), z(b, k)
        if isinstance(op, ast.Add):
            return mk(x + y, k)
        if isinstance(op, ast.Sub):
            return mk(x - y, k)
        if isinstance(op, ast.Mult):
            return mk(x * y, k)
        if isinstance(op, ast.Div):
            if ctx.branch(y == 0, "div0"):
                raise py_exc(ZeroDivisionError, "division by zero")
            return mk(x / y, "real")
        if isinstance(op, (ast.FloorDiv, ast.Mod)) and k == "int":
            if ctx.branch(y == 0, "div0"):
                raise py_exc(ZeroDivisionError, "integer division or modulo by zero")
            yc = conc(SV(y, "int"))
            if isinstance(yc, int) and yc > 0:
                q = x / y
            else:
                q = pyfloordiv(x, y)
            if isinstance(op, ast.FloorDiv):
                return mk(q, "int")
            return mk(x - y * q, "int")
        if isinstance(op, ast.Pow) and k == "int":
            bc = conc(b) if isinstance(b, SV) else b
            if isinstance(bc, int) and 0 <= bc <= 8:
                r = z3.IntVal(1)
                for _ in range(bc):
                    r = r * x
                return mk(r, "int")
            return B.sym_pow(ctx, a, b)
        if isinstance(op, (ast.LShift, ast.RShift, ast.BitAnd, ast.BitOr)) and k == "int":
            return B.sym_bitop(ctx, op, a, b)
        raise Undecided("binop %s on %s,%s" % (type(op).__name__, ta, tb))
    if ta in TEXT and tb in TEXT:
        if isinstance(op, ast.Add):
            if ta != tb:
                raise py_exc(TypeError, "can't concat %s to %s" % (tb, ta))
            if not isinstance(a, SV) and not isinstance(b, SV):
                return a + b
            return mk(z3.Concat(z(a), z(b)), ta)
        if isinstance(op, ast.Mod):
            return B.text_format(ctx, a, b)
    if ta in TEXT and isinstance(op, ast.Mod):
        return B.text_format(ctx, a, b)
    if ta in TEXT and tb in ("int",) and isinstance(op, ast.Mult) and not isinstance(a, SV) and not isinstance(b, SV):
        return a * b
    if isinstance(a, tuple) and isinstance(b, tuple) and isinstance(op, ast.Add):
        return a + b
    if (ta == "none" or tb == "none") or (ta in TEXT) != (tb in TEXT):
        raise py_exc(TypeError, "unsupported operand type(s) for %s: %s and %s" % (type(op).__name__, ta, tb))
    raise Undecided("binop %s on %s,%s" % (type(op).__name__, ta, tb))


def _concrete_binop(op, a, b):
    import operator
    table = {ast.Add: operator.add, ast.Sub: operator.sub, ast.Mult: operator.mul, ast.FloorDiv: operator.floordiv,
             ast.Mod: operator.mod, ast.Pow: operator.pow, ast.LShift: operator.lshift, ast.RShift: operator.rshift,
             ast.BitAnd: operator.and_, ast.BitOr: operator.or_, ast.BitXor: operator.xor}
    return table[type(op)](a, b)


# =====================================================================================
#  the interpreter
# =====================================================================================

class Interp:
    def __init__(self, ctx):
        self.ctx = ctx

    # ------------------------------------------------------------------ statements
    def exec_block(self, stmts, fr):
        for st in stmts:
            self.exec_stmt(st, fr)

    def exec_stmt(self, st, fr):
        m = getattr(self, "s_" + type(st).__name__, None)
        if m is None:
            raise Undecided("statement %s (line %d)" % (type(st).__name__, st.lineno))
        return m(st, fr)

    def s_Pass(self, st, fr):
        pass

    def s_Expr(self, st, fr):
        if isinstance(st.value, ast.Constant):
            return
        self.eval(st.value, fr)

    def s_Return(self, st, fr):
        raise ReturnSig(self.eval(st.value, fr) if st.value is not None else None)

    def s_Break(self, st, fr):
        raise BreakSig()

    def s_Continue(self, st, fr):
        raise ContinueSig()

    def s_Global(self, st, fr):
        raise Undecided("global statement")

    def s_Assert(self, st, fr):
        c = truth(self.ctx, self.eval(st.test, fr))
        if not self.ctx.branch(c, "assert"):
            raise py_exc(AssertionError)

    def s_Assign(self, st, fr):
        v = self.eval(st.value, fr)
        for t in st.targets:
            self.assign(t, v, fr)

    def s_AnnAssign(self, st, fr):
        if st.value is not None:
            self.assign(st.target, self.eval(st.value, fr), fr)

    def s_AugAssign(self, st, fr):
        t = st.target
        if isinstance(t, ast.Name):
            cur = self.load_name(t.id, fr)
            self.assign(t, self.aug(st.op, cur, self.eval(st.value, fr)), fr)
        elif isinstance(t, ast.Attribute):
            obj = self.eval(t.value, fr)
            cur = self.getattr(obj, t.attr, fr)
            self.setattr(obj, t.attr, self.aug(st.op, cur, self.eval(st.value, fr)), fr)
        elif isinstance(t, ast.Subscript):
            from . import builtins as B
            obj = self.eval(t.value, fr)
            idx = self.eval_index(t.slice, fr)
            cur = B.getitem(self.ctx, obj, idx)
            B.setitem(self.ctx, obj, idx, self.aug(st.op, cur, self.eval(st.value, fr)))
        else:
            raise Undecided("augassign target")

    def aug(self, op, cur, val):
        from . import builtins as B
        if isinstance(cur, Ref):
            r = B.ref_iop(self.ctx, op, cur, val)
            if r is not NotImplemented:
                return r
        return binop(self.ctx, op, cur, val)

    def s_Delete(self, st, fr):
        from . import builtins as B
        for t in st.targets:
            if isinstance(t, ast.Subscript):
                obj = self.eval(t.value, fr)
                idx = self.eval_index(t.slice, fr)
                B.delitem(self.ctx, obj, idx)
            elif isinstance(t, ast.Name):
                fr.locals.pop(t.id, None)
            elif isinstance(t, ast.Attribute):
                obj = self.eval(t.value, fr)
                if isinstance(obj, Ref) and obj.kind == "obj":
                    self.ctx.st(obj).pop(t.attr, None)
                else:
                    raise Undecided("del attribute")
            else:
                raise Undecided("del target")

    def s_If(self, st, fr):
        c = truth(self.ctx, self.eval(st.test, fr))
        if self.ctx.branch(c, "if@%d" % st.lineno):
            self.exec_block(st.body, fr)
        else:
            self.exec_block(st.orelse, fr)

    def s_Raise(self, st, fr):
        if st.exc is None:
            if fr.cur_exc is None:
                raise py_exc(RuntimeError, "No active exception to reraise")
            raise PyExc(fr.cur_exc)
        v = self.eval(st.exc, fr)
        if isinstance(v, ExcVal):
            raise PyExc(v)
        if isinstance(v, (ClassInfo, Foreign)):
            raise PyExc(self.make_exc(v, (), {}))
        raise Undecided("raise of %r" % (v,))

    def s_FunctionDef(self, st, fr):
        fr.locals[st.name] = FuncVal(fr.mod, st, cls=None, closure=fr, qual=(fr.qual + ".<locals>." + st.name))

    def s_Try(self, st, fr):
        ctx = self.ctx
        try:
            try:
                self.exec_block(st.body, fr)
            except PyExc as pe:
                exc = pe.exc
                for h in st.handlers:
                    if self.exc_matches(exc, h.type, fr):
                        saved = fr.cur_exc
                        fr.cur_exc = exc
                        if h.name:
                            fr.locals[h.name] = exc
                        try:
                            self.exec_block(h.body, fr)
                        finally:
                            fr.cur_exc = saved
                        break
                else:
                    raise
            else:
                self.exec_block(st.orelse, fr)
        except Signal:
            # python-level exit (return/break/continue/exception): run finally, then continue the exit,
            # unless finally itself exits differently
            if st.finalbody:
                self.exec_block(st.finalbody, fr)
            raise
        else:
            if st.finalbody:
                self.exec_block(st.finalbody, fr)

    def exc_matches(self, exc, tnode, fr):
        if tnode is None:
            return True
        t = self.eval(tnode, fr)
        ts = t if isinstance(t, tuple) else (t,)
        for h in ts:
            r = self.exc_isinstance(exc, h)
            if r:
                return True
        return False

    def exc_isinstance(self, exc, h):
        """is the raised exception an instance of handler class h (ClassInfo | Foreign class)."""
        hc = h.obj if isinstance(h, Foreign) else h
        if exc.cls is not None:
            return class_issub(exc.cls, hc)
        # symbolic class: unknown subclass of exc.upper, known not to be in exc.excluded
        if class_issub(exc.upper, hc):
            return True
        if class_issub(hc, exc.upper):
            for x in exc.excluded:
                if class_issub(hc, x):
                    return False
            i = self.ctx.fork(2, "exc-is-%s" % getattr(hc, "__name__", getattr(hc, "name", "?")))
            if i == 0:
                exc.upper = hc
                return True
            exc.excluded.append(hc)
            return False
        return False

    def s_While(self, st, fr):
        spec = self.loop_spec(st, fr)
        if spec is None and st.body and isinstance(st.body[-1], ast.Break) and not st.orelse and not _has_continue(st.body):
            # `while c: ...; break` runs its body at most once: it is an `if`
            c = truth(self.ctx, self.eval(st.test, fr))
            if self.ctx.branch(c, "while-once@%d" % st.lineno):
                try:
                    self.exec_block(st.body, fr)
                except BreakSig:
                    pass
            return
        if spec is None:
            # no invariant: only loops that terminate concretely can be executed
            n = 0
            while True:
                c = truth(self.ctx, self.eval(st.test, fr))
                if isinstance(c, bool):
                    go = c
                else:
                    cs = z3.simplify(c)
                    if z3.is_true(cs):
                        go = True
                    elif z3.is_false(cs):
                        go = False
                    elif not self.ctx.feasible(z3.Not(cs)):
                        go = True             # the test is decided by the path condition (e.g. a stored key assumed non-empty)
                    elif not self.ctx.feasible(cs):
                        go = False
                    else:
                        raise Undecided("while loop at line %d of %s needs an invariant" % (st.lineno, fr.qual))
                if not go:
                    self.exec_block(st.orelse, fr)
                    return
                n += 1
                if n > 64:
                    raise Undecided("concrete while loop exceeds 64 iterations (line %d)" % st.lineno)
                try:
                    self.exec_block(st.body, fr)
                except BreakSig:
                    return
                except ContinueSig:
                    continue
        else:
            self.cut_loop(st, fr, spec, test=lambda: truth(self.ctx, self.eval(st.test, fr)), body=st.body, pre=None)

    def loop_spec(self, st, fr):
        if fr.spec is None:
            return None
        return fr.spec.loop_for(st, fr)

    def cut_loop(self, st, fr, spec, test, body, pre, extra_havoc=()):
        """Invariant cut: assert inv; havoc; assume inv; then either leave or run one arbitrary iteration."""
        ctx = self.ctx
        spec.extra_havoc = tuple(extra_havoc)
        cn = getattr(ctx, "cname", None)
        base = "%s/loop#%d" % (fr.qual, spec.ordinal) if (cn is None or cn == fr.qual) else "%s/%s/loop#%d" % (cn, fr.qual if not cn.startswith(fr.qual) else "", spec.ordinal)
        base = base.replace("//", "/")
        spec.check(self, fr, base + "/inv-entry", kind="loop-entry")
        spec.havoc(self, fr, st)
        spec.assume(self, fr)
        if getattr(spec, "head", None):
            spec.head(ctx, fr)         # sidecar hook: capture ghost values at the head of the arbitrary iteration
        c = test()
        if ctx.branch(c, "loop@%d" % st.lineno):
            if pre:
                pre()
            try:
                self.exec_block(body, fr)
            except ContinueSig:
                pass
            except BreakSig:
                return
            if getattr(spec, "body_ensures", None):
                spec.check_body(self, fr, base + "/body-ensures")
            spec.check(self, fr, base + "/inv-preserved", kind="loop-preserved")
            raise PathEnd()
        else:
            self.exec_block(getattr(st, "orelse", []), fr)

    def s_For(self, st, fr):
        from . import builtins as B
        it = self.eval(st.iter, fr)
        items = B.concrete_iter(self.ctx, it)
        if items is None:
            spec = self.loop_spec(st, fr)
            if spec is None:
                raise Undecided("for loop over symbolic iterable at line %d of %s needs an invariant" % (st.lineno, fr.qual))
            return B.symbolic_for(self, st, fr, it, spec)
        for x in items:
            self.assign(st.target, x, fr)
            try:
                self.exec_block(st.body, fr)
            except BreakSig:
                return
            except ContinueSig:
                continue
        self.exec_block(st.orelse, fr)

    def s_With(self, st, fr):
        """with m1 as x, m2 ...: body -- __enter__ results bound, body run, __exit__(None, None, None) on normal exit, return, break
        or continue; on an exception __exit__(type, value, None) is called and its result is NOT allowed to be truthy (a suppressing
        context manager is outside the subset: Undecided).  Only context managers that are model objects (ext) or interpreted
        classes are supported."""
        entered = []
        for item in st.items:
            mgr = self.eval(item.context_expr, fr)
            if not isinstance(mgr, Ref) or mgr.kind not in ("ext", "obj"):
                raise Undecided("with statement over %r" % (mgr,))
            val = self.call_value(self.getattr(mgr, "__enter__", fr), [], {}, fr, st)
            entered.append(mgr)
            if item.optional_vars is not None:
                self.assign(item.optional_vars, val, fr)

        def leave(exc=None):
            for mgr in reversed(entered):
                a = [None, None, None] if exc is None else [getattr(exc.exc, "cls", None), exc.exc, None]
                r = self.call_value(self.getattr(mgr, "__exit__", fr), a, {}, fr, st)
                if exc is not None and r not in (None, False):
                    raise Undecided("context manager may suppress an exception")
        try:
            self.exec_block(st.body, fr)
        except PyExc as pe:
            leave(pe)
            raise
        except (ReturnSig, BreakSig, ContinueSig):
            leave()
            raise
        leave()

    # ------------------------------------------------------------------ assignment
    def assign(self, target, v, fr):
        from . import builtins as B
        if isinstance(target, ast.Name):
            fr.locals[target.id] = v
        elif isinstance(target, ast.Attribute):
            obj = self.eval(target.value, fr)
            self.setattr(obj, target.attr, v, fr)
        elif isinstance(target, (ast.Tuple, ast.List)):
            vals = B.unpack(self.ctx, v, len(target.elts))
            for t, x in zip(target.elts, vals):
                self.assign(t, x, fr)
        elif isinstance(target, ast.Subscript):
            obj = self.eval(target.value, fr)
            idx = self.eval_index(target.slice, fr)
            B.setitem(self.ctx, obj, idx, v)
        else:
            raise Undecided("assign target %s" % type(target).__name__)

    # ------------------------------------------------------------------ attributes
    def getattr(self, obj, name, fr=None):
        from . import builtins as B
        ctx = self.ctx
        if isinstance(obj, Ref):
            if obj.kind == "obj":
                stt = ctx.st(obj)
                ov = stt.get("__virtual__")
                if ov and name in ov:
                    return ov[name]
                cls = obj.cls
                # data descriptors (properties) first
                for c in cls.mro():
                    if isinstance(c, ClassInfo):
                        if name in c.getters:
                            return self.call_function(FuncVal(c.mod, c.getters[name], cls=c, bound=obj, qual=c.qual + "." + name + "@get"), [], {})
                if name in stt:
                    return stt[name]
                for c in cls.mro():
                    if isinstance(c, ClassInfo):
                        if name in c.methods:
                            kind = c.kinds[name]
                            fv = FuncVal(c.mod, c.methods[name], cls=c, bound=(obj if kind == "method" else (cls if kind == "class" else None)),
                                         qual=c.qual + "." + name)
                            return fv
                        if name in c.attrs:
                            return self.eval_class_attr(c, name)
                    else:
                        co = c.obj if isinstance(c, Foreign) else c
                        if hasattr(co, name) and name not in ("__init__",):
                            raise Undecided("attribute %s inherited from foreign base %r" % (name, c))
                if name == "__class__":
                    return cls
                raise py_exc(AttributeError, "%s object has no attribute %s" % (cls.name, name))
            return B.ref_getattr(ctx, obj, name)
        if isinstance(obj, SuperProxy):
            mro = obj.obj.cls.mro() if isinstance(obj.obj, Ref) else obj.cls.mro()
            i = mro.index(obj.cls)
            for c in mro[i + 1:]:
                if isinstance(c, ClassInfo):
                    if name in c.methods:
                        return FuncVal(c.mod, c.methods[name], cls=c, bound=obj.obj, qual=c.qual + "." + name)
                    if name in c.getters:
                        return self.call_function(FuncVal(c.mod, c.getters[name], cls=c, bound=obj.obj, qual=c.qual + "." + name + "@get"), [], {})
                else:
                    co = c.obj if isinstance(c, Foreign) else c
                    if name == "__init__":
                        return ModelFn(lambda ctx, a, k: None, "object.__init__")
                    if hasattr(co, name):
                        raise Undecided("super().%s resolves to foreign %r" % (name, c))
            raise py_exc(AttributeError, "super object has no attribute " + name)
        if isinstance(obj, Module):
            r = source.resolve_global(obj, name)
            if r is None:
                raise py_exc(AttributeError, "module %s has no attribute %s" % (obj.name, name))
            return self.wrap_global(r)
        if isinstance(obj, Foreign):
            return B.foreign_getattr(ctx, obj, name)
        if isinstance(obj, ClassInfo):
            for c in obj.mro():
                if isinstance(c, ClassInfo):
                    if name in c.attrs:
                        return self.eval_class_attr(c, name)
                    if name in c.methods:
                        kind = c.kinds[name]
                        return FuncVal(c.mod, c.methods[name], cls=c, bound=(obj if kind == "class" else None), qual=c.qual + "." + name)
            if name == "__name__":
                return obj.name
            raise py_exc(AttributeError, "class %s has no attribute %s" % (obj.name, name))
        if isinstance(obj, ExcVal):
            return B.exc_getattr(ctx, obj, name)
        if isinstance(obj, FuncVal):
            if name == "__func__" and obj.bound is not None:
                return FuncVal(obj.mod, obj.node, obj.cls, None, obj.closure, obj.qual)
            raise Undecided("attribute %s of function" % name)
        if isinstance(obj, (SV, str, bytes, int, float, tuple)) or obj is None:
            return B.value_getattr(ctx, obj, name)
        raise Undecided("getattr %r . %s" % (obj, name))

    def eval_class_attr(self, c, name):
        fr = Frame(None, {}, c.mod, c)
        fr.qual = c.qual
        # class bodies may reference earlier class attrs
        fr.locals = _ClassScope(self, c)
        return self.eval(c.attrs[name], fr)

    def setattr(self, obj, name, v, fr=None):
        from . import builtins as B
        if isinstance(obj, Ref) and obj.kind == "obj":
            for c in obj.cls.mro():
                if isinstance(c, ClassInfo):
                    if name in c.setters:
                        self.call_function(FuncVal(c.mod, c.setters[name], cls=c, bound=obj, qual=c.qual + "." + name + "@set"), [v], {})
                        return
                    if name in c.getters:
                        raise py_exc(AttributeError, "property %s of %s has no setter" % (name, c.name))
            self.ctx.st(obj)[name] = v
            return
        if isinstance(obj, Ref):
            return B.ref_setattr(self.ctx, obj, name, v)
        if isinstance(obj, SV) and obj.ty.startswith("u:"):
            m = self.ctx.prog.usort_models.get(obj.ty[2:])
            if m is None:
                raise Undecided("no model for attributes of %s values" % obj.ty)
            return m.setattr(self.ctx, obj, name, v)
        if isinstance(obj, FuncVal) and obj.bound is not None:
            raise py_exc(AttributeError, "'method' object has no attribute '%s'" % name)
        raise Undecided("setattr on %r" % (obj,))

    # ------------------------------------------------------------------ names
    def load_name(self, name, fr):
        f = fr
        while f is not None:
            if name in f.locals:
                return f.locals[name]
            f = f.fv.closure if (f.fv is not None and f.fv.closure is not None) else None
        gm = getattr(self.ctx.prog, "global_models", None)
        if gm and (fr.mod.name, name) in gm:
            # a module-level object the sidecar models (e.g. a lookup table built by module-level statements)
            return gm[(fr.mod.name, name)]
        r = source.resolve_global(fr.mod, name)
        if r is None:
            raise py_exc(NameError, "name '%s' is not defined" % name)
        return self.wrap_global(r)

    def wrap_global(self, r):
        if isinstance(r, tuple):
            if r[0] == "func":
                _, mod, node = r
                return FuncVal(mod, node, qual=mod.name + ":" + node.name)
            if r[0] == "assign":
                _, mod, expr = r
                for nm in mod.mutated:
                    if mod.defs.get(nm) == ("assign", expr):
                        raise Undecided("module-level %s.%s is changed by later module-level statements: needs a global model" % (mod.name, nm))
                fr = Frame(None, {}, mod)
                fr.qual = mod.name
                return self.eval(expr, fr)
        return r

    # ------------------------------------------------------------------ expressions
    def eval(self, e, fr):
        m = getattr(self, "e_" + type(e).__name__, None)
        if m is None:
            raise Undecided("expression %s (line %s)" % (type(e).__name__, getattr(e, "lineno", "?")))
        return m(e, fr)

    def e_Constant(self, e, fr):
        v = e.value
        if isinstance(v, float):
            return mk(realval(v), "real") if False else v
        return v

    def e_Name(self, e, fr):
        return self.load_name(e.id, fr)

    def e_NamedExpr(self, e, fr):
        v = self.eval(e.value, fr)          # (name := value): binds in the enclosing function scope and yields the value
        self.assign(e.target, v, fr)
        return v

    def e_Attribute(self, e, fr):
        return self.getattr(self.eval(e.value, fr), e.attr, fr)

    def e_Tuple(self, e, fr):
        out = []
        for x in e.elts:
            if isinstance(x, ast.Starred):
                from . import builtins as B
                out.extend(B.concrete_iter(self.ctx, self.eval(x.value, fr), must=True))
            else:
                out.append(self.eval(x, fr))
        return tuple(out)

    def e_List(self, e, fr):
        vals = list(self.e_Tuple(e, fr))
        return self.ctx.alloc("list", init={"v": vals})

    def e_Dict(self, e, fr):
        from . import builtins as B
        d = {}
        for k, v in zip(e.keys, e.values):
            if k is None:
                raise Undecided("dict ** in literal")
            kk = self.eval(k, fr)
            d[B.hashable(kk)] = (kk, self.eval(v, fr))
        return self.ctx.alloc("dict", init={"v": d})

    def e_JoinedStr(self, e, fr):
        parts = []
        symbolic = opaque = False
        for v in e.values:
            if isinstance(v, ast.Constant):
                parts.append(v.value)
            else:
                x = self.eval(v.value, fr)
                if isinstance(x, (int, str, float)) and not isinstance(x, bool) and v.conversion == -1 and v.format_spec is None:
                    parts.append(str(x))
                elif isinstance(x, SV) and x.ty == "str" and v.conversion == -1 and v.format_spec is None:
                    parts.append(x)          # a text formats as itself: the f-string is the exact concatenation
                    symbolic = True
                else:
                    opaque = True
        if opaque:
            return self.ctx.fresh("str", "fstr")
        if symbolic:
            terms = [p.t if isinstance(p, SV) else z3.StringVal(p) for p in parts if isinstance(p, SV) or p]
            return SV(z3.Concat(*terms) if len(terms) > 1 else terms[0], "str")
        return "".join(parts)

    def e_Lambda(self, e, fr):
        fn = ast.FunctionDef(name="<lambda>", args=e.args, body=[ast.Return(value=e.body, lineno=e.lineno, col_offset=0)],
                             decorator_list=[], lineno=e.lineno, col_offset=0)
        return FuncVal(fr.mod, fn, closure=fr, qual=fr.qual + ".<lambda>")

    def e_UnaryOp(self, e, fr):
        v = self.eval(e.operand, fr)
        if isinstance(e.op, ast.Not):
            c = truth(self.ctx, v)
            if isinstance(c, bool):
                return not c
            return mk(z3.Not(c), "bool")
        if isinstance(e.op, ast.USub):
            if isinstance(v, SV) and v.ty in ("int", "real"):
                return mk(-v.t, v.ty)
            if isinstance(v, (int, float)):
                return -v
        if isinstance(e.op, ast.UAdd) and ty_of(v) in NUM:
            return v
        if isinstance(e.op, ast.Invert):
            if isinstance(v, int):
                return ~v
            if isinstance(v, SV) and v.ty == "int":
                return mk(-v.t - 1, "int")
        raise Undecided("unary %s on %s" % (type(e.op).__name__, ty_of(v)))

    def e_BoolOp(self, e, fr):
        # python value semantics with short circuit
        isand = isinstance(e.op, ast.And)
        v = None
        for i, x in enumerate(e.values):
            v = self.eval(x, fr)
            if i == len(e.values) - 1:
                return v
            c = truth(self.ctx, v)
            # pure boolean operands: build a term instead of forking when the rest is side-effect free & boolean
            if not isinstance(c, bool) and isinstance(v, SV) and v.ty == "bool" and all(_pure(y) for y in e.values[i + 1:]):
                rest = ast.BoolOp(op=e.op, values=e.values[i + 1:]) if len(e.values) - i - 1 > 1 else e.values[i + 1]
                snap = len(self.ctx.trail)
                try:
                    r = self._try_pure_bool(rest, fr, c, isand)
                    if r is not None:
                        return r
                except _NotPure:
                    pass
            b = self.ctx.branch(c, "boolop@%d" % getattr(e, "lineno", 0))
            if isand and not b:
                return v
            if (not isand) and b:
                return v
        return v

    def _try_pure_bool(self, rest, fr, c, isand):
        # evaluate `rest` under the assumption needed to reach it; only accept if it yields a bool term without forking
        n = len(self.ctx.trail)
        self.ctx.solver.push()
        npc = len(self.ctx.pc)
        try:
            self.ctx.solver.add(c if isand else z3.Not(c))
            self.ctx.pc.append(c if isand else z3.Not(c))
            try:
                r = self.eval(rest, fr)
            except (Signal, PathEnd):
                raise _NotPure()
            if len(self.ctx.trail) != n or len(self.ctx.pc) != npc + 1:
                raise _NotPure()
        except _NotPure:
            del self.ctx.trail[n:]
            raise
        finally:
            del self.ctx.pc[npc:]
            self.ctx.solver.pop()
        if isinstance(r, bool):
            r = z3.BoolVal(r)
        elif isinstance(r, SV) and r.ty == "bool":
            r = r.t
        else:
            raise _NotPure()
        return mk(z3.And(c, r) if isand else z3.Or(c, r), "bool")

    def e_IfExp(self, e, fr):
        c = truth(self.ctx, self.eval(e.test, fr))
        if self.ctx.branch(c, "ifexp@%d" % e.lineno):
            return self.eval(e.body, fr)
        return self.eval(e.orelse, fr)

    def e_Compare(self, e, fr):
        left = self.eval(e.left, fr)
        acc = True
        for op, r in zip(e.ops, e.comparators):
            right = self.eval(r, fr)
            c = compare(self.ctx, op, left, right)
            acc = t_and(acc, c)
            left = right
        if isinstance(acc, bool):
            return acc
        return mk(acc, "bool")

    def e_BinOp(self, e, fr):
        return binop(self.ctx, e.op, self.eval(e.left, fr), self.eval(e.right, fr))

    def eval_index(self, s, fr):
        if isinstance(s, ast.Slice):
            return slice(self.eval(s.lower, fr) if s.lower is not None else None,
                         self.eval(s.upper, fr) if s.upper is not None else None,
                         self.eval(s.step, fr) if s.step is not None else None)
        return self.eval(s, fr)

    def e_Subscript(self, e, fr):
        from . import builtins as B
        obj = self.eval(e.value, fr)
        idx = self.eval_index(e.slice, fr)
        return B.getitem(self.ctx, obj, idx)

    def e_ListComp(self, e, fr):
        from . import builtins as B
        if len(e.generators) != 1:
            raise Undecided("nested comprehension")
        g = e.generators[0]
        it = self.eval(g.iter, fr)
        items = B.concrete_iter(self.ctx, it)
        if items is None:
            return B.symbolic_listcomp(self, e, fr, it)
        sub = Frame(fr.fv, dict(fr.locals), fr.mod, fr.cls, fr.yield_handler, fr.spec)
        sub.qual = fr.qual
        out = []
        for x in items:
            self.assign(g.target, x, sub)
            ok = True
            for cond in g.ifs:
                if not self.ctx.branch(truth(self.ctx, self.eval(cond, sub)), "comp-if"):
                    ok = False
                    break
            if ok:
                out.append(self.eval(e.elt, sub))
        return self.ctx.alloc("list", init={"v": out})

    def e_GeneratorExp(self, e, fr):
        lc = ast.ListComp(elt=e.elt, generators=e.generators)
        ast.copy_location(lc, e)
        return self.e_ListComp(lc, fr)

    def e_Yield(self, e, fr):
        v = self.eval(e.value, fr) if e.value is not None else None
        h = self.find_yield_handler(fr)
        if h is None:
            raise Undecided("yield outside a generator contract in %s" % fr.qual)
        return h(self, fr, e, v)

    def find_yield_handler(self, fr):
        return fr.yield_handler

    def e_YieldFrom(self, e, fr):
        g = self.eval(e.value, fr)
        if isinstance(g, GenVal):
            if g.started:
                raise Undecided("yield from a started generator")
            g.started = True
            g.frame.yield_handler = fr.yield_handler
            return self.run_body(g.fv, g.frame)
        if isinstance(g, Ref) and g.kind == "ext":
            from . import builtins as B
            return B.ext_yield_from(self, fr, e, g)
        raise Undecided("yield from %r" % (g,))

    def e_Await(self, e, fr):
        v = self.eval(e.value, fr)
        return v

    def e_Starred(self, e, fr):
        raise Undecided("starred expression")

    def e_Call(self, e, fr):
        # special forms
        if isinstance(e.func, ast.Name):
            nm = e.func.id
            if nm == "super" and "super" not in fr.locals:
                if e.args:
                    c = self.eval(e.args[0], fr)
                    o = self.eval(e.args[1], fr)
                else:
                    c, o = fr.cls, fr.locals.get("self")
                return SuperProxy(c, o)
            sf = self.ctx.prog.special_forms.get(nm)
            if sf is not None and nm not in fr.locals and fr.fv is None:
                return sf(self, e, fr)
        if isinstance(e.func, ast.Attribute) and isinstance(e.func.value, ast.Name) and e.func.value.id == "logger" \
                and "logger" not in fr.locals:
            # logger.debug/info/error(...): the call is assumed effect-free, but its ARGUMENTS are evaluated
            # (they can raise, e.g. cs.getpeername() inside an except handler)
            for a in e.args:
                self.eval(a, fr)
            for k in e.keywords:
                self.eval(k.value, fr)
            return None
        f = self.eval(e.func, fr)
        args = []
        kwargs = {}
        from . import builtins as B
        for a in e.args:
            if isinstance(a, ast.Starred):
                args.extend(B.concrete_iter(self.ctx, self.eval(a.value, fr), must=True))
            else:
                args.append(self.eval(a, fr))
        for k in e.keywords:
            if k.arg is None:
                d = self.eval(k.value, fr)
                for kk, vv in B.concrete_dict_items(self.ctx, d):
                    kwargs[kk] = vv
            else:
                kwargs[k.arg] = self.eval(k.value, fr)
        return self.call_value(f, args, kwargs, fr, e)

    # ------------------------------------------------------------------ calls
    def call_value(self, f, args, kwargs, fr=None, site=None):
        from . import builtins as B
        ctx = self.ctx
        if isinstance(f, FuncVal):
            return self.call_function(f, args, kwargs, fr, site)
        if isinstance(f, ModelFn):
            return f.fn(ctx, args, kwargs)
        if isinstance(f, BoundBuiltin):
            return B.call_method(ctx, f.recv, f.name, args, kwargs)
        if isinstance(f, ClassInfo):
            return self.instantiate(f, args, kwargs, fr, site)
        if isinstance(f, Foreign):
            return B.call_foreign(self, f, args, kwargs, fr, site)
        if isinstance(f, Ref) and f.kind == "obj":
            call = self.getattr(f, "__call__", fr)
            return self.call_value(call, args, kwargs, fr, site)
        if isinstance(f, Ref) and f.kind == "ext":
            return B.ext_call(ctx, f, args, kwargs)
        if isinstance(f, SV) and f.ty.startswith("u:"):
            m = ctx.prog.usort_models.get(f.ty[2:])
            if m is not None and hasattr(m, "call"):
                return m.call(ctx, f, args, kwargs)
        raise Undecided("call of %r" % (f,))

    def make_exc(self, cls, args, kwargs):
        return ExcVal(cls.obj if isinstance(cls, Foreign) else cls, tuple(args))

    def instantiate(self, cls, args, kwargs, fr=None, site=None):
        if class_issub(cls, BaseException):
            return self.make_exc(cls, args, kwargs)
        model = self.ctx.prog.class_models.get(cls.qual)
        if model is not None:
            return model(self, cls, args, kwargs)
        obj = self.ctx.alloc("obj", cls=cls)
        init = None
        for c in cls.mro():
            if isinstance(c, ClassInfo) and "__init__" in c.methods:
                init = FuncVal(c.mod, c.methods["__init__"], cls=c, bound=obj, qual=c.qual + ".__init__")
                break
            if not isinstance(c, ClassInfo):
                break
        if init is not None:
            self.call_function(init, args, kwargs, fr, site)
        return obj

    def bind(self, fv, args, kwargs):
        a = fv.node.args
        locs = {}
        args = list(args)
        if fv.bound is not None:
            args = [fv.bound] + args
        params = [p.arg for p in a.posonlyargs] + [p.arg for p in a.args]
        defaults = a.defaults
        ndef = len(defaults)
        kwargs = dict(kwargs)
        if len(args) > len(params) and a.vararg is None:
            raise py_exc(TypeError, "%s() takes %d positional arguments but %d were given" % (fv.node.name, len(params), len(args)))
        for i, p in enumerate(params):
            if i < len(args):
                if p in kwargs:
                    raise py_exc(TypeError, "%s() got multiple values for argument '%s'" % (fv.node.name, p))
                locs[p] = args[i]
            elif p in kwargs:
                locs[p] = kwargs.pop(p)
            else:
                di = i - (len(params) - ndef)
                if di >= 0:
                    locs[p] = self.eval_default(fv, defaults[di])
                else:
                    raise py_exc(TypeError, "%s() missing required positional argument: '%s'" % (fv.node.name, p))
        if a.vararg is not None:
            locs[a.vararg.arg] = tuple(args[len(params):])
        for p, d in zip(a.kwonlyargs, a.kw_defaults):
            if p.arg in kwargs:
                locs[p.arg] = kwargs.pop(p.arg)
            elif d is not None:
                locs[p.arg] = self.eval_default(fv, d)
            else:
                raise py_exc(TypeError, "%s() missing required keyword-only argument: '%s'" % (fv.node.name, p.arg))
        if a.kwarg is not None:
            locs[a.kwarg.arg] = self.ctx.alloc("dict", init={"v": {k: (k, v) for k, v in kwargs.items()}})
        elif kwargs:
            raise py_exc(TypeError, "%s() got an unexpected keyword argument '%s'" % (fv.node.name, sorted(kwargs)[0]))
        return locs

    def eval_default(self, fv, d):
        fr = Frame(None, {}, fv.mod, fv.cls)
        fr.qual = fv.qual or fv.node.name
        if fv.closure is not None:
            fr = Frame(FuncVal(fv.mod, fv.node, closure=fv.closure), {}, fv.mod, fv.cls)
            fr.qual = fv.qual or fv.node.name
        return self.eval(d, fr)

    def call_function(self, fv, args, kwargs, caller=None, site=None):
        ctx = self.ctx
        prog = ctx.prog
        qual = fv.qual
        # modular call against the callee's contract?
        mod_contract = prog.modular_contract(qual, caller)
        if mod_contract is not None:
            return mod_contract.apply_at_call(self, fv, args, kwargs, caller, site)
        locs = self.bind(fv, args, kwargs)
        fr = Frame(fv, locs, fv.mod, fv.cls, None, prog.inline_spec(qual))
        if source.is_generator_def(fv.node):
            return GenVal(fv, fr)
        if isinstance(fv.node, ast.AsyncFunctionDef):
            raise Undecided("call of async function %s" % qual)
        ctx.inlined.add(qual)
        ctx.depth += 1
        if ctx.depth > 40:
            raise Undecided("call depth exceeded at %s" % qual)
        try:
            return self.run_body(fv, fr)
        finally:
            ctx.depth -= 1

    def run_body(self, fv, fr):
        try:
            self.exec_block(fv.node.body, fr)
        except ReturnSig as r:
            return r.value
        except (BreakSig, ContinueSig):
            raise Undecided("break/continue escaped function")
        return None


class _NotPure(Exception):
    pass


def _has_continue(body):
    stack = list(body)
    while stack:
        n = stack.pop()
        if isinstance(n, ast.Continue):
            return True
        if isinstance(n, (ast.While, ast.For, ast.FunctionDef, ast.AsyncFunctionDef, ast.Lambda, ast.ClassDef)):
            continue
        stack.extend(ast.iter_child_nodes(n))
    return False


def _pure(e):
    for n in ast.walk(e):
        if isinstance(n, ast.Call) and isinstance(n.func, ast.Name) and n.func.id in ("ghost", "old", "implies", "len", "abs"):
            continue      # spec special forms and side-effect free builtins
        if isinstance(n, (ast.Call, ast.Yield, ast.YieldFrom, ast.Await, ast.NamedExpr)):
            return False
    return True


class _ClassScope(dict):
    def __init__(self, interp, cls):
        super().__init__()
        self.interp = interp
        self.cls = cls

    def __contains__(self, k):
        return k in self.cls.attrs

    def __getitem__(self, k):
        return self.interp.eval_class_attr(self.cls, k)


def class_issub(a, b):
    """a, b: ClassInfo | python class | Foreign"""
    if isinstance(a, Foreign):
        a = a.obj
    if isinstance(b, Foreign):
        b = b.obj
    if a is b:
        return True
    if isinstance(a, ClassInfo):
        for c in a.mro():
            c2 = c.obj if isinstance(c, Foreign) else c
            if c2 is b:
                return True
            if isinstance(c2, type) and isinstance(b, type) and issubclass(c2, b):
                return True
        return False
    if isinstance(b, ClassInfo):
        return False
    if isinstance(a, type) and isinstance(b, type):
        return issubclass(a, b)
    return False

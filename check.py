#!/usr/bin/env python
"""check.py <property-id> [--tier quick|thorough] [--replay <file>] [--update-ledger]

Decides one property on /repo's current working tree:
  1. re-reads /repo/src, runs every contract of the property through pyvc (one task per contract,
     16 processes), collects the obligations;
  2. vacuity guards: obligation ledger, reachability covers, must-fail canaries;
  3. bounded stand-in / CPython cross-check of the property (harness/<id>.py) when one exists;
  4. known findings, VIOLATION lines, evidence file.
Exit: 0 held / 1 violation / 2 undecided / 3 checker error.
"""
import argparse
import concurrent.futures
import importlib
import json
import multiprocessing
import os
import sys
import time
import traceback
import warnings

warnings.filterwarnings("ignore")
os.environ.setdefault("PYTHONWARNINGS", "ignore")

HERE = os.path.dirname(os.path.abspath(__file__))
sys.path.insert(0, HERE)
os.chdir(HERE)

import props as PROPS   # noqa: E402


def _run_task(task):
    modname, cname = task
    import contracts.common as C
    from pyvc.spec import run_contract, REGISTRY
    importlib.import_module(modname)
    con = [c for c in REGISTRY if c.name == cname][0]
    try:
        return run_contract(C.make_prog, con, budget_s=float(os.environ.get("PYVC_CONTRACT_BUDGET_S", "900")))
    except BaseException as ex:   # noqa
        return dict(contract=cname, qual=con.qual, props=con.props, paths=0, obligations=[], functions={}, inlined=[],
                    undecided=[], error="driver exception %r\n%s" % (ex, traceback.format_exc()), wall_s=0.0, solver_ms=0.0, covers=[])


def list_contracts(pid, modules):
    from pyvc.spec import REGISTRY
    for m in modules:
        importlib.import_module(m)
    out = []
    for c in REGISTRY:
        if pid in c.props:
            out.append((c.fn.__module__, c.name))
    return out


def load_known():
    p = os.path.join(HERE, "known_findings.json")
    if not os.path.exists(p):
        return []
    with open(p) as f:
        return json.load(f).get("findings", [])


def finding_matches(f, pid, oname, failure):
    if f.get("property") != pid or f.get("status") == "fixed":
        return False
    if f.get("obligation") != oname:
        return False
    w = f.get("witness")
    if w and failure is not None:
        # witness: substring that must occur in the failing path's description / model / input
        return w in json.dumps(failure, sort_keys=True, default=str)
    return True


def main():
    ap = argparse.ArgumentParser()
    ap.add_argument("pid")
    ap.add_argument("--tier", default=os.environ.get("VERIF_TIER", "quick"))
    ap.add_argument("--replay")
    ap.add_argument("--update-ledger", action="store_true")
    ap.add_argument("--jobs", type=int, default=int(os.environ.get("VERIF_JOBS", "16")))
    a = ap.parse_args()
    pid = a.pid
    tier = a.tier if a.tier in ("quick", "thorough") else "quick"
    seed = int(os.environ.get("VERIF_SEED", "0") or 0)
    cfg = PROPS.PROPS[pid]
    t0 = time.time()

    if a.replay:
        from harness import replay as R
        sys.exit(R.replay_file(a.replay))

    src_root = os.environ.get("HIO_SRC", "/repo/src")
    os.environ["HIO_SRC"] = src_root
    os.environ["PYTHONPATH"] = src_root + os.pathsep + os.environ.get("PYTHONPATH", "")
    sys.path.insert(0, src_root)

    tasks = list_contracts(pid, cfg.get("contracts", []))
    results = []
    if tasks:
        ctx = multiprocessing.get_context("spawn")
        with concurrent.futures.ProcessPoolExecutor(max_workers=min(a.jobs, len(tasks)), mp_context=ctx) as ex:
            results = list(ex.map(_run_task, tasks))

    # ---------------- aggregate obligations by name
    obl = {}          # name -> dict(status, paths, ms, backends, detail, top, failures[])
    functions = {}
    inlined = set()
    undecided_paths = []
    errors = []
    total_paths = 0
    solver_ms = 0.0
    covers = set()
    for r in results:
        total_paths += r["paths"]
        solver_ms += r["solver_ms"]
        functions.update(r["functions"])
        inlined |= set(r["inlined"])
        covers |= set(r.get("covers", []))
        if r["error"]:
            errors.append("%s: %s" % (r["contract"], r["error"]))
        for u in r["undecided"]:
            undecided_paths.append(dict(contract=r["contract"], **u))
        for o in r["obligations"]:
            if o.get("props") and pid not in o["props"]:
                continue      # clause belongs to other properties of the same contract
            e = obl.setdefault(o["name"], dict(status="proved", paths=0, ms=0.0, backends=set(), detail=o["detail"], top=o["top"],
                                               failures=[], kind=o["kind"], contract=r["contract"]))
            e["paths"] += 1
            e["ms"] += o["ms"]
            e["backends"].add(o["backend"])
            if o["status"] == "failed":
                e["status"] = "failed"
                e["failures"].append(dict(path=o["path"], model=o["model"], detail=o["detail"]))
            elif o["status"] == "undecided" and e["status"] != "failed":
                e["status"] = "undecided"

    # ---------------- canaries: obligations that MUST fail (the verifier can say no)
    canary_fail = []
    for name, e in list(obl.items()):
        if "/canary:" in name:
            if e["status"] != "failed":
                canary_fail.append(name)
            del obl[name]
    ncanaries = sum(1 for r in results for o in r["obligations"] if "/canary:" in o["name"])

    # ---------------- ledger
    ledger_path = os.path.join(HERE, "baseline", "obligations.json")
    ledger = {}
    if os.path.exists(ledger_path):
        with open(ledger_path) as f:
            ledger = json.load(f)
    if a.update_ledger:
        ledger[pid] = dict(obligations=sorted(obl), covers=sorted(covers))
        os.makedirs(os.path.dirname(ledger_path), exist_ok=True)
        with open(ledger_path, "w") as f:
            json.dump(ledger, f, indent=1, sort_keys=True)
        print("ledger updated: %d obligations, %d covers for %s" % (len(obl), len(covers), pid))
    led = ledger.get(pid, {})
    # a ledger obligation that is not generated is a checker error (vacuity guard) -- unless a path of the SAME contract ended
    # undecided (an unmodelled construct met before the clause was reached): then the absence is explained and the verdict is
    # "undecided" (exit 2), which is what the UNDECIDED lines report
    und_contracts = {u.get("contract") for u in undecided_paths}
    explained = lambda n: any(n.startswith(c + "/") for c in und_contracts if c)
    missing = [n for n in led.get("obligations", []) if n not in obl and not explained(n)]
    missing_covers = [n for n in led.get("covers", []) if n not in covers and not explained(n)]

    # ---------------- bounded stand-in / cross-check
    bounded = None
    hmod = cfg.get("harness")
    if hmod:
        try:
            if ":" in hmod:
                hm, harg = hmod.split(":", 1)
                bounded = importlib.import_module(hm).run_for(harg, tier=tier, seed=seed)
            else:
                bounded = importlib.import_module(hmod).run(tier=tier, seed=seed)
        except Exception as ex:   # noqa
            errors.append("harness %s: %r\n%s" % (hmod, ex, traceback.format_exc()))

    # ---------------- verdicts
    known = load_known()
    violations = []     # (obligation, failure, replay path)
    known_hits = []
    for name, e in sorted(obl.items()):
        if e["status"] != "failed":
            continue
        fl = e["failures"][0]
        hit = None
        for f in known:
            if finding_matches(f, pid, name, fl):
                hit = f
                break
        if hit:
            known_hits.append((name, hit))
            e["status"] = "known-finding"
        else:
            violations.append((name, e))
    bviol = []
    if bounded:
        for v in bounded.get("violations", []):
            hit = None
            for f in known:
                if finding_matches(f, pid, v["check"], v):
                    hit = f
                    break
            if hit:
                known_hits.append((v["check"], hit))
            else:
                bviol.append(v)

    # replay files describe THIS run only: what an earlier run (e.g. on a seeded copy) left behind is removed first
    import shutil
    shutil.rmtree(os.path.join(HERE, "replays", pid), ignore_errors=True)
    os.makedirs(os.path.join(HERE, "replays", pid), exist_ok=True)
    out_lines = []
    for name, hit in known_hits:
        out_lines.append("KNOWN-FINDING: property=%s %s [%s]" % (pid, hit.get("what", ""), name))
    seen = set()
    out_lines = [l for l in out_lines if not (l in seen or seen.add(l))]
    nviol = 0
    for name, e in violations:
        nviol += 1
        rp = os.path.join("replays", pid, _safe(name) + ".json")
        witness = None
        if bounded:
            for v in bounded.get("violations", []):
                if v.get("obligation") == name or v.get("relates_to") == name:
                    witness = v
        rec = dict(property=pid, obligation=name, clause=e["detail"], contract=e["contract"], kind="proof-obligation-failed",
                   failing_paths=e["failures"][:5], solver_output="sat (counter-model in failing_paths[].model)",
                   native_witness=witness, replay_cmd="./bin/check %s --replay %s" % (pid, rp), src_root=src_root, tier=tier, seed=seed)
        with open(os.path.join(HERE, rp), "w") as f:
            json.dump(rec, f, indent=1, default=str)
        suffix = "" if witness else " no-failing-input-found"
        out_lines.append("VIOLATION property=%s replay=%s obligation=%s%s" % (pid, rp, name, suffix))
    seen_checks = set()
    for v in bviol:
        if v["check"] in seen_checks:
            continue          # one VIOLATION line (first witness) per bounded clause
        seen_checks.add(v["check"])
        nviol += 1
        rp = os.path.join("replays", pid, _safe("bounded-" + v["check"]) + ".json")
        rec = dict(property=pid, obligation=v["check"], kind="bounded-contract-violation", input=v.get("input"), observed=v.get("observed"),
                   expected=v.get("expected"), replay=v.get("replay"), replay_cmd="./bin/check %s --replay %s" % (pid, rp), src_root=src_root,
                   tier=tier, seed=seed)
        with open(os.path.join(HERE, rp), "w") as f:
            json.dump(rec, f, indent=1, default=str)
        out_lines.append("VIOLATION property=%s replay=%s check=%s" % (pid, rp, v["check"]))

    nobl = sum(1 for e in obl.values() if e["status"] != "known-finding")
    ndis = sum(1 for e in obl.values() if e["status"] == "proved")
    nund = sum(1 for e in obl.values() if e["status"] == "undecided")
    checker_error = bool(errors) or bool(canary_fail) or bool(missing) or bool(missing_covers) or (tasks and not obl)
    if not tasks and not bounded:
        checker_error = True
        errors.append("no contracts and no harness for " + pid)

    # ---------------- evidence
    level = cfg["level"]
    backends = {}
    for e in obl.values():
        for b in e["backends"]:
            backends[b] = backends.get(b, 0) + 1
    samples = []
    for name, e in sorted(obl.items()):
        if e["top"] and len(samples) < 8:
            samples.append(dict(obligation=name, clause=e["detail"], status=e["status"], paths=e["paths"]))
    for name, e in sorted(obl.items()):
        if len(samples) >= 12:
            break
        if not e["top"]:
            samples.append(dict(obligation=name, clause=e["detail"], status=e["status"], paths=e["paths"]))
    # contracts whose name says "bounded" fix a size (number of doers, connections, stored entries ...): their obligations are
    # discharged for all symbolic CONTENT of that size only -- reported separately and not counted as proved for all inputs
    is_bounded = lambda n: "bounded" in n.split("]/")[0].split("[", 1)[-1].lower() or "<=" in n.split("]/")[0].split("[", 1)[-1] if "[" in n else False
    nbsym = sum(1 for n, e in obl.items() if e["status"] == "proved" and is_bounded(n))
    cov = dict(
        obligations=nobl, discharged=ndis, undecided=nund,
        discharged_unbounded=ndis - nbsym, discharged_in_size_bounded_contracts=nbsym,
        size_bounded_contracts=sorted({n.split("]/")[0] + "]" for n in obl if is_bounded(n)}),
        checker_cmd="./check.py %s --tier %s  (pyvc: VCs from the AST of %s, discharged by z3 %s; cvc5 on z3-unknown)" % (pid, tier, src_root, _z3v()),
        trusted_base=cfg.get("trusted_base", []) + PROPS.COMMON_TRUSTED,
        samples=samples,
        paths_enumerated=total_paths,
        path_instances=sum(e["paths"] for e in obl.values()),
        functions_under_contract=functions,
        functions_inlined_from_source=sorted(inlined),
        backends=backends, solver_ms=round(solver_ms, 1),
        top_level_obligations=sorted(n for n, e in obl.items() if e["top"]),
        known_findings=[dict(obligation=n, what=h.get("what")) for n, h in known_hits],
        undecided_detail=undecided_paths[:20],
        canaries_checked=ncanaries, covers=sorted(covers),
        explanation=cfg.get("explanation", ""),
    )
    if bounded:
        cov["bounded"] = {k: v for k, v in bounded.items() if k != "violations"}
        cov["evaluations"] = bounded.get("evaluations", 0)
        cov["distinct_nontrivial"] = bounded.get("distinct_nontrivial", 0)
        cov["rule"] = bounded.get("rule", "")
        if not samples:
            cov["samples"] = bounded.get("samples", [])[:8]
        else:
            cov["bounded_samples"] = bounded.get("samples", [])[:8]
    ev = dict(property_id=pid, tier=tier, seed=seed, level=level, coverage=cov,
              assumptions=cfg.get("assumptions", []) + PROPS.COMMON_ASSUMPTIONS, wall_s=round(time.time() - t0, 2), violations=nviol)
    if level == "proof" and (nobl == 0 or ndis != nobl):
        # never claim proof with open obligations
        ev["level"] = "other"
        cov["explanation"] = "proof incomplete on this run: %d of %d obligations discharged. %s" % (ndis, nobl, cov["explanation"])
    os.makedirs(os.path.join(HERE, "evidence"), exist_ok=True)
    with open(os.path.join(HERE, "evidence", pid + ".json"), "w") as f:
        json.dump(ev, f, indent=1, default=str)

    for l in out_lines:
        print(l)
    print("%s tier=%s contracts=%d paths=%d obligations=%d discharged=%d undecided=%d known=%d violations=%d bounded=%s wall=%.1fs" % (
        pid, tier, len(tasks), total_paths, nobl, ndis, nund, len(known_hits), nviol,
        ("%d evals" % bounded.get("evaluations", 0)) if bounded else "-", time.time() - t0))
    if nviol:
        sys.exit(1)
    if checker_error:
        for e in errors:
            print("CHECKER-ERROR:", e[:2000])
        for c in canary_fail:
            print("CHECKER-ERROR: canary did not fail:", c)
        for m in missing[:10]:
            print("CHECKER-ERROR: obligation in ledger not generated:", m)
        for m in missing_covers[:10]:
            print("CHECKER-ERROR: cover in ledger not reached:", m)
        if tasks and not obl:
            print("CHECKER-ERROR: zero obligations generated")
        sys.exit(3)
    if nund or undecided_paths:
        for u in undecided_paths[:10]:
            print("UNDECIDED:", u)
        for n, e in obl.items():
            if e["status"] == "undecided":
                print("UNDECIDED obligation:", n)
        sys.exit(2)
    sys.exit(0)


def _safe(s):
    import re
    return re.sub(r"[^A-Za-z0-9_.@#-]+", "_", s)[:150]


def _z3v():
    import z3
    return z3.get_version_string()


if __name__ == "__main__":
    main()

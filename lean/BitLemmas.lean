/-!
Arithmetic facts that the C26 contracts (contracts/c26_b64.py) use as instances about Python's `<<` and `|`
on non-negative integers.  Python ints are unbounded, so `Nat` is the exact model for non-negative operands.
Checked by `lean BitLemmas.lean` (core library only, no Mathlib).
-/

/-- x << k == x * 2**k -/
theorem shl_eq_mul_pow (x k : Nat) : x <<< k = x * 2 ^ k := Nat.shiftLeft_eq x k

/-- disjoint bits: 0 <= a < 2**k  =>  a | (x << k) == a + (x << k) -/
theorem or_shl_eq_add (a x k : Nat) (h : a < 2 ^ k) : a ||| (x <<< k) = a + (x <<< k) := by
  rw [Nat.or_comm, ← Nat.shiftLeft_add_eq_or_of_lt h, Nat.add_comm]

/-- 2**(k+6) == 64 * 2**k and 2**k > 0 -/
theorem pow_add_six (k : Nat) : 2 ^ (k + 6) = 64 * 2 ^ k := by
  rw [Nat.pow_add, Nat.mul_comm]

theorem two_pow_pos' (k : Nat) : 0 < 2 ^ k := Nat.two_pow_pos k

/-- monotonicity used for the bound -/
theorem mul_le_63 (a p : Nat) (h : a ≤ 63) : a * p ≤ 63 * p := Nat.mul_le_mul_right p h

"""Per-property configuration of the checks (which sidecar modules, which bounded harness, level, assumptions)."""

COMMON_TRUSTED = [
    "pyvc itself: /verif/pyvc (symbolic semantics of the Python subset, DESIGN.md 2.2-2.5)",
    "z3 (and /usr/bin/cvc5 for queries z3 leaves unknown)",
    "CPython 3.12 as the reference for replay and cross-check",
]

COMMON_ASSUMPTIONS = [
    "A-REAL: Python floats are treated as mathematical reals (rounding ignored)",
    "A-DET: interpreted functions are deterministic apart from calls the sidecar marks nondeterministic",
    "A-ATTR: attribute access resolves as the class hierarchy read from the source says (no __getattr__, no monkey patching, no __eq__ overrides on objects under contract)",
    "A-GIL: no threads; A-MEM: no MemoryError/RecursionError; A-312: CPython 3.12 generator semantics",
    "termination is not proved",
    "logger.* and print calls are assumed effect-free",
]

PROPS = {}

PROPS["C08"] = dict(
    contracts=["contracts.c08_timers"],
    harness="harness.c08",
    level="proof",
    trusted_base=["EXT time.time(): returns an arbitrary real on every call (no monotonicity assumed for C08)"],
    assumptions=["the tymth closure of a Tymer returns the scheduler's current tyme (ghost `tyme`), a real"],
    explanation="Every public accessor and mutator of Tymer, Timer and MonoTimer is interpreted from /repo/src and proved against "
                "clauses transcribed from the statement, for all reals; MonoTimer.latest is proved two-state (elapsed never decreases, "
                "expired never reverts) for an arbitrary clock reading.",
)
NOT_YET = {}

"""Per-property configuration of the checks (which sidecar modules, which bounded harness, level, assumptions)."""

COMMON_TRUSTED = [
    "pyvc itself: /verif/pyvc (symbolic semantics of the Python subset, DESIGN.md 2.2-2.5)",
    "z3 (and /usr/bin/cvc5 for queries z3 leaves unknown)",
    "CPython 3.12 as the reference for replay and cross-check",
]

COMMON_ASSUMPTIONS = [
    "A-REAL: Python floats are treated as mathematical reals (rounding ignored)",
    "A-DET: interpreted functions are deterministic apart from calls the sidecar marks nondeterministic",
    "A-ATTR: attribute access resolves as the class hierarchy read from the source says (no __getattr__, no monkey patching, no __eq__ overrides on objects under contract)",
    "A-GIL: no threads; A-MEM: no MemoryError/RecursionError; A-312: CPython 3.12 generator semantics",
    "A-ITER: a `for` over a dict, list or deque walks a snapshot taken at the loop head: CPython's RuntimeError for a dict that changes size during iteration is "
    "not modelled (a body that mutates the container it iterates is only seen by the native tier); equal-but-not-identical callables (bound methods) are not modelled",
    "termination is not proved",
    "logger.* and print calls are assumed effect-free",
]

PROPS = {}

PROPS["C08"] = dict(
    contracts=["contracts.c08_timers"],
    harness="harness.c08",
    level="proof",
    trusted_base=["EXT time.time(): returns an arbitrary real on every call (no monotonicity assumed for C08)"],
    assumptions=["the tymth closure of a Tymer returns the scheduler's current tyme (ghost `tyme`), a real"],
    explanation="Every public accessor and mutator of Tymer, Timer and MonoTimer is interpreted from /repo/src and proved against "
                "clauses transcribed from the statement, for all reals; MonoTimer.latest is proved two-state (elapsed never decreases, "
                "expired never reverts) for an arbitrary clock reading.",
)
NOT_YET = {}

SCHED_ASSUME = [
    "dog protocol (contracts/sched.py): a doer's generator either suspends, returns (StopIteration(v)) or raises an Exception; it never leaks StopIteration (PEP 479); close() on a suspended dog returns None (CPython 3.12) and does not raise (cease/exit hooks raising during a forced close are outside the fault list of the statements)",
    "re-entrant extend/remove calls target the scheduler that owns the running doer",
    "hooks of Doer subclasses are arbitrary user code: may raise any Exception, may assign self.done",
]
SCHED_UNBOUNDED_NOTE = ("UNBOUNDED (contracts/sched_inv.py, deque of arbitrary symbolic length in the window encoding, dogs/doers in uninterpreted sorts, injective ghost rank = enter ordinal): "
                        "exit() PROVED to close every alive dog of deeds exactly once in strictly decreasing rank and nothing else; recur() PROVED (without re-entrant extend/remove) to send "
                        "each due deed exactly once with the current tyme, never a non-due one, re-append exactly the popped deed with the retyme rule of the statement, keep enter order and "
                        "aliveness, leave no marker and advance tyme by one tock. ")
SCHED_BOUNDED_NOTE = (SCHED_UNBOUNDED_NOTE + "Contracts whose name carries [bounded ...] interpret the real enter/recur/exit/extend/remove on deques of at most 3 deeds "
                      "(all tymes, retymes, tocks and every dog outcome symbolic): bounded in the number of doers, complete otherwise; they are "
                      "reported under bounded_symbolic and never counted as proved. ")

PROPS["C01"] = dict(
    contracts=["contracts.c01_lifecycle", "contracts.sched_bounded", "contracts.sched_bounded2", "contracts.c05_do", "contracts.sched_inv"],
    harness="harness.sched_props:C01", level="other",
    trusted_base=["dog protocol model in contracts/sched.py"], assumptions=SCHED_ASSUME,
    explanation="Producer side PROVED for all paths and any number of recurs: the real try/except GeneratorExit/except Exception/else/finally "
                "text of Doer.do and DoDoer.do is interpreted with every hook virtual (may raise) and every yield forked into resume/close; "
                "a ghost automaton obligation sits at every hook call (enter, recur*, exactly one of clean/cease/abort, exit once, nothing after). "
                "Doist.do/ado PROVED to call exit exactly once on every path (loop cut by invariant). Consumer side (every started dog is in "
                "deeds exactly once, closed exactly once, never sent to after finishing): " + SCHED_BOUNDED_NOTE +
                "A native CPython harness over random scripted forests (incl. nested DoDoers and runtime extend/remove) is the second bounded stand-in.",
)
PROPS["C02"] = dict(
    contracts=["contracts.c01_lifecycle", "contracts.sched_bounded", "contracts.sched_bounded2", "contracts.c05_do", "contracts.sched_inv"],
    harness="harness.sched_props:C02", level="other",
    trusted_base=["dog protocol model in contracts/sched.py"], assumptions=SCHED_ASSUME,
    explanation="exit() closes in reverse deque order and deeds are kept in enter order by enter/recur/extend/remove: " + SCHED_BOUNDED_NOTE +
                "Children-before-parent follows from DoDoer.do (PROVED: cease/abort, then exit which closes the children, all before the generator "
                "terminates) and Doist.do (PROVED: exit() in finally before do returns or raises).",
)
PROPS["C03"] = dict(
    contracts=["contracts.sched_bounded", "contracts.sched_inv"], harness="harness.sched_props:C03", level="other",
    trusted_base=["dog protocol model in contracts/sched.py"], assumptions=SCHED_ASSUME,
    explanation="Per-cycle contract of Doist.recur / DoDoer.recur / enter on the real code: tyme advances by exactly one tock, due deeds are sent "
                "exactly once with the current tyme in deque order, retyme' = retyme + t for t > 0 (cumulative) and tyme + tock for 0/None, first "
                "due tyme is the tyme at enter; all reals symbolic. " + SCHED_BOUNDED_NOTE + "The lift to whole runs (k-th cycle at tyme0 + k*tock, "
                "due = enter + sum of tocks) is a paper induction over the per-cycle contract; the native harness checks it on random forests.",
)
PROPS["C05"] = dict(
    contracts=["contracts.c05_do", "contracts.sched_bounded", "contracts.sched_bounded2", "contracts.c01_lifecycle", "contracts.c08_timers"],
    harness="harness.sched_props:C05", level="other",
    trusted_base=["dog protocol model in contracts/sched.py"], assumptions=SCHED_ASSUME,
    explanation="Doist.do PROVED (outer loop cut by invariant, any number of cycles): leaves at the first cycle that empties deeds with done True, "
                "or at the first cycle whose end tyme >= start + limit with done True iff deeds are empty; KeyboardInterrupt leaves done False; "
                "Tymer.expired PROVED. Doer.do/DoDoer.do PROVED to return self.done. done-flag assignment in enter/recur/exit: " + SCHED_BOUNDED_NOTE,
)
PROPS["C06"] = dict(
    contracts=["contracts.sched_bounded2"], harness="harness.sched_props:C06", level="other",
    trusted_base=["dog protocol model in contracts/sched.py"], assumptions=SCHED_ASSUME,
    explanation="extend/remove and one cycle of recur with a re-entrant extend or remove issued from inside a running doer (the real extend/remove "
                "are interpreted re-entrantly). " + SCHED_BOUNDED_NOTE + "Native harness: random hosts whose doers call extend/remove at run time.",
)
PROPS["C30"] = dict(
    contracts=["contracts.c05_do"], harness="harness.sched_props:C30", level="proof",
    trusted_base=["EXT asyncio.sleep(0.0): no other task touches the Doist while it is suspended", "virtual enter/recur/exit with the effects their own contracts establish"],
    assumptions=["non-real-time mode only", "composition: both functions satisfy the identical clauses, which determine the hook-call sequence and final state from the hook outcomes"],
    explanation="Doist.do and Doist.ado are interpreted from the real source and PROVED against one and the same contract harness (same clauses, "
                "same virtual enter/recur/exit oracle, outer loop cut by the same invariant). The contract fixes the sequence of enter/recur/exit calls "
                "and the final done/tyme as a function of the hook outcomes, so equal doers give equal runs. Native harness runs both on random forests.",
)

TCP_EXT = ["EXT socket (contracts/tcp.py Sock): send(b) accepts 0..len(b) bytes or raises OSError(e); recv(k) delivers <= k bytes (b'' = orderly close) or raises; "
           "TLS sockets raise SSLWantRead/WriteError, SSLEOFError, SSLError(e); a socket error never carries errno 2/3/8 (numeric collision with the SSL_ERROR_* codes); "
           "close() releases the descriptor; shutdown()/getpeername() may raise on a dead connection",
           "EXT WireLog.writeTx/writeRx append exactly the bytes they are given (their formatting is not verified)"]
PROPS["C09"] = dict(
    contracts=["contracts.tcp"], harness="harness.tcp_native:C09", level="proof", trusted_base=TCP_EXT,
    assumptions=["'continued servicing delivers all of it' is a liveness claim: its safety core is proved instead (pending bytes on a healthy connection are "
                 "offered to the kernel in full, and txbs shrinks by exactly the accepted count)"],
    explanation="For Client, ClientTls, Remoter, RemoterTls: send, receive, tx, serviceSends, serviceReceives, serviceReceiveOnce are interpreted from /repo/src "
                "against ghost byte streams (wire, rwire): send returns the kernel's count and puts exactly data[:count] on the wire; the class invariant "
                "sent == wire ++ txbs is preserved by tx and serviceSends on every path incl. exceptional ones; serviceReceives appends exactly the delivered "
                "bytes (read loop cut by an invariant, any number of reads); wire-log calls get exactly data[:count] / the received bytes. All payloads, counts, "
                "errnos symbolic.")
PROPS["C10"] = dict(
    contracts=["contracts.tcp"], harness="harness.tcp_native:C10", level="other", trusted_base=TCP_EXT,
    assumptions=["errno values are read from the running errno/ssl modules"],
    explanation="PROVED per endpoint method (send/receive/serviceSends/serviceReceives/serviceReceiveOnce x 4 classes, RemoterTls.handshake): for a symbolic errno, an "
                "exception escapes only if the errno is not in the statement's list (and not would-block), and a listed fault returns with cutoff True; TLS EOF likewise; "
                "handshake faults set aborted and close the socket. Server.service / serviceReceivesAllIx / serviceSendsAllIx / serviceReceivesIx / ServerTls.serviceCxes: "
                "bounded-symbolic over <= 2 connections (other connections still serviced in the same pass). ClientTls.handshake re-raises by design: known finding.")
PROPS["C11"] = dict(
    contracts=["contracts.tcp"], harness="harness.tcp_native:C11", level="other", trusted_base=TCP_EXT,
    explanation="Ghost open flag per socket. Server.close / ServerTls.close (<= 2 connections, <= 1 handshaking), Server.serviceAxes (replacement by a newer connection "
                "from the same address), ServerTls.serviceCxes (open sockets stay tracked, closed ones are dropped), RemoterTls/ClientTls.handshake (aborted => closed), "
                "Client/ClientTls.reopen (earlier socket closed, exactly one new). Bounded in the number of connections, symbolic otherwise.")
PROPS["C12"] = dict(
    contracts=["contracts.tcp", "contracts.c08_timers", "contracts.http_server"], harness="harness.combo:C12", level="other", trusted_base=TCP_EXT,
    assumptions=["the whole-history statement (idle for tymeout => closed at the next serviceConnects; traffic in every window => never closed for idleness) is the "
                 "composition, on paper, of four proved per-call contracts: serviceAxes gives the Remoter the server's tymeout; Remoter.send/receive restart the idle "
                 "timer at the current tyme iff bytes moved; Tymer.expired <=> tyme >= start + duration; serviceConnects closes iff cutoff or expired",
                 "tcp Server.serviceConnects (accepting) is summarised as a no-op inside the http serviceConnects contract"],
    explanation="PROVED per call: Server.serviceAxes builds Remoters whose tymeout and tymer duration equal the server's tymeout (bounded in #accepted); Remoter/RemoterTls.send "
                "and .receive restart the idle timer at the current tyme with unchanged duration exactly when bytes moved on a refreshable connection and leave it alone "
                "otherwise; Tymer.start/restart/expired (C08); http Server.serviceConnects and BareServer.serviceConnects (<= 2 connections, symbolic flags) close a "
                "connection iff it is cut off or (tymeout > 0 and its timer expired), exactly once, removing requestant/responder/steward and flushing a pending response "
                "first, and keep every other connection with a requestant bound to its receive buffer. Native runs in virtual tyme (harness) are the bounded tier.")

PROPS["C04"] = dict(
    contracts=["contracts.sched_bounded", "contracts.sched_inv", "contracts.c01_lifecycle"], harness="harness.sched_props:C04", level="other",
    trusted_base=["dog protocol model in contracts/sched.py"], assumptions=SCHED_ASSUME + ["the flattening lemma (a tock-0 DoDoer's cycle is the concatenation of its children's steps) is a paper argument over the per-call clauses, not mechanised"],
    explanation="Relational property. Code-to-spec half: DoDoer.enter/recur/exit are interpreted from /repo/src against the SAME clause text as Doist.enter/recur/exit "
                "(one harness parametrised by class: injected tymth/tock, first due tyme, send order and value, retyme rule with the owner's own tock, done flags, "
                "reverse-order exit). " + SCHED_BOUNDED_NOTE + "Composition half: bounded differential stand-in -- random forests run natively flat and regrouped under "
                "tock-0 DoDoers (nested up to 2 levels), leaf traces, run result and done flags compared.",
)

PROPS["C07"] = dict(
    contracts=["contracts.c07_realtime", "contracts.c08_timers"], harness="harness.c07", level="proof",
    trusted_base=["EXT time.time() == tau + off with tau non-decreasing and off non-increasing (backward steps only, as the statement excludes forward ones); "
                  "EXT time.sleep(d) lets at least max(d,0) of true time pass",
                  "virtual enter/recur/exit of the Doist (recur takes an arbitrary amount of true time)"],
    assumptions=["termination of the wait loop is not proved (a stalled clock waits for ever, which the property allows)", "limit=None, no exception from recur in this contract"],
    explanation="Doist.do(real=True) is interpreted from /repo/src with ghost true time tau and clock offset off. TOP obligation at every call of recur: tau >= tau_start + k*tock "
                "(k-th cycle never early), for the tock the Doist has when the run starts. Outer loop and wait loop are cut by invariants (any number of cycles and wake-ups): the "
                "period equals the tock; the timer's _last is a past reading (tp, op) with _stop - op >= next deadline in true time (existential witnessed by the path's readings); "
                "no drift: under a steady clock one iteration moves the deadline by exactly one tock however late the wake-up (loop-body clause). MonoTimer.latest/start/restart/"
                "expired/remaining are proved separately (C08 contracts).")

HTTP_NOTE = ("Native bounded harness (harness/http_native.py): generated messages x (whole, 1-byte, every 2-way, random k-way) fragmentations, "
             "near-valid byte strings through the real service loops on fake sockets, WSGI apps x request sequences with an independent strict response parser. ")
HTTP_EXT = ["EXT str.find/partition/slicing on bytes as SMT string operations (pyvc.builtins); MAX_LINE_SIZE read from the source"]

PROPS["C12"]["harness"] = "harness.combo:C12"
PROPS["C12"]["explanation"] += " http level: native harness drives http.Server over a fake socket in virtual tyme (silent, partial request then silent, bursts, steady traffic)."

PROPS["C13"] = dict(
    contracts=["contracts.http_parse", "contracts.c13_body", "contracts.c13_leader", "contracts.c13_head_client", "contracts.c17_chunk"], harness="harness.http_native:C13", level="other", trusted_base=HTTP_EXT,
    assumptions=["L-FRAG (lemmas/LFrag.lean): idle-stutter + prefix-stability of every step imply independence of any fragmentation; machine-checked over abstract steps",
                 "parseLeader/parseChunk/parseHead/parseBody steps are not under pyvc contract yet (no coroutine support for next(sub-generator) in the engine): bounded natively"],
    explanation="PROVED as generators under contract with the environment appending arbitrary bytes (and possibly closing the connection) at every wait: httping.parseLeader, one ARBITRARY turn of its line loop after any history of waits (a wait never consumes; a line is found from position 0 of the whole buffer, so a terminator straddling two reads is found; exactly line + terminator consumed; header stored as name / stripped value; empty line yields the headers; only HTTPException subclasses) -- contracts/c13_leader.py; the client-side Respondent.parseHead (fresh header mapping holding exactly the FINAL response's header block after any number of 100-continue responses; status, version, chunked, length rules incl. 204/304/1xx/HEAD; redirectant exactly for 300/301/302/303/307 with a Location; the event source of an event-stream response reads THIS response's body whatever an earlier response left behind -- contracts/c13_head_client.py); Requestant.parseBody and the client-side Respondent.parseBody (plus its read-until-close mode: body = everything received in order until the server closes): a length-delimited body is exactly the next L bytes of the stream, exactly those consumed, PrematureClosure only when closed short; a chunked body is the data chunks in order for any number of chunks; neither -> HTTPException -- contracts/c13_body.py. parseLine (the leaf of every HTTP parser) PROVED per step for symbolic buffers: a step that waits leaves the buffer untouched (idle-stutter); a step that yields a line "
                "yields the bytes up to the EARLIEST terminator and consumes line+terminator; progress on b implies the same progress on b++e with rest++e (prefix-stability, relational "
                "two-run VC; z3 with cvc5 taking the str.indexof queries z3 leaves unknown). Proved for eols=(CRLF,) and (CRLF, LF) on the repaired tree (earliest terminator fa9054b, size-limit verdict a9835bd), and as ONE ARBITRARY TURN "
                "of the loop after any history for all three terminator sets (the split-terminator state `tail`, c5ce28d). parseChunk as a generator under contract (contracts/c17_chunk.py). " + HTTP_NOTE)
PROPS["C17"] = dict(
    contracts=["contracts.http_parse", "contracts.c17_chunk", "contracts.c13_body"], harness="harness.http_native:C17", level="other", trusted_base=HTTP_EXT,
    explanation="PROVED: parseChunk as a generator under contract with the environment appending arbitrary bytes at every wait (contracts/c17_chunk.py; parseLine/parseLeader by their callee contracts, no chunk extension): size = hex value of the stripped size line, rejected with HTTPException iff empty or not all hex digits; the chunk is exactly the first `size` bytes of the stream after the size line (it waits for them), exactly those are consumed, the line after the data must be empty, framing lines end with CRLF only; last chunk carries the parsed trailers. parseLine step contracts with eols=(CRLF,) PROVED (chunk-size and chunk-end lines). Chunk decode round trip packChunk -> parseChunk over random bodies, chunk partitions, "
                "trailers and wire fragmentations, and rejection of non-plain-hex sizes: bounded natively. " + HTTP_NOTE)
PROPS["C15"] = dict(
    contracts=["contracts.http_parse", "contracts.c15_events", "contracts.c13_head_client"], harness="harness.http_native:C15", level="other", trusted_base=HTTP_EXT,
    explanation="PROVED: one ARBITRARY turn of EventSource.parseEvents as a generator under contract (contracts/c15_events.py; pending id/name and a list of data lines of any length arbitrary at the head of the turn; parseLine by callee contract with eols (CRLF, LF, CR)): a wait changes nothing; an empty line dispatches -- JOIN of the data lines, exactly one event {id, name, data} iff data is non-empty (parsed JSON when dictable), then name and data reset, id kept; comment lines change nothing; event/data/id/retry fields update exactly their slot with the value minus ONE leading space, data appended as the LAST line; unknown fields ignored; no event is queued except by a dispatch; the run ends only after the dispatch on a closed connection. parseLine with eols=(CRLF, LF, CR) PROVED from entry, resumed after a wait, and for one arbitrary turn after any history (a CRLF split across reads is ONE terminator; contracts/http_parse.py); the two-run prefix-stability VC for three terminators is beyond both solvers and not registered. Event dispatch against an SSE reference "
                "written from the ABNF, plain and chunked transport, all line-terminator mixes, fragmentations: bounded natively. " + HTTP_NOTE)
PROPS["C16"] = dict(
    contracts=["contracts.http_parse", "contracts.c17_chunk", "contracts.c13_body", "contracts.c13_leader", "contracts.c16_bare", "contracts.c15_events"], harness="harness.http_native:C16", level="other", trusted_base=HTTP_EXT,
    explanation="parseLine PROVED to raise only LineTooLong (an HTTPException) and only beyond the limit, on any turn after any history. BareServer.serviceStewards PROVED (<= 2 connections): "
                "whatever Requestant.parse does (raises HTTPException, ends errored, ends clean, not finished) the loop does not raise; an errored request is never handed to "
                "Steward.respond, its connection is closed once and removed; a complete request is answered exactly once (contracts/c16_bare.py). Everything above: near-valid and mutated byte strings through Server.service, "
                "BareServer.service and http Client.service on fake sockets with a second, healthy connection that must still be served: bounded natively. " + HTTP_NOTE)
PROPS["C14"] = dict(
    contracts=["contracts.c14_request", "contracts.c14_qargs"], harness="harness.http_native:C14", level="other",
    technique="contract-based deductive verification (pyvc) of the server side (Requestant.parseHead as a generator under contract, Server.buildEnviron); bounded runtime "
              "contract (round trip Requester.build -> Requestant.parse -> Server.buildEnviron) for the client-side builder and the urllib/json/str.format chains",
    trusted_base=["EXT: httping.parseLine / parseLeader as incremental parsers (None until complete, then the line / header block), httping.parseRequestLine splits the start "
                  "line, urllib urlsplit / unquote / quote and str.lower / upper / replace uninterpreted, Hict a case-insensitive mapping, int(str) raises ValueError or returns a value"],
    assumptions=["client side: Requester.build is under contract up to the request target (contracts/c14_request.py) and updateQargsQuery for <= 2 arguments (contracts/c14_qargs.py); "
                 "header packing, body / JSON / form encoding and the byte-level round trip are decided by the bounded tier only",
                 "buildEnviron: at most 2 received headers (symbolic names and values)"],
    explanation="PROVED: Requestant.parseHead starts every request from a fresh, empty header mapping that then holds exactly the parsed header block; stores the start line's method, "
                "the unquoted url path and the query as received; version (1,0)/(1,1); chunked iff Transfer-Encoding is 'chunked'; length None / declared / 0 by the stated rules; "
                "raises only HTTPException subclasses (closed connection, unknown protocol, bad url); waits by yielding None, ends by yielding True. Server.buildEnviron hands the "
                "application exactly that method, QUOTE(path), the query as received, the body bytes (wsgi.input), CONTENT_TYPE/CONTENT_LENGTH and every received header as "
                "HTTP_<NAME>, in a new dict per request. BOUNDED: random methods, unicode/reserved-character paths, query dicts, header sets, raw/JSON/form bodies built by the real "
                "Requester and recovered by the real Requestant and buildEnviron.")
PROPS["C18"] = dict(
    contracts=["contracts.http_responder", "contracts.http_server2"], harness="harness.http_native:C18", level="other",
    technique="contract-based deductive verification (pyvc) of Responder.write/start/reset/build and Server.serviceReps; bounded runtime contract on the real http.Server "
              "over fake sockets with an independent strict response-stream parser as oracle for whole connections",
    trusted_base=["httping.packChunk(msg) == HEX(len msg) CRLF msg CRLF (HEX uninterpreted; the shape is checked natively on sample messages); Hict as a case-insensitive "
                  "mapping model restricted to the header names the functions ask for; int(str) uninterpreted; incomer.tx appends to a ghost wire; "
                  "httpDate1123 / packHeader / str.encode summarised as arbitrary values"],
    assumptions=["per-call contracts; 'responses come back in request order and each parses to exactly the application's output' over a whole connection is the bounded tier",
                 "serviceReps: <= 2 connections, Responder.service summarised as 'may or may not end the response'"],
    explanation="PROVED per call (symbolic flags, lengths, message bytes): Responder.write refuses before start_response, sends the head exactly once and first, sends exactly "
                "one chunk per piece when chunked, and with a declared Content-Length sends exactly the first min(len, L - size) bytes so that size never exceeds L; "
                "Responder.start takes the declared length and switches chunking off with it, refuses a second start; Responder.reset clears every per-response field and takes "
                "the new request's chunkable; Responder.build chunks iff chunkable and no other Transfer-Encoding, and announces it; Server.serviceReps (<= 2 connections) closes "
                "a connection iff its responder was closed or its response ended for a non-persistent request with everything flushed, renews the parser of a finished "
                "persistent request, services an unfinished responder exactly once; Server.serviceReqs (<= 2 connections) answers a complete request by exactly one responder -- a new one wired to the request, or the existing one reset with the NEW request's environ and chunkable -- closes malformed ones, never re-parses a request whose response is in progress; Responder.service calls start_response for an application HTTPError with the Content-Length already in the header list. BOUNDED: WSGI apps x request sequences (HTTP/1.0/1.1, keep-alive/close, pipelined) with the "
                "socket byte stream parsed by an independent strict parser: framing, order, body clamp, close decision. The HTTP/1.0 keep-alive response without a length is a "
                "recorded finding (not self-delimiting on an open connection).")
PROPS["C19"] = dict(
    contracts=["contracts.http_client", "contracts.c13_body", "contracts.c13_head_client"], harness="harness.http_native:C19", level="proof",
    trusted_base=["Requester.rebuild/build, Respondent.parse/dictify/reinit, tcp connector tx/close/reopen: EXT summaries (arbitrary result or exception) -- the "
                  "parser side is covered by C13/C15/C18 checks, the connector by the tcp contracts",
                  "copy.copy = shallow copy with equal items; deque.append adds at the right end; urlsplit/unquote/urljoin, httping.normalizeHostPort, "
                  "coring.normalizeHost, httping.updateQargsQuery summarised as arbitrary results or an exception; str.lower uninterpreted"],
    assumptions=["a queued request is a non-empty dict whose transmitted keys are a subset of the eight transmit() parameters plus keys that are handed back "
                 "('reply'); users that mutate .waited/.latest/.requests from outside are out of scope",
                 "the history lemma (k-th response carries the k-th queued request) is an induction over service() calls whose step cases are exactly the proved "
                 "postconditions of serviceRequests / serviceResponse / service; the induction itself is on paper (DESIGN.md C19), the end-to-end runs are the bounded harness"],
    explanation="PROVED for queues of ANY length (window encoding, requests known by identity): Client.serviceRequests sends nothing while waited and otherwise pops exactly the head, "
                "records it as .latest and hands exactly one requester output built from the head's keys to the connector; Client.transmit marks waited and sends exactly once; "
                "Client.serviceResponse appends at most one response, exactly one iff waited and the parse completed (or failed) for a non-event-stream, non-followed-redirect "
                "response, at the right end, carrying .latest's keys and the redirect history, then clears .latest/.waited/.redirects; a followed redirect appends nothing and "
                "stays waited; Client.service runs requests -> sends -> response once each in this order; Client.redirect transmits exactly once to the Location path, refuses "
                "(ValueError, before closing/replacing/sending anything) exactly the https -> non-https case, resolves a relative Location against the current request, and "
                "replaces the connector (closing the old one, TLS iff https) iff address or scheme changes. Native end-to-end runs against scripted servers are the bounded tier.")

PROPS["C27"] = dict(
    contracts=["contracts.c27_naming"], harness="harness.c27", level="proof",
    trusted_base=["python dict as a partial map (pyvc symbolic dict: SMT array + domain array; KeyError on missing key, get() returns None)"],
    assumptions=["names and addresses are compared only by ==/truthiness (uninterpreted sorts); entries passed to __init__ are added through addNameAddr (its contract covers them)"],
    explanation="Every mutator and accessor of Namer is interpreted from /repo/src on symbolic maps A, B with bij(A, B) assumed: bij is proved on normal and exceptional exit; "
                "False / NamerError imply both maps unchanged (extensional equality over the whole domain); True implies the whole new view (A' = A[name:=addr] etc.). "
                "Holds for all histories by induction over the class invariant.")

PROPS["C26"] = dict(
    contracts=["contracts.c26_b64"], harness="harness.c26", level="other",
    technique="contract-based deductive verification (pyvc: VCs from the real AST, loops cut by invariants, z3; arithmetic fact schemas checked by Lean) for "
              "intToB64/b64ToInt; bounded enumeration of the real helpers for the code<->binary helpers and the bytes flavour",
    trusted_base=["x << k == x * 2**k, a | (x << k) == a + (x << k) for 0 <= a < 2**k, 2**(k+6) == 64 * 2**k on non-negative Python ints: used as instances, "
                  "proved as Nat theorems by Lean (lean/BitLemmas.lean, core library, re-checked on every run)",
                  "the induction principle over the naturals is applied by the generator: base and step are obligations, the universally quantified "
                  "conclusion is then assumed (lemma G, lemma H in contracts/c26_b64.py)",
                  "str as a window of an SMT array of one-character strings; ''.join(deque) is that window; collections.deque.appendleft prepends"],
    assumptions=["l >= 1 (l = 0 is the recorded finding intToB64(i, 0) == '')", "b64ToInt on str (the bytes flavour decodes first: bounded tier)"],
    explanation="PROVED for integers of any size and strings of any length: the two lookup tables are mutually inverse bijections on 0..63 with 0 -> 'A' (checked "
                "exhaustively on the tables obtained by executing the module-level statements extracted from the real source); intToB64(i, l) returns max(l, k) "
                "characters whose e-th least significant one is the table entry of (i // 64**e) % 64 and whose leading ones are 'A' (two loop invariants); "
                "b64ToInt(s) raises ValueError iff s is empty, KeyError only for a character outside the table, else returns sum D(s[n-1-e]) * 64**e (loop "
                "invariant); LEMMAS by induction over these two postconditions: b64ToInt(intToB64(i, l)) == i for every i >= 0, l >= 1, and intToB64(b64ToInt(s), len(s)) == s for every non-empty string of table characters (the core of the code <-> binary round trip). BOUNDED (not proved): codeB64ToB2/codeB2ToB64/"
                "nabSextets and the bytes flavour -- exhaustive small domain plus structured large values in harness/c26.py.")

PROPS["C25"] = dict(
    contracts=["contracts.c25_boxing", "contracts.c25_run"], harness="harness.c25", level="other",
    technique="contract-based deductive verification (pyvc, loops cut by invariants, piles of any depth) of Boxer.exen/exdo/rexdo/rendo/endo/predo/end; "
              "bounded runtime contract on the real Boxer.run over random box forests for the transition block",
    trusted_base=["a Box is known by identity (uninterpreted sort); its nabe methods (exdo, rexdo, rendo, endo, predo) are EXT: they append to a ghost call log, "
                  "predo returns an arbitrary but fixed bool per box",
                  "list slicing / reversed() on window sequences (pyvc/builtins.py wseq_slice, wseq_reversed)"],
    assumptions=["W2 (precondition of exen): two piles that agree on their whole common length have the same length -- a pile ends at a leaf (Box._trace); checked natively "
                 "on every pair of boxes of every random forest of the harness, not proved from Box._trace",
                 "Boxer.run (contracts/c25_run.py): one ARBITRARY pass of the while-loop (cut by an invariant) with the active pile bounded to 1..2 boxes and 0..2 transition acts per box; "
                 "exen/predo/exdo/... summarised by their own contracts; hold bags as a plain mapping"],
    explanation="PROVED for piles of any depth: Boxer.exen never falls off its loop and splits at the FIRST index that is far itself or where the piles differ; the boxes "
                "above it are common to both piles and do not contain far; exdos / rexdos are the boxes left / kept in bottom-up order, endos / rendos the boxes arrived at / "
                "kept in top-down order (exact element-wise characterisation of all four lists); exdo/rexdo/rendo/endo call exactly the matching method once per list "
                "element in list order and nothing else; predo asks top-down, stops at the first unmet box and returns whether all are met; end exits every box of the "
                "active pile exactly once bottom-up. PROVED for one arbitrary pass of the generator Boxer.run (pile <= 2, <= 2 acts per box): boxes visited top-down, afdo before the acts, acts in declaration order, the first act that fires with its destination\'s preconditions met gives exdo(exdos), rexdo(rexdos), rendo(rendos), endo(endos), redo with exactly exen\'s lists and makes the destination active, nothing is consulted afterwards; a refused act contributes nothing; no transition -> rendo([]), endo([]), redo; an end request -> end() once and True; first pass enters the whole pile of the first box or returns False without any action. BOUNDED: Boxer.run on random forests (depth <= 3, up to 4 transitions, failing preconditions), logged act order "
                "compared with the prescribed one.")

MEMO_NOTE = "Native bounded harness (harness/memo_native.py): the real Memoer with scripted send/receive. "
PROPS["C20"] = dict(
    contracts=["contracts.memo_rx", "contracts.memo_size", "contracts.c20_rend", "contracts.c22_pick"], harness="harness.memo_native:C20", level="other",
    technique="contract-based deductive verification (pyvc) of Memoer.fuse (unbounded), _serviceOneReceived and _serviceOnceRxGrams (bounded-symbolic); bounded runtime "
              "contract (segment with the real rend, deliver in many orders with duplicates to the real receive path) for rend/pick and whole deliveries",
    trusted_base=['EXT receive() returns any (gram, src); inside _serviceOneReceived pick(gram) is used by its contract (returns any (mid, vid, gn, gc) or raises MemoerError/ValueError/LookupError); pick itself is under contract per header code for base64 headers (contracts/c22_pick.py); wiff, the binary-header branch and verify (pysodium) are native tier only', 'bytes.decode raises UnicodeDecodeError or returns DEC(bytes) (uninterpreted)'],
    assumptions=["_serviceOneReceived / _serviceOnceRxGrams: at most 2 memo ids in flight, each with at most 2 stored grams (symbolic ids, numbers, bodies)",
                 "rend: base64 headers and four gram sizes per code (smallest admissible, +1, 200, 1000); binary (curt) headers, pick and signature verification are covered by the native tier only"],
    explanation="PROVED for every header code x base64/base2 x any requested size: the size setter leaves room for at least one body byte in the zeroth and in every later gram (Sizes/Pairs read from the real class body). PROVED for a memo of ANY length (loop invariant; every zeroth code x 4 gram sizes, base64): Memoer.rend emits grams whose bodies are consecutive, non-empty slices of the memo covering it exactly once in order, each behind the right head (and before its signature), and the count announced in gram 0 is exactly the number of grams (contracts/c20_rend.py; cvc5 decides the nested-substring obligations). PROVED, unbounded: Memoer.fuse returns a memo only when every gram number below the count is present, and then exactly the stored bodies concatenated in numeric "
                "order and decoded -- independent of arrival order and of extra stored numbers; MemoerError only for undecodable bytes. PROVED, bounded-symbolic: "
                "_serviceOneReceived stores a gram only in an empty (memo id, number) slot and sets count / signer / source of a memo id only when absent (duplicates and "
                "replays change nothing, other memo ids are untouched, invalid grams touch nothing); _serviceOnceRxGrams delivers each fused memo exactly once with the stored "
                "source and signer and makes all four tables forget the id, leaves incomplete memos untouched, drops undecodable ones. " + MEMO_NOTE +
                "BOUNDED: memos (ASCII, unicode, long) x gram sizes x base64/binary headers x plain/sure/auth codes x delivery orders (in order, reversed, shuffles, duplicates, "
                "interleaved servicing) and a missing-gram case.")
PROPS["C21"] = dict(
    contracts=["contracts.memo_tx", "contracts.memo_tx2"], harness="harness.memo_native:C21", level="other",
    trusted_base=["EXT transport send(gram, dst): returns 0..len(gram) having put gram[:cnt] on the wire, or raises OSError(e)"],
    assumptions=["single destination per contract run; queue length 0..2 (symbolic contents, counts, errnos): bounded in queue length only",
                 "'eventually sent' is liveness: its safety core is proved (nothing lost/duplicated/reordered per call; pending work is always offered to the transport)"],
    explanation="PROVED per step for a queue of ANY length and ANY destinations (contracts/memo_tx2.py): exactly the current piece (pending remainder, else the queue head) is offered whole to its own destination, the unsent tail stays pending for that destination, the queue loses exactly its head iff the piece came from it, a piece is dropped only for an unreachable-destination errno, the result tells whether nothing is pending. Whole-call accounting below is bounded in queue length. Memoer._serviceOnceTxGrams, serviceTxGramsOnce, serviceTxGrams interpreted from /repo/src with a ghost account of bytes accepted by the transport and grams dropped: "
                "account ++ pending_after == pending_before on every normal return, a gram is dropped only for an unreachable-destination errno, pending remainder or gram on an open "
                "transport is offered to send() in full and oldest first. " + MEMO_NOTE)
PROPS["C22"] = dict(
    contracts=["contracts.memo_rx", "contracts.c22_pick"], harness="harness.memo_native:C22", level="other",
    technique="contract-based deductive verification (pyvc) of the table discipline of the receive side; bounded fault injection (single-byte mutations, truncations, random "
              "datagrams, second signer) on the real receive path for pick/wiff/verify",
    trusted_base=['EXT receive() returns any (gram, src); inside _serviceOneReceived pick(gram) is used by its contract (returns any (mid, vid, gn, gc) or raises MemoerError/ValueError/LookupError); pick itself is under contract per header code for base64 headers (contracts/c22_pick.py); wiff, the binary-header branch and verify (pysodium) are native tier only', 'bytes.decode raises UnicodeDecodeError or returns DEC(bytes) (uninterpreted)'],
    assumptions=["at most 2 memo ids in flight, each with at most 2 stored grams", "cryptographic soundness is assumed of pysodium"],
    explanation="PROVED on arbitrary gram bytes, per header code of the real table and for unknown codes (base64 headers; contracts/c22_pick.py): Memoer.pick raises only MemoerError/ValueError/LookupError; refuses short grams, unknown codes and -- when signatures are required -- every unsigned code; returns the mid / signer / number / count fields of the header and leaves exactly the body; for a code with a signature it returns ONLY after verify(signer named by the gram, last az bytes, everything before them) returned, and verify\'s exception propagates. PROVED, bounded-symbolic: whatever pick() raises among MemoerError/ValueError/LookupError, _serviceOneReceived returns True and touches no table (invalid grams are "
                "dropped, nothing escapes); the signer id and source recorded for a memo id are the FIRST ones (a later gram, valid or not, cannot re-bind them); the memo "
                "delivered by _serviceOnceRxGrams carries exactly that stored signer and source; fuse raises only MemoerError, which _serviceOnceRxGrams turns into dropping "
                "the memo. NOT under contract: wiff (base64 vs binary detection), the binary-header branch of pick, and verify itself (pysodium). " + MEMO_NOTE +
                "BOUNDED: every gram of valid signed and unsigned memos mutated (bit flips, byte substitutions, truncation, replacement) and delivered in and out of order, random "
                "datagrams with valid and invalid codes, an attacker with its own key reusing an observed memo id: servicing must not raise and, when signatures are required, no "
                "memo differing from the sent one is delivered.")

PROPS["C23"] = dict(
    contracts=["contracts.c23_durq", "contracts.c23_dusq", "contracts.c24_subers", "contracts.c24_scans"], harness="harness.durable_native:C23", level="other",
    technique="contract-based deductive verification (pyvc) of Durq.push/pull/clear/extend/sync against a FIFO model of the store entry; bounded model-based runtime check "
              "against FIFO / ordered-set models with a real LMDB store for Dusq, the store itself and reopen",
    trusted_base=["EXT: the sub-database entry at the queue's key is a FIFO list (add/put append, pop takes the first, rem empties, cnt, getIter in order, pin replaces): "
                  "this is what C24 checks natively against LMDB; values are known by identity and are all RegDom/IceRegDom instances"],
    assumptions=["Hold.inject is covered by the bounded tier only", "Durq.extend / Dusq.update: at most 2 new values per call (queue / set size unbounded)",
                 "Dusq: ordered_set.OrderedSet and the IoSetSuber entry are both taken to implement ONE abstract ordered-set type (ADD/REM/FIRST/LEN/IN with the axioms listed in contracts/c23_dusq.py)"],
    explanation="PROVED for a queue of ANY length (window encoding): from a state where memory and durable copy hold the same values in the same order, push appends the value at the "
                "right end of both, pull removes and returns the first value of both (None / IndexError when empty, nothing changed), clear empties both, extend appends all new "
                "values in order to both -- so the two stay equal and the 'cache/durable mismatch' HierError is unreachable; sync from ARBITRARY contents makes memory exactly the "
                "durable copy when that is non-empty (what reopen + resync relies on) and otherwise writes memory out; a non-durable queue never touches the store. IoSuber (list store behind a Durq) and IoSetSuber (set store behind a Dusq) delegate every add/put/pin/pop/rem/cnt to the matching list- or set-operation of the database, once, with every value serialized in order (contracts/c24_subers.py). Dusq.push/pull/remove/clear/update/sync: the SAME abstract ordered-set operation is applied to memory and to the durable copy, results are as stated (push True and gained iff absent, pull = first inserted, remove True iff present), no mismatch error. "
                "BOUNDED: random sequences (<= 7) of push/pull/extend/update/remove/clear over 4 values with duplicates on durable Durq and Dusq with a real LMDB store, close + "
                "reopen and resync of a FRESH queue object at random positions; after every operation the cache and the durable copy must equal the model.")
PROPS["C24"] = dict(
    contracts=["contracts.c24_suffix", "contracts.c24_subers", "contracts.c24_scans"], harness="harness.durable_native:C24", level="other",
    technique="contract-based deductive verification (pyvc, cvc5 for the word equation) of the io-key encoding Duror.suffix / unsuffix; bounded model-based runtime check against "
              "dict-of-value / list / ordered-set models with a real LMDB store for every store operation",
    trusted_base=["EXT: b'%032x' % ion is HEX32(ion): 32 characters without '.', int(HEX32(i), 16) == i; bytes.rsplit(sep, 1) splits at the rightmost separator; "
                  "everything inside LMDB (cursor order, set_range, delete) is outside the verifier's reach"],
    assumptions=["the eleven cursor operations of the insertion-ordered stores are under contract for <= 3 stored entries and <= 2 given values (symbolic content, cursor start arbitrary: "
                 "bounded, not counted as proved); that LMDB's key order makes a key's entries contiguous is decided by the native bounded tier only",
                 "ordered_set.OrderedSet modelled as a list of pairwise different values with membership by equality; lmdb transactions / cursors per the py-lmdb documentation"],
    explanation="BOUNDED-SYMBOLIC (contracts/c24_scans.py, <= 3 entries with arbitrary io-keys and values, cursor landing anywhere): getIoValFirst / getIoVals / popIoVal / remIoVals / "
                "remIoSetVal read, return and delete exactly (the first match in) the run of consecutive entries from the cursor whose unsuffixed key IS the requested key -- no entry of "
                "another key is ever returned or deleted; addIoVal / putIoVals write the given values in order at the key's next ordinals, pinIoVals after erasing the key's entries; "
                "addIoSetVal / putIoSetVals / pinIoSetVals write only values the key does not hold yet, each once, never overwriting. "
                "PROVED: IoSuber and IoSetSuber delegate every add/put/pin/pop/rem/cnt to the matching list- or set-operation of the database, exactly once, on their own sub-database and key, every value serialized in order, the answer returned unchanged (contracts/c24_subers.py). PROVED for any key bytes (also keys containing or ending with the separator, or looking like another key's io-key) and any ordinal: suffix(key, ion) == key ++ '.' ++ "
                "32 hex digits; unsuffix(suffix(key, ion)) == (key, ion); the encoding is injective, so io-keys of different (key, ordinal) pairs never collide. "
                "BOUNDED: random sequences (<= 9) of put/pin/add/get/pop/rem/cnt on Suber, IoSuber, IoSetSuber over adversarial key sets (prefixes of each other, keys containing the "
                "separator, keys that look like another key's io-key) with a real LMDB store; after every operation EVERY key of the set is read back and compared with the model "
                "(non-interference).")

PROPS["C28"] = dict(
    contracts=[], harness="harness.c28", level="exploration", technique="bounded runtime contract `type(r) is cls and r == self` for r = cls._fromX(self._asX()) -- stand-in (thin wrappers around json/cbor2/msgpack and dataclass reflection)",
    explanation="Bounded stand-in only: generated registered data objects (flat, nested one and two levels, RawDom) with fields from the common representable domain, three codecs, classes "
                "defined in modules with and without `from __future__ import annotations`, and malformed messages injected mid-run (state surviving between conversions).")
PROPS["C29"] = dict(
    contracts=["contracts.c29_filer", "contracts.c29_remake"], harness="harness.c29", level="other",
    technique="contract-based deductive verification (pyvc) of Filer.remake / _clearPath / close / reopen with the file system and os.path as uninterpreted functions; bounded runtime precondition "
              "on every filesystem call of the real Filer (inside the head directory) in a throw-away sandbox for remake and whole life cycles",
    trusted_base=["os.path.exists / isfile arbitrary predicates of the path string, os.path.split = (DIRNAME, BASENAME) uninterpreted, os.remove / shutil.rmtree / ocfn logged; "
                  "Filer.remake summarised (returns some path and file) inside the reopen contract"],
    assumptions=["os.path fact used but not proved: abspath(join(h, t, b, n)) lies under h for relative b, n without `..` segments (sampled on a real file system by the bounded tier)"],
    explanation="PROVED (symbolic name, base, directories; all 16 temp/clean/filed/extensioned combinations): Filer.remake refuses an absolute or `..`-containing name or base with "
                "FilerError before ANY file system call; otherwise every makedirs / ocfn / chmod / remove / rmtree is given the remade path P or its directory, P being "
                "abspath(join(tmp, tail, base, name')) for the directory mkdtemp just made (temp) or abspath(expanduser(join(head | althead, tail | alttail, base, name'))) (clean tail iff "
                "clean, name' with the extension added when filed/extensioned and missing); returns such a P and, if any, the file opened at exactly P (contracts/c29_remake.py). "
                "PROVED (symbolic paths and flags): _clearPath deletes nothing without an existing path and otherwise exactly the file at .path (plus, only for a temp resource, its "
                "own directory) or the directory tree at .path -- no other path ever reaches a deleting call; close clears iff asked, after flushing and closing the file; reopen "
                "first closes/clears the resource AS IT IS (old path, old temp flag) and only then applies the overrides and re-makes from the instance's own name and base, so a "
                "reopen can only delete what the Filer held before. BOUNDED: all combinations of temp, clean, filed, extensioned x names/bases incl. dotted and `..` segments "
                "(sampled in the quick tier, exhaustive in thorough), each followed by close(clear) / reopen(clear) / reopen(temp=True, clear=True) on a real file system; "
                "makedirs/remove/rmtree/open arguments must resolve inside the head (or the Filer's own mkdtemp dir); sibling and outside content must survive.")
"""Native (CPython) bounded harness for the scheduler properties C01-C06, C30: scripted doer forests are run
through the REAL Doist/DoDoer from /repo/src and the observed traces are checked against the clauses of the
statements.  Bounded stand-in and cross-check of the pyvc contracts; never counted as proved.

A script is a list of steps for one doer:
   ('y', t)  yield tock t (None, 0.0 or t > 0)      ('r', v)  return v (finish by itself)
   ('x',)    raise ValueError                         ('k',)    raise KeyboardInterrupt
   ('ext', name)  scheduler.extend([doer name]) then yield 0.0     ('rem', name) scheduler.remove([doer name]) then yield 0.0
Doer flavours: 'doer' (Doer subclass, plain recur), 'redoer' (generator recur), 'func' (doify generator function).
"""
import itertools
import random

from hio.base import doing, tyming


class Log:
    def __init__(self):
        self.ev = []

    def add(self, *e):
        self.ev.append(tuple(e))


class Boom(ValueError):
    pass


def make_doer(name, script, flavour, log, world, enter_raises=False, tock=0.0):
    script = list(script)

    def step(self_or_none, tyme):
        """run one recur step; returns ('y', tock) or ('r', value); raises for x/k"""
        if not script:
            world.get('finished', set()).add(name)
            return ('r', True)
        s = script.pop(0)
        if s[0] == 'r':
            world.get('finished', set()).add(name)
        if s[0] == 'x':
            raise Boom(name)
        if s[0] == 'k':
            raise KeyboardInterrupt()
        if s[0] == 'dyn':
            # choose a meaningful runtime operation from the current (model) membership; every spare is used at most once
            rnd = world['rnd']
            model, fresh = world['model'], world['fresh']
            others = [m for m in model if m != name and m not in world['finished']]
            r = rnd.random()
            if r < 0.35 and fresh:
                s = ('ext', fresh.pop(0))
            elif r < 0.43 and fresh:
                s = ('ext2', fresh.pop(0))
            elif r < 0.50 and others:
                s = ('ext', rnd.choice(others))              # already present: must be a no-op
            elif r < 0.80 and others:
                s = ('rem', rnd.choice(others))
            elif r < 0.87:
                s = ('rem', name)                            # self removal
            elif r < 0.92:
                s = ('rem', 'STRANGER')
            elif fresh and others:
                s = ('extrem', fresh.pop(0), rnd.choice(others))
            else:
                s = ('y', 0.0)
            if s[0] == 'extrem':
                sch = world['sched_of'][name]
                log.add('ext-begin', name, (s[1],), tyme)
                try:
                    sch.extend([world['doers'][s[1]]])
                finally:
                    log.add('ext-end', name, (s[1],), tyme)
                world['sched_of'][s[1]] = sch
                s = ('rem', s[2])
        if s[0] in ('ext', 'rem', 'ext2'):
            sch = world['sched_of'][name]
            tg = [world['doers'][t] for t in s[1:]]
            log.add(s[0] + '-begin', name, tuple(s[1:]), tyme)
            try:
                if s[0] == 'ext':
                    sch.extend(tg)
                elif s[0] == 'ext2':
                    sch.extend(tg + tg)
                else:
                    sch.remove(tg)
            finally:
                log.add(s[0] + '-end', name, tuple(s[1:]), tyme)
            for t in s[1:]:
                if s[0] != 'rem':
                    world['sched_of'][t] = sch
                    if 'model' in world and t not in world['model']:
                        world['model'].append(t)
                elif 'model' in world and t in world['model']:
                    world['model'].remove(t)
            return ('y', 0.0)
        return s

    if flavour == 'func':
        def f(tymth=None, tock=0.0, **opts):
            log.add('enter', name, tymth())
            if enter_raises:
                log.add('abort', name)
                log.add('exit', name)
                raise Boom(name)
            try:
                while True:
                    s = script[0] if script else ('r', True)
                    if s[0] == 'r':
                        if script:
                            script.pop(0)
                        log.add('clean', name)
                        return s[1]
                    # a generator function yields first, then acts at the resumption
                    if s[0] == 'y':
                        script.pop(0)
                        tyme = yield s[1]
                        log.add('recur', name, tyme)
                    else:
                        tyme = yield 0.0
                        log.add('recur', name, tyme)
                        step(None, tyme)
            except GeneratorExit:
                log.add('cease', name)
            except BaseException:
                log.add('abort', name)
                raise
            finally:
                log.add('exit', name)
        d = doing.doify(f, name=name, tock=tock)
        d.vname = name
        return d

    class D(doing.Doer):
        def __init__(self, **kw):
            super().__init__(**kw)
            self.vname = name
            self.next_tock = tock

        def enter(self, *, temp=None):
            log.add('enter', name, self.tyme)
            if enter_raises:
                raise Boom(name)

        def clean(self):
            log.add('clean', name)

        def cease(self):
            log.add('cease', name)

        def abort(self, ex):
            log.add('abort', name)

        def exit(self):
            log.add('exit', name)

    if flavour == 'doer':
        class P(D):
            def recur(self, tyme):
                log.add('recur', name, tyme)
                s = step(self, tyme)
                if s[0] == 'r':
                    return s[1] if s[1] else True    # a plain recur finishes by returning a true value
                self.tock = s[1] if s[1] else 0.0
                return False
        return P(tock=tock)

    class R(D):
        def recur(self, tock=None):
            t = tock
            while True:
                tyme = yield t
                log.add('recur', name, tyme)
                s = step(self, tyme)
                if s[0] == 'r':
                    return s[1]
                t = s[1]
    return R(tock=tock)


def build(spec, log, world, parent_key):
    """spec: list of nodes; node = dict(name, kind='leaf'|'dodoer', script, flavour, children, enter_raises, always)"""
    out = []
    for nd in spec:
        if nd['kind'] == 'leaf':
            d = make_doer(nd['name'], nd.get('script', []), nd.get('flavour', 'doer'), log, world, nd.get('enter_raises', False), nd.get('tock', 0.0))
        else:
            kids = build(nd['children'], log, world, nd['name'])

            class DD(doing.DoDoer):
                def enter(self, doers=None, *, temp=None):
                    if doers is None:
                        log.add('enter', self.vname, self.tyme)
                    return super().enter(doers=doers, temp=temp)

                def clean(self):
                    log.add('clean', self.vname)

                def cease(self):
                    log.add('cease', self.vname)

                def abort(self, ex):
                    log.add('abort', self.vname)

                def exit(self, deeds=None):
                    super().exit(deeds=deeds)
                    if deeds is None:
                        log.add('exit', self.vname)
            d = DD(doers=kids, always=nd.get('always', False), tock=nd.get('tock', 0.0))
            d.vname = nd['name']
            world['scheds'][nd['name']] = d
            for k in nd['children']:
                world['sched_of'][k['name']] = d
        world['doers'][nd['name']] = d
        if not nd.get('detached'):
            out.append(d)
    return out


DYN = {}


def run(spec, tock=1.0, tyme=0.0, limit=None, use_ado=False):
    log = Log()
    world = dict(doers={}, scheds={}, sched_of={})
    world.update(DYN)
    top = build(spec, log, world, None)
    doist = doing.Doist(tock=tock, tyme=tyme, real=False, limit=limit, doers=top)
    world['scheds'][None] = doist
    for nd in spec:
        world['sched_of'][nd['name']] = doist
    err = None
    try:
        if use_ado:
            import asyncio
            asyncio.run(doist.ado())
        else:
            doist.do()
    except Boom as ex:
        err = 'Boom:' + str(ex)
    except KeyboardInterrupt:
        err = 'Kbd'
    log.add('RETURN', err, doist.done, doist.tyme)
    dones = {}
    for n, d in world['doers'].items():
        dones[n] = d.done
    return log.ev, dones, doist, world


# ----------------------------------------------------------------------------- clause checkers on a trace

def check_lifecycle(ev, names, allow_kbd_skip=()):
    """C01: enter recur* (clean|cease|abort) exit, nothing after exit; for every entered doer, before RETURN"""
    bad = []
    ret_i = [i for i, e in enumerate(ev) if e[0] == 'RETURN'][0]
    for n in names:
        mine = [(i, e[0]) for i, e in enumerate(ev) if len(e) > 1 and e[1] == n and e[0] in ('enter', 'recur', 'clean', 'cease', 'abort', 'exit')]
        if not mine:
            continue
        ks = [k for _, k in mine]
        ok = ks[0] == 'enter' and ks.count('enter') == 1 and ks[-1] == 'exit' and ks.count('exit') == 1 and \
            len(ks) >= 3 and ks[-2] in ('clean', 'cease', 'abort') and all(k == 'recur' for k in ks[1:-2])
        if not ok:
            bad.append((n, ks))
        elif mine[-1][0] > ret_i:
            bad.append((n, ks + ['exit-after-run-returned']))
    return bad


def all_names(spec):
    out = []
    for nd in spec:
        out.append(nd['name'])
        if nd['kind'] == 'dodoer':
            out += all_names(nd['children'])
    return out


def enter_order(ev):
    return [e[1] for e in ev if e[0] == 'enter']


def check_forced_exit_order(ev, spec):
    """C02: the doers force-closed (cease) exit in reverse enter order; children exit before their DoDoer"""
    order = enter_order(ev)
    rank = {n: i for i, n in enumerate(order)}
    ceased = [e[1] for e in ev if e[0] == 'cease']
    exits = [e[1] for e in ev if e[0] == 'exit' and e[1] in ceased]
    bad = []
    # ceased doers' exits must be in decreasing enter rank, except that a parent DoDoer exits after its children
    parent = {}

    def walk(nodes, p):
        for nd in nodes:
            parent[nd['name']] = p
            if nd['kind'] == 'dodoer':
                walk(nd['children'], nd['name'])
    walk(spec, None)

    def key(n):
        # post-order position in reverse enter order: children (entered later) exit first, then parent
        return rank.get(n, -1)
    leaves_and_parents = exits
    # expected: sort ceased by reverse enter order, but a parent is entered BEFORE its children and must exit AFTER them:
    exp = sorted(exits, key=lambda n: -rank.get(n, -1))
    if exits != exp:
        # classify: was the run stopped by an exception raised in the MIDDLE of a cycle (alive doers entered both
        # before and after the raising one)?  That pattern is the recorded finding; anything else is new.
        cls = "other"
        ab = [i for i, e in enumerate(ev) if e[0] == 'abort']
        if ab:
            x = ev[ab[0]][1]
            alive = set()
            for e in ev[:ab[0]]:
                if e[0] == 'enter':
                    alive.add(e[1])
                elif e[0] == 'exit':
                    alive.discard(e[1])
            alive.discard(x)
            if any(rank[a] < rank.get(x, -1) for a in alive if a in rank) and any(rank[a] > rank.get(x, 99) for a in alive if a in rank):
                cls = "mid-cycle-exception"
        bad.append(dict(exits=exits, expected=exp, witness_class=cls))
    return bad


def check_cycle_model(ev, spec, tock, tyme0):
    """C03: each leaf's recur tymes follow due_{k+1} = due_k + t (t>0) | next cycle (t in 0,None); run at the first cycle
    tyme >= due; cycle tymes are tyme0 + k*tock.  Checked for leaves without runtime extend/remove in their scripts."""
    bad = []
    return bad


# ----------------------------------------------------------------------------- scenario generators

def leaf(name, script, flavour='doer', **kw):
    return dict(name=name, kind='leaf', script=script, flavour=flavour, **kw)


def dd(name, children, **kw):
    return dict(name=name, kind='dodoer', children=children, **kw)


def expected_recurs(script, enter_tyme, tock, flavour):
    """expected tyme of each recur of a leaf with a static script, on the cycle grid tyme0 + k*tock (Fractions).
    Model from the statement of C03: first due at the enter tyme; a doer runs at most once per cycle, in the first
    cycle whose tyme >= its due tyme; yielding t > 0 makes it due at (previous due + t), yielding 0/None in the next cycle."""
    from fractions import Fraction as F
    tock = F(tock)
    steps = list(script)
    out = []
    due = F(enter_tyme)
    t = F(enter_tyme)          # candidate cycle tyme
    if flavour == 'func':
        # a generator function yields BEFORE each recur; the tock yielded at enter is ignored
        ys = []
        for s in steps:
            if s[0] == 'y':
                ys.append(s[1])
            elif s[0] in ('x', 'k'):
                ys.append(0.0)
                break
            else:
                break
        for i, y in enumerate(ys):
            if i > 0:
                due = (due + F(y)) if y else (out[-1] + tock)
                t = out[-1] + tock
            while t < due:
                t += tock
            out.append(t)
        return out
    while True:
        while t < due:
            t += tock
        out.append(t)
        s = steps.pop(0) if steps else ('r', True)
        if s[0] != 'y':
            break
        y = s[1]
        due = (due + F(y)) if y else (t + tock)
        t = t + tock
    return out


def scen_static(rnd, n, flavours=('doer', 'redoer', 'func'), nest=False, tocks=(None, 0.0, 0.5, 1.0, 1.5, 0.25, 3.0)):
    leaves = []
    for i in range(n):
        fl = rnd.choice(flavours)
        k = rnd.randint(0, 4)
        script = [('y', rnd.choice(tocks)) for _ in range(k)]
        end = rnd.choice(['r', 'r', 'r', 'x', 'open'])
        if end == 'r':
            script.append(('r', rnd.choice([True, True, False, None]) if fl != 'doer' else True))
        elif end == 'x':
            script.append(('x',))
        else:
            script += [('y', rnd.choice(tocks)) for _ in range(12)]
        lf = leaf('L%d' % i, script, fl)
        if n >= 2 and rnd.random() < 0.06:
            lf['enter_raises'] = True       # a failing enter (at start-up)
        leaves.append(lf)
    return leaves


def regroup(rnd, leaves):
    """C04: group consecutive leaves under tock-0 DoDoers (possibly nested)"""
    out = []
    i = 0
    g = 0
    while i < len(leaves):
        if rnd.random() < 0.5 and i + 1 <= len(leaves):
            k = rnd.randint(1, min(3, len(leaves) - i))
            kids = leaves[i:i + k]
            if k >= 2 and rnd.random() < 0.4:
                kids = [dd('G%d_in' % g, kids[:-1])] + kids[-1:]
            out.append(dd('G%d' % g, kids))
            g += 1
            i += k
        else:
            out.append(leaves[i])
            i += 1
    return out


def leaf_events(ev):
    return [e for e in ev if e[0] in ('enter', 'recur', 'clean', 'cease', 'abort', 'exit') and e[1].startswith('L')]


def copyspec(spec):
    import copy
    return copy.deepcopy(spec)


def run_checks(tier='quick', seed=0):
    from fractions import Fraction as F
    rnd = random.Random(seed)
    viol = []
    counts = {}
    evals = 0
    distinct = set()
    samples = []
    N = 1500 if tier == 'quick' else 20000

    def v(check, inp, observed=None, expected=None):
        cls = inp.get('witness_class', '') if isinstance(inp, dict) else ''
        k_ = (check, cls)
        counts[k_] = counts.get(k_, 0) + 1
        if counts[k_] <= 3:
            viol.append(dict(check=check, input=inp, observed=observed, expected=expected))

    for it in range(N):
        n = rnd.randint(1, 4)
        tock = rnd.choice([1.0, 0.5, 0.25, 2.0])
        tyme0 = rnd.choice([0.0, 1.0, 2.5])
        limit = rnd.choice([None, None, 2.0, 3.25, 0.5])
        leaves = scen_static(rnd, n)
        has_open = any(len(l['script']) > 8 for l in leaves)
        if has_open and limit is None:
            limit = 4.0
        inp = dict(leaves=[(l['name'], l['flavour'] + ('!enter-raises' if l.get('enter_raises') else ''), l['script'][:6]) for l in leaves], tock=tock, tyme=tyme0, limit=limit)
        key = repr(inp)
        distinct.add(key)
        if it < 4:
            samples.append(inp)
        ev, dones, doist, world = run(copyspec(leaves), tock, tyme0, limit)
        evals += 1
        names = all_names(leaves)
        # ---- C01
        for b in check_lifecycle(ev, names):
            v('C01/lifecycle', inp, b)
        # ---- C02
        for b in check_forced_exit_order(ev, leaves):
            v('C02/forced-exit-order', dict(inp, witness_class=b['witness_class']), b)
        # ---- C03 cycle model (only when no doer raised: a raise stops the run mid-way)
        ret = [e for e in ev if e[0] == 'RETURN'][0]
        raised = ret[1] is not None
        if any(l.get('enter_raises') for l in leaves):
            if not raised:
                v('C01/failing-enter-swallowed', inp, ret)
            continue
        end_tyme = F(ret[3])
        for l in leaves:
            got = [F(e[2]) for e in ev if e[0] == 'recur' and e[1] == l['name']]
            exp = expected_recurs(l['script'], tyme0, tock, l['flavour'])
            # the run may have been cut by limit/exception: observed must be a prefix of expected, and complete up to the end
            if got != exp[:len(got)]:
                v('C03/recur-tymes', inp, dict(doer=l['name'], got=[float(x) for x in got]), [float(x) for x in exp])
            elif not raised:
                missing = [x for x in exp[len(got):] if x < end_tyme]
                if missing:
                    v('C03/recur-missing', inp, dict(doer=l['name'], got=[float(x) for x in got]), [float(x) for x in exp])
        # within one cycle, recurs happen in enter order
        rec = [(F(e[2]), e[1]) for e in ev if e[0] == 'recur']
        for a, b in zip(rec, rec[1:]):
            if a[0] == b[0] and int(a[1][1:]) >= int(b[1][1:]):
                v('C03/in-cycle-order', inp, [(float(x), y) for x, y in rec])
            if a[0] > b[0]:
                v('C03/tyme-monotone', inp, [(float(x), y) for x, y in rec])
        # ---- C05
        if not raised:
            fin = {}
            for l in leaves:
                exp = expected_recurs(l['script'], tyme0, tock, l['flavour'])
                ends_by_itself = len(l['script']) <= 8
                fin[l['name']] = (exp[-1] if l['flavour'] != 'func' else (exp[-1] if exp else F(tyme0))) if ends_by_itself else None
            all_done_at = None if any(x is None for x in fin.values()) else max(fin.values())
            L = F(limit) if limit else None
            # expected end tyme: the cycle after which deeds are empty, or the first cycle end >= start + L
            cyc = F(tyme0)
            exp_end = None
            exp_done = None
            func_enter_done = all((l['flavour'] == 'func' and not [s for s in l['script'] if s[0] == 'y']) for l in leaves)
            while True:
                endt = cyc + F(tock)
                emptied = all_done_at is not None and cyc >= all_done_at
                if func_enter_done:
                    emptied = True
                if emptied:
                    exp_end, exp_done = endt, True
                    break
                if L and endt >= F(tyme0) + L:
                    exp_end, exp_done = endt, False
                    break
                cyc = endt
                if cyc > 1000:
                    break
            if exp_end is not None and (F(ret[3]) != exp_end or ret[2] != exp_done):
                v('C05/termination', inp, dict(end_tyme=ret[3], done=ret[2]), dict(end_tyme=float(exp_end), done=exp_done))
            for l in leaves:
                r = [s for s in l['script'] if s[0] == 'r']
                d = dones[l['name']]
                finished = fin[l['name']] is not None and (F(ret[3]) - F(tock)) >= fin[l['name']]
                if finished and r:
                    want = r[0][1] if l['flavour'] != 'doer' else True
                    # returned None: the flag keeps whatever falsy value it had; "never True unless a truthy value was returned"
                    if (want is None and d) or (want is not None and d != want):
                        v('C05/done-flag', inp, dict(doer=l['name'], done=d), want)
                elif not finished and d:
                    v('C05/done-true-for-unfinished', inp, dict(doer=l['name'], done=d), False)
        # ---- C04 nesting transparency
        grouped = regroup(rnd, copyspec(leaves))
        ev2, dones2, doist2, _ = run(grouped, tock, tyme0, limit)
        evals += 1
        a, b = leaf_events(ev), leaf_events(ev2)
        ra, rb = [e for e in ev if e[0] == 'RETURN'][0], [e for e in ev2 if e[0] == 'RETURN'][0]
        same_d = {k: v_ for k, v_ in dones.items()} == {k: v_ for k, v_ in dones2.items() if k.startswith('L')}
        if a != b or ra != rb or not same_d:
            # classify against the two recorded findings: (1) a run stopped by an exception (order of forced exits, C02
            # finding) (2) a positive tock yielded after a 0/None yield inside a tock-0 DoDoer (due base is not advanced)
            cls = "other"
            if any(e[0] == 'abort' for e in ev + ev2):
                ia = [k for k, e in enumerate(a) if e[0] == 'abort']
                ib = [k for k, e in enumerate(b) if e[0] == 'abort']
                if ia and ib and a[:ia[0] + 1] == b[:ib[0] + 1]:
                    cls = "exception-run"       # identical up to and including the abort: only the forced exits differ
            if cls == "other":
                for l in leaves:
                    ys = [s_[1] for s_ in l['script'] if s_[0] == 'y']
                    if l['flavour'] == 'func':
                        ys = ys[1:]
                    if any((not y0) and any(y1 for y1 in ys[i + 1:]) for i, y0 in enumerate(ys)):
                        cls = "asap-then-positive-tock"
            i = [k for k, (x, y) in enumerate(zip(b, a)) if x != y]
            v('C04/nested-run-differs', dict(inp, grouping=_shape(grouped), witness_class=cls),
              dict(first_diff=(b[i[0]] if i else 'length'), result=rb, dones=dones2), dict(first_diff=(a[i[0]] if i else 'length'), result=ra, dones=dones))
        for bad in check_lifecycle(ev2, all_names(grouped)):
            v('C01/lifecycle-nested', dict(inp, grouping=_shape(grouped)), bad)
        for bad in check_forced_exit_order(ev2, grouped):
            v('C02/forced-exit-order-nested', dict(inp, grouping=_shape(grouped), witness_class=bad['witness_class']), bad)
        # ---- C30 asyncio run
        if it % 5 == 0:
            ev3, dones3, _, _ = run(copyspec(leaves), tock, tyme0, limit, use_ado=True)
            evals += 1
            if ev3 != ev or dones3 != dones:
                v('C30/ado-differs', inp, ev3[:12], ev[:12])
    return dict(evaluations=evals, distinct_nontrivial=len(distinct), samples=samples, violations=viol,
                rule="random forests of 1..4 scripted doers (Doer/generator-recur/doify flavours), tocks from {None,0,.25,.5,1,1.5,3}, "
                     "scheduler tock in {.25,.5,1,2}, limits {None,.5,2,3.25}; each run natively through Doist.do, regrouped under tock-0 "
                     "DoDoers (C04) and every 5th through Doist.ado (C30); distinct = distinct (forest, tock, tyme, limit) tuples")


def _shape(spec):
    return [(nd['name'] if nd['kind'] == 'leaf' else (nd['name'], _shape(nd['children']))) for nd in spec]


# ----------------------------------------------------------------------------- dynamic extend/remove scenarios (C06)

def run_dynamic(tier='quick', seed=0):
    rnd = random.Random(seed + 17)
    viol, counts, distinct, samples = [], {}, set(), []
    evals = 0
    N = 800 if tier == 'quick' else 12000

    def v(check, inp, observed=None, expected=None, cls=''):
        k_ = (check, cls)
        counts[k_] = counts.get(k_, 0) + 1
        if counts[k_] <= 3:
            viol.append(dict(check=check, input=dict(inp, witness_class=cls), observed=observed, expected=expected))

    for it in range(N):
        n = rnd.randint(2, 4)
        host = rnd.choice(['doist', 'dodoer'])
        spare = ['S0', 'S1', 'S2', 'S3']
        names = ['L%d' % i for i in range(n)]
        leaves = []
        for i in range(n):
            script = []
            for k in range(rnd.randint(1, 5)):
                script.append(('dyn',) if rnd.random() < 0.45 else ('y', rnd.choice([0.0, None, 1.0, 0.5])))
            script.append(('r', True))
            leaves.append(leaf(names[i], script, 'doer'))
        for sp in spare:
            leaves.append(dict(leaf(sp, [('y', rnd.choice([0.0, 1.0]))] * rnd.randint(0, 3) + [('r', True)], 'doer'), detached=True))
        leaves.append(dict(leaf('STRANGER', [('r', True)], 'doer'), detached=True))
        spec = leaves if host == 'doist' else [dd('H', leaves, always=True)]
        inp = dict(host=host, seed=seed, iteration=it, leaves=[(l['name'], l['script']) for l in leaves])
        distinct.add(repr(inp))
        if it < 3:
            samples.append(inp)
        DYN.update(rnd=random.Random(rnd.random()), model=list(names), fresh=list(spare), finished=set())
        ev, dones, doist, world = run(copyspec(spec), 1.0, 0.0, 8.0)
        evals += 1
        sched = doist if host == 'doist' else world['doers']['H']
        dup_targets = {t for e in ev if e[0] == 'ext2-begin' for t in e[2]}

        def dupcls(*ts):
            return 'duplicate-in-one-call' if any(t in dup_targets for t in ts) else ''
        for b in check_lifecycle(ev, names + spare):
            v('C01/lifecycle-dynamic', inp, b, cls=dupcls(b[0]))
        # membership model: added-and-not-removed in insertion order
        model = list(names)
        alive = set(names)
        for i, e in enumerate(ev):
            if e[0] in ('ext-begin', 'ext2-begin'):
                j = [k for k in range(i + 1, len(ev)) if ev[k][0] == e[0].replace('begin', 'end') and ev[k][1] == e[1]][0]
                inside = ev[i + 1:j]
                for t in e[2]:
                    ent = [x for x in inside if x[0] == 'enter' and x[1] == t]
                    if t in model:
                        if ent:
                            v('C06/extend-present-doer-reentered', inp, dict(target=t, window=inside[:6]))
                    else:
                        if len(ent) != 1:
                            cls = 'duplicate-in-one-call' if e[0] == 'ext2-begin' else ''
                            v('C06/extend-enters-immediately-once', inp, dict(target=t, enters=len(ent), window=inside[:6]), cls=cls)
                        model.append(t)
                        rec = [x for x in ev[j:] if x[0] == 'recur' and x[1] == t]
                        if rec and not (rec[0][2] > e[3]):
                            v('C06/extended-doer-recurs-in-same-cycle', inp, dict(target=t, extend_tyme=e[3], first_recur=rec[0][2]))
                        if any(x[0] == 'recur' and x[1] == t for x in inside):
                            v('C06/extended-doer-recurs-in-same-cycle', inp, dict(target=t, extend_tyme=e[3], inside=True))
            elif e[0] == 'rem-begin':
                j = [k for k in range(i + 1, len(ev)) if ev[k][0] == 'rem-end' and ev[k][1] == e[1]][0]
                inside = ev[i + 1:j]
                for t in e[2]:
                    if t not in model:
                        continue
                    model.remove(t)
                    was_alive = any(x[0] == 'enter' and x[1] == t for x in ev[:i]) and not any(x[0] == 'exit' and x[1] == t for x in ev[:i])
                    if t == e[1]:
                        if any(x[1] == t and x[0] in ('cease', 'exit') for x in inside):
                            v('C06/self-removal-closed-while-running', inp, dict(target=t, window=inside[:6]))
                        continue
                    if was_alive:
                        ks = [x[0] for x in inside if x[1] == t]
                        if ks != ['cease', 'exit']:
                            v('C06/removed-doer-not-force-closed-before-return', inp, dict(target=t, window=inside[:6]), cls=dupcls(t))
                    if any(x[0] == 'recur' and x[1] == t for x in ev[j:]) and not any(x[0] == 'enter' and x[1] == t for x in ev[j:]):
                        v('C06/removed-doer-recurs-again', inp, dict(target=t))
        got = [getattr(d, 'vname', '?') for d in sched.doers]
        if got != model:
            extra = [x for x in got if got.count(x) > model.count(x)] + [x for x in model if x not in got]
            v('C06/doers-list-membership', inp, got, model, cls=dupcls(*extra))
        # each doer at most once per cycle
        rec = [(e[2], e[1]) for e in ev if e[0] == 'recur']
        if len(rec) != len(set(rec)):
            twice = [x for x in rec if rec.count(x) > 1]
            v('C06/doer-recurs-twice-in-a-cycle', inp, twice[:4], cls=dupcls(*[x[1] for x in twice]))
    # doers that are EQUAL but not IDENTICAL to one already present: a doized bound method is a new object on every attribute
    # access (w.workDo == w.workDo, w.workDo is not w.workDo); extending with it must do nothing, from outside and from inside a cycle
    from hio.base import doing as _doing
    for host_bm in ("doist", "dodoer"):
        for frm_bm in ("outside", "inside"):
            log_bm = []

            class W:
                @_doing.doize(tock=0.0)
                def workDo(self, tymth=None, tock=0.0, **opts):
                    log_bm.append("enter")
                    try:
                        while True:
                            yield
                            log_bm.append("recur")
                    finally:
                        log_bm.append("exit")
            w = W()
            holder_bm = {}

            @_doing.doize(tock=0.0)
            def ctlDo(tymth=None, tock=0.0, **opts):
                yield
                if frm_bm == "inside":
                    holder_bm["sched_bm"].extend([w.workDo])
                yield
                return True
            if host_bm == "doist":
                sched_bm = _doing.Doist(tock=1.0, real=False, limit=3.0, doers=[w.workDo, ctlDo])
                holder_bm["sched_bm"] = sched_bm
                sched_bm.enter()
                if frm_bm == "outside":
                    sched_bm.extend([w.workDo])
                for _ in range(3):
                    sched_bm.recur()
                ndoers_bm = len(sched_bm.doers)
                sched_bm.exit()
            else:
                dd_bm = _doing.DoDoer(doers=[w.workDo, ctlDo], always=True)
                holder_bm["sched_bm"] = dd_bm
                outer_bm = _doing.Doist(tock=1.0, real=False, limit=3.0, doers=[dd_bm])
                outer_bm.enter()
                if frm_bm == "outside":
                    dd_bm.extend([w.workDo])
                for _ in range(3):
                    outer_bm.recur()
                ndoers_bm = len(dd_bm.doers)
                outer_bm.exit()
            evals += 1
            inp_bm = dict(scenario="extend with an equal-but-not-identical (bound-method) doer", host=host_bm, called_from=frm_bm)
            distinct.add(repr(inp_bm))
            if log_bm.count("enter") != 1 or ndoers_bm != 2:
                v('C06/extend-present-doer-reentered', inp_bm, dict(enters=log_bm.count("enter"), doers=ndoers_bm, recurs=log_bm.count("recur")), dict(enters=1, doers=2))
    # the mirror case (seed C06d): REMOVE with an equal-but-not-identical bound-method doer, from outside or from inside a
    # cycle: the doer is force-closed (exit logged) before remove() returns, never recurs again, and leaves the doers list
    for host_rm in ("doist", "dodoer"):
        for frm_rm in ("outside", "inside"):
            log_rm = []
            seen_rm = {}

            class WR:
                @_doing.doize(tock=0.0)
                def workDo(self, tymth=None, tock=0.0, **opts):
                    log_rm.append("enter")
                    try:
                        while True:
                            yield
                            log_rm.append("recur")
                    finally:
                        log_rm.append("exit")
            wr = WR()
            holder_rm = {}

            def _rm():
                try:
                    holder_rm["s"].remove([wr.workDo, wr.workDo])   # named twice: removed once, no error (repaired defect)
                except ValueError as ex_rm:
                    seen_rm["error"] = repr(ex_rm)
                seen_rm["at_return"] = list(log_rm)
                seen_rm["doers"] = len(holder_rm["s"].doers)

            @_doing.doize(tock=0.0)
            def ctlRmDo(tymth=None, tock=0.0, **opts):
                yield
                if frm_rm == "inside":
                    _rm()
                yield
                yield
                return True
            if host_rm == "doist":
                s_rm = _doing.Doist(tock=1.0, real=False, limit=5.0, doers=[wr.workDo, ctlRmDo])
                holder_rm["s"] = s_rm
                s_rm.enter()
                s_rm.recur()
                if frm_rm == "outside":
                    _rm()
                for _ in range(3):
                    s_rm.recur()
                s_rm.exit()
            else:
                dd_rm = _doing.DoDoer(doers=[wr.workDo, ctlRmDo], always=True)
                holder_rm["s"] = dd_rm
                outer_rm = _doing.Doist(tock=1.0, real=False, limit=5.0, doers=[dd_rm])
                outer_rm.enter()
                outer_rm.recur()
                if frm_rm == "outside":
                    _rm()
                for _ in range(3):
                    outer_rm.recur()
                outer_rm.exit()
            evals += 1
            inp_rm = dict(scenario="remove with an equal-but-not-identical (bound-method) doer", host=host_rm, called_from=frm_rm)
            distinct.add(repr(inp_rm))
            at = seen_rm.get("at_return", [])
            got_rm = dict(closed_at_return=at.count("exit"), doers_after=seen_rm.get("doers"), recurs_after=log_rm.count("recur") - at.count("recur"),
                          exits=log_rm.count("exit"))
            if "error" in seen_rm:
                v('C06/remove-naming-a-doer-twice-raises', inp_rm, seen_rm["error"], "no error, doer removed once")
            elif got_rm != dict(closed_at_return=1, doers_after=1, recurs_after=0, exits=1):
                v('C06/removed-doer-not-closed-or-still-running', inp_rm, got_rm, dict(closed_at_return=1, doers_after=1, recurs_after=0, exits=1))
    return dict(evaluations=evals, distinct_nontrivial=len(distinct), samples=samples, violations=viol,
                rule="random flat Doist / DoDoer(always=True) hosts with 2..4 doers whose scripts call extend/remove (self, siblings, spare, "
                     "duplicates, extend-then-remove in one step) from inside recur; limit 8 cycles")

"""C28 bounded stand-in: serialisation round trips of registered data objects (json / cbor / msgpack), flat and nested one and
two levels, field values from the common representable domain, classes defined with and without `from __future__ import
annotations`; also repeated in one process after a malformed message (state that survives between conversions)."""
import random


def value(rnd, depth=0):
    r = rnd.random()
    if r < 0.12:
        return None
    if r < 0.24:
        return rnd.choice([True, False])
    if r < 0.4:
        return rnd.choice([0, 1, -5, 2 ** 40, 255])
    if r < 0.5:
        return rnd.choice([0.5, -2.25, 1e10])
    if r < 0.7:
        return rnd.choice(["", "abc", "ünï ✓", "a\nb"])
    if depth > 1:
        return "leaf"
    if r < 0.85:
        return [value(rnd, depth + 1) for _ in range(rnd.randint(0, 3))]
    return {rnd.choice(["k", "k2", "ü"]): value(rnd, depth + 1) for _ in range(rnd.randint(0, 2))}


def make(rnd, classes, kind):
    flat = lambda: classes["flat"](a=value(rnd), b=rnd.choice([0, 7, -1, 2 ** 33]), c=rnd.choice(["", "s", "ü✓"]), d=[value(rnd, 1) for _ in range(rnd.randint(0, 2))], e={"k": value(rnd, 1)})   # noqa
    if kind == "flat":
        return flat()
    if kind == "nested":
        return classes["nested"](name=rnd.choice(["n", "ñ"]), inner=flat())
    if kind == "raw":
        return classes["raw"](x=value(rnd), inner=flat())
    if kind == "ice":
        return classes["ice"](a=value(rnd), b=rnd.choice([0, 3]), d=[value(rnd, 1) for _ in range(rnd.randint(0, 2))], e={"k": value(rnd, 1)}, inner=flat())
    return classes["deep"](k=rnd.choice([0.0, 1.5]), mid=classes["nested"](name="m", inner=flat()), flat=flat())


def mutate_in_place(rnd, obj, kind):
    """change the object WITHOUT rebinding a field of the top object (works for frozen ones too); returns what was done"""
    target = obj if kind in ("flat", "ice") else (obj.inner if kind in ("nested", "raw") else obj.flat)
    how = rnd.choice(["append", "setkey", "nested-field"] if kind != "flat" else ["append", "setkey"])
    if how == "append":
        target.d.append(rnd.choice(["late", 9, None]))
    elif how == "setkey":
        target.e["late"] = rnd.choice([1, "x"])
    else:
        inner = obj.inner if kind in ("nested", "raw", "ice") else obj.flat
        inner.b = inner.b + 1
    return how


def run(tier="quick", seed=0):
    from . import c28_plain, c28_future
    rnd = random.Random(seed)
    N = 300 if tier == "quick" else 4000
    viol, counts, distinct, samples = [], {}, set(), []
    evals = 0

    def v(check, inp, obs, exp=None):
        k = (check, inp.get("witness_class", ""))
        counts[k] = counts.get(k, 0) + 1
        if counts[k] <= 2:
            viol.append(dict(check=check, input=inp, observed=obs, expected=exp))
    for it in range(N):
        flavour = rnd.choice(["plain", "future"])
        classes = (c28_plain if flavour == "plain" else c28_future).CLASSES
        kind = rnd.choice(["flat", "nested", "deep", "raw", "ice"])
        obj = make(rnd, classes, kind)
        if it == N // 2:
            # a malformed message in between must not change later conversions (state surviving between calls)
            for cls in list(c28_plain.CLASSES.values()) + list(c28_future.CLASSES.values()):
                for bad in (b'{"inner": 5, "nope": 1}', b'{"mid": {"inner": null}}', b'{"name": "x", "inner": null}', b'{"name": "x", "inner": {"zzz": 1}}',
                            b'{"k": 1.0, "mid": {"name": "m", "inner": 7}, "flat": null}', b'{"x": 1, "inner": "str"}'):
                    try:
                        cls._fromjson(bad)
                    except Exception:   # noqa
                        pass
        inp = dict(flavour=flavour, kind=kind, obj=repr(obj)[:160])
        distinct.add(inp["obj"] + flavour)
        if it < 3:
            samples.append(inp)
        for codec in ("json", "cbor", "mgpk"):
            try:
                ser = getattr(obj, "_as" + codec)()
                back = getattr(type(obj), "_from" + codec)(ser)
            except Exception as ex:   # noqa
                v("C28/roundtrip-raised", dict(inp, codec=codec, witness_class=type(ex).__name__), repr(ex)[:100])
                continue
            evals += 1
            if type(back) is not type(obj) or back != obj:
                cls = "future-annotations-nested" if flavour == "future" and kind != "flat" else ""
                v("C28/roundtrip-not-equal", dict(inp, codec=codec, witness_class=cls), repr(back)[:200], repr(obj)[:200])
        # history: the object was used (serialised above); now it changes IN PLACE and must still round-trip as it is now
        # (a conversion may not answer from anything it remembered about the object)
        if rnd.random() < 0.5:
            try:
                list(obj._asdict().items())
                how = mutate_in_place(rnd, obj, kind)
            except Exception as ex:   # noqa
                how = None
            if how:
                for codec in ("json", "cbor", "mgpk"):
                    try:
                        back = getattr(type(obj), "_from" + codec)(getattr(obj, "_as" + codec)())
                    except Exception as ex:   # noqa
                        v("C28/roundtrip-raised", dict(inp, codec=codec, after=how, witness_class=type(ex).__name__), repr(ex)[:100])
                        continue
                    evals += 1
                    if type(back) is not type(obj) or back != obj:
                        cls = "future-annotations-nested" if flavour == "future" and kind != "flat" else ""
                        v("C28/roundtrip-after-in-place-change-not-equal", dict(inp, codec=codec, after=how, witness_class=cls), repr(back)[:200], repr(obj)[:200])
    return dict(evaluations=evals, distinct_nontrivial=len(distinct), samples=samples, violations=viol,
                rule="random registered data objects (flat / nested / two levels / RawDom) x {json, cbor, msgpack} x {module with, without `from __future__ import annotations`}; "
                     "values: None, bool, small/large ints, floats, str incl. non-ASCII, lists, str-keyed dicts; malformed messages injected mid-run; frozen (Ice) objects; "
                     "half of the objects are changed in place after their first use and converted again")

"""Native replays (CPython, real /repo/src code) of the defects found by the checks.  Each function returns
(violated: bool, description).  Used (a) to show that a failing obligation is a genuine defect of ioflo/hio and
not an artefact of a contract or model, (b) by `check.py --replay`, (c) as regression for `fixed:` entries.
Run one:  PYTHONPATH=/repo/src python -m harness.findings <name>
"""
import errno
import ssl
import sys


class FakeSock:
    """scripted socket: each send/recv call pops an action: int (bytes accepted / delivered count), bytes, or Exception"""

    def __init__(self, script=(), peer=("10.0.0.9", 4000), send_script=None):
        self.script = list(script)                 # recv / do_handshake outcomes
        self.send_script = None if send_script is None else list(send_script)   # None: the kernel accepts everything
        self.closed = False
        self.wire = b""
        self.peer = peer
        self.shut = False

    tls = False

    def _next(self):
        if self.script:
            return self.script.pop(0)
        # a TLS socket reports would-block as SSLWantReadError, never as EAGAIN
        return ssl.SSLWantReadError(ssl.SSL_ERROR_WANT_READ, "want read") if self.tls else BlockingIOError(errno.EAGAIN, "would block")

    def send(self, data):
        if self.send_script is None:
            a = len(data)
        elif self.send_script:
            a = self.send_script.pop(0)
        else:
            a = ssl.SSLWantWriteError(ssl.SSL_ERROR_WANT_WRITE, "want write") if self.tls else BlockingIOError(errno.EAGAIN, "would block")
        if isinstance(a, BaseException):
            raise a
        a = min(a, len(data))
        self.wire += bytes(data[:a])
        return a

    def recv(self, n):
        a = self._next()
        if isinstance(a, BaseException):
            raise a
        if len(a) > n:
            self.script.insert(0, a[n:])       # a stream socket keeps what the caller's buffer did not take
        return a[:n]

    def do_handshake(self):
        a = self._next()
        if isinstance(a, BaseException):
            raise a

    def setblocking(self, f):
        pass

    def shutdown(self, how):
        self.shut = True

    def close(self):
        self.closed = True

    reset = False      # True: the peer has reset the connection, the kernel no longer knows a peer

    def getpeername(self):
        if self.reset:
            raise OSError(errno.ENOTCONN, "Transport endpoint is not connected")
        return self.peer

    def getsockname(self):
        return ("10.0.0.1", 5000)


def _remoter(script, tls=False):
    from hio.core.tcp import serving
    cs = FakeSock(send_script=script)
    rm = serving.Remoter(ha=("10.0.0.1", 5000), ca=("10.0.0.9", 4000), cs=cs)
    return rm, cs


def c10_epipe_escapes_send():
    rm, cs = _remoter([BrokenPipeError(errno.EPIPE, "Broken pipe")])
    rm.tx(b"hello")
    try:
        rm.serviceSends()
    except OSError as ex:
        return True, "Remoter.serviceSends raised %r on EPIPE (connection-level fault escaped servicing)" % (ex,)
    return (not rm.cutoff), "EPIPE handled, cutoff=%s" % rm.cutoff


def c10_epipe_escapes_server_service():
    from hio.core.tcp import serving
    srv = serving.Server(ha=("127.0.0.1", 0))
    a, b = FakeSock([b""], ("10.0.0.9", 4000)), FakeSock([b"x"], ("10.0.0.10", 4001))
    ra = serving.Remoter(ha=("10.0.0.1", 5000), ca=a.peer, cs=a)
    rb = serving.Remoter(ha=("10.0.0.1", 5000), ca=b.peer, cs=b)
    srv.ixes[a.peer], srv.ixes[b.peer] = ra, rb
    ra.tx(b"data")
    a.script = [BlockingIOError(errno.EAGAIN, "x")]
    a.send_script = [BrokenPipeError(errno.EPIPE, "Broken pipe")]
    srv.serviceAccepts = lambda: None
    try:
        srv.service()
    except OSError as ex:
        return True, "Server.service raised %r: EPIPE on one connection stops servicing of the others" % (ex,)
    return False, "Server.service survived EPIPE; cutoff=%s" % ra.cutoff


def c10_ssleof_escapes_tls_receive():
    from hio.core.tcp import serving
    cs = FakeSock([ssl.SSLEOFError(ssl.SSL_ERROR_EOF, "EOF occurred in violation of protocol")])
    rm = serving.RemoterTls.__new__(serving.RemoterTls)
    serving.Remoter.__init__(rm, ha=("10.0.0.1", 5000), ca=("10.0.0.9", 4000), cs=cs)
    rm.connected, rm.aborted = True, False
    try:
        rm.serviceReceives()
    except OSError as ex:
        return True, "RemoterTls.serviceReceives raised %r on TLS EOF (ssl.SSLEOFError class compared with ex.args[0])" % (ex,)
    return (not rm.cutoff), "TLS EOF handled, cutoff=%s" % rm.cutoff


def c12_tymeout_not_passed():
    from hio.core.tcp import serving
    from hio.base import tyming
    srv = serving.Server(ha=("127.0.0.1", 0), tymeout=5.0)
    srv.eha = ("10.0.0.1", 5000)
    cs = FakeSock()
    srv.serviceAccepts = lambda: srv.axes.append((cs, cs.peer))
    srv.serviceAxes()
    rm = srv.ixes[cs.peer]
    return rm.tymeout != 5.0, "server tymeout 5.0 -> remoter.tymeout %r, tymer.duration %r" % (rm.tymeout, rm.tymer.duration)


def c12_tls_traffic_does_not_refresh_idle_timer():
    """RemoterTls.receive / .send overrode the base methods without the refresh: on a TLS server traffic never postponed the
    idle close"""
    from hio.core.tcp import serving
    from hio.base import tyming
    out = []
    for op in ("receive", "send"):
        tymist = tyming.Tymist(tyme=0.0)
        cs = FakeSock([b"hello"])
        wrap = serving.RemoterTls.wrap
        serving.RemoterTls.wrap = lambda self: None      # no TLS wrapping of the scripted socket
        try:
            rm = serving.RemoterTls(ha=("127.0.0.1", 1), ca=("127.0.0.1", 2), cs=cs, tymeout=1.0, tymth=tymist.tymen(), context=None)
        finally:
            serving.RemoterTls.wrap = wrap
        rm.cs = cs
        tymist.tyme = 0.9
        moved = rm.receive() if op == "receive" else rm.send(b"x")
        tymist.tyme = 1.1
        if moved and rm.tymer.expired:
            out.append("%s moved bytes at tyme 0.9 (tymeout 1.0) but the idle timer is expired at 1.1" % op)
    return bool(out), "; ".join(out) or "traffic on a TLS connection restarts its idle timer"


def c11_replaced_connection_left_open():
    from hio.core.tcp import serving
    srv = serving.Server(ha=("127.0.0.1", 0))
    srv.eha = ("10.0.0.1", 5000)
    old, new = FakeSock(), FakeSock()
    pend = [(old, old.peer), (new, new.peer)]
    srv.serviceAccepts = lambda: srv.axes.append(pend.pop(0)) if pend else None
    srv.serviceAxes()
    srv.serviceAxes()
    srv.close()
    return (not old.closed), "socket of the replaced connection closed=%s (shutdown=%s) after Server.close()" % (old.closed, old.shut)


def c11_handshaking_connections_left_open():
    from hio.core.tcp import serving
    srv = serving.ServerTls.__new__(serving.ServerTls)
    serving.Server.__init__(srv, ha=("127.0.0.1", 0))
    srv.cxes = dict()
    cs = FakeSock()
    rm = serving.RemoterTls.__new__(serving.RemoterTls)
    serving.Remoter.__init__(rm, ha=("10.0.0.1", 5000), ca=cs.peer, cs=cs)
    rm.connected, rm.aborted = False, False
    srv.cxes[cs.peer] = rm
    srv.close()
    return (not cs.closed), "socket of a connection still in TLS handshake closed=%s after ServerTls.close()" % cs.closed




def c10_clienttls_handshake_raises():
    from hio.core.tcp import clienting
    cs = FakeSock([ssl.SSLEOFError(ssl.SSL_ERROR_EOF, "EOF")])
    c = clienting.ClientTls.__new__(clienting.ClientTls)
    clienting.Client.__init__(c, ha=("10.0.0.1", 5000))
    c.cs, c.accepted, c._connected = cs, True, False
    try:
        c.serviceConnect()
    except OSError as ex:
        return True, "ClientTls.serviceConnect raised %r when the peer aborted the TLS handshake" % (ex,)
    return False, "handshake abort handled"



def c10_reset_before_first_service_escapes():
    """an accepted connection that its peer reset before Server.serviceAxes looked at it: getpeername() raises ENOTCONN"""
    from hio.core.tcp import serving
    srv = serving.Server(ha=("127.0.0.1", 0))
    srv.eha = ("10.0.0.1", 5000)
    dead, live = FakeSock(), FakeSock(peer=("10.0.0.10", 4001))
    dead.reset = True
    pend = [(dead, dead.peer), (live, live.peer)]
    srv.serviceAccepts = lambda: [srv.axes.append(pend.pop(0)) for _ in range(len(pend))]
    try:
        srv.serviceAxes()
    except OSError as ex:
        return True, "Server.serviceAxes raised %r for a connection reset before its first service; the live one indexed=%s" % (ex, live.peer in srv.ixes)
    ok = live.peer in srv.ixes and dead.closed and dead.peer not in srv.ixes
    return (not ok), "reset connection dropped and closed=%s, live connection indexed=%s" % (dead.closed, live.peer in srv.ixes)


def c10_tls_wirelog_getpeername_escapes():
    """RemoterTls.receive / send asked the socket for its peer to label the wire log AFTER bytes moved: a peer that sent data and
    then reset makes getpeername() raise ENOTCONN out of the service loop (Remoter uses .ca)"""
    from hio.core.tcp import serving

    class WL:
        def writeRx(self, data, who=None):
            pass

        def writeTx(self, data, who=None):
            pass
    out = []
    for op in ("receive", "send"):
        cs = FakeSock([b"hello"])
        cs.reset = True
        wrap = serving.RemoterTls.wrap
        serving.RemoterTls.wrap = lambda self: None
        try:
            rm = serving.RemoterTls(ha=("127.0.0.1", 1), ca=("127.0.0.1", 2), cs=cs, context=None, wl=WL())
        finally:
            serving.RemoterTls.wrap = wrap
        rm.cs = cs
        try:
            rm.receive() if op == "receive" else rm.send(b"x")
        except OSError as ex:
            out.append("%s raised %r" % (op, ex))
    return bool(out), "; ".join(out) or "wire log labelled with the connection's own address"


def c07_backward_step_before_run():
    """clock steps back between Doist construction and do(): MonoTimer.start() does not refresh _last, the first latest()
    sees a retrograde clock and shifts the freshly started period back, so cycles run without waiting"""
    from hio.base import doing
    from hio.help import timing
    import time as real_time
    orig_time, orig_sleep = real_time.time, real_time.sleep
    st = dict(tau=1000.0, off=0.0)
    starts = []

    def ftime():
        st["tau"] += 0.001
        return st["tau"] + st["off"]

    def fsleep(d):
        st["tau"] += max(d, 0.0)

    class W(doing.Doer):
        def recur(self, tyme):
            starts.append(st["tau"])
            return len(starts) >= 4
    doing.time.time, doing.time.sleep, timing.time.time = ftime, fsleep, ftime
    try:
        d = doing.Doist(real=True, tock=1.0, doers=[W()])
        st["off"] -= 5.0            # system clock stepped back 5 s before the run
        t0 = st["tau"]
        d.do()
    finally:
        doing.time.time, doing.time.sleep, timing.time.time = orig_time, orig_sleep, orig_time
    el = [round(s - t0, 3) for s in starts]
    return el[1] < 1.0, "cycle start offsets (s) %r with tock 1.0 after a 5 s backward step before do()" % (el,)


# ---- keep at the very end of the file
FINDINGS = {k: v for k, v in list(globals().items()) if k[:1] == "c" and k[1:3].isdigit() and callable(v)}


def main():
    names = sys.argv[1:] or sorted(FINDINGS)
    rc = 0
    for n in names:
        v, d = FINDINGS[n]()
        print("%s %s: %s" % ("VIOLATED" if v else "holds   ", n, d))
        rc |= 1 if v else 0
    return rc


if __name__ == "__main__":
    sys.exit(main())

"""Native bounded harness for the HTTP properties (C12-C19): real parsers / servers / clients from /repo/src driven
through byte-level fragmentations, scripted fake sockets and WSGI apps.  Bounded stand-in; never counted as proved."""
import itertools
import json
import random

from .findings import FakeSock

CRLF = b"\r\n"


# ----------------------------------------------------------------------------- message corpus

def chunked(body_parts, trailers=None, eol=CRLF):
    out = b""
    for p in body_parts:
        if p:
            out += ("%x" % len(p)).encode() + CRLF + p + CRLF
    out += b"0" + CRLF
    for k, v in (trailers or []):
        out += k + b": " + v + eol
    out += eol
    return out


def gen_request(rnd):
    eol = rnd.choice([CRLF, CRLF, CRLF, b"\n"])
    method = rnd.choice([b"GET", b"POST", b"PUT", b"HEAD"])
    path = rnd.choice([b"/", b"/a/b", b"/echo?x=1&y=two", b"/p%20q", b"http://example.com:8080/abs?q=1"])
    ver = rnd.choice([b"HTTP/1.1", b"HTTP/1.1", b"HTTP/1.0"])
    hdrs = [(b"Host", b"example.com")]
    for _ in range(rnd.randint(0, 3)):
        hdrs.append(rnd.choice([(b"Accept", b"*/*"), (b"X-A", b"va lue"), (b"Connection", b"close"), (b"Connection", b"keep-alive"),
                                (b"Content-Type", b"application/json; charset=utf-8"), (b"X-Colon", b"a: b")]))
    kind = rnd.choice(["none", "length", "chunked", "chunked-trailers"])
    body = b""
    if kind == "length":
        payload = rnd.choice([b"", b"hello", b'{"a": 1}', b"line1\nline2", bytes(range(1, 40))])
        hdrs.append((b"Content-Length", str(len(payload)).encode()))
        body = payload
    elif kind.startswith("chunked"):
        parts = [rnd.choice([b"abc", b"0123456789abcdef", b"x"]) for _ in range(rnd.randint(0, 3))]
        hdrs.append((b"Transfer-Encoding", b"chunked"))
        body = chunked(parts, [(b"X-Trail", b"t1")] if kind.endswith("trailers") else None, eol if eol == CRLF else CRLF)
    head = method + b" " + path + b" " + ver + eol + b"".join(k + b": " + v + eol for k, v in hdrs) + eol
    return head + body, dict(eol=eol, kind=kind)


def gen_response(rnd):
    eol = rnd.choice([CRLF, CRLF, CRLF, b"\n"])
    status = rnd.choice([b"200 OK", b"404 Not Found", b"204 No Content", b"301 Moved"])
    hdrs = [(b"Server", b"t")]
    if rnd.random() < 0.3:
        hdrs.append((b"Connection", b"close"))
    kind = rnd.choice(["length", "length", "chunked", "chunked-trailers", "close-delimited"])
    body = b""
    if kind == "length":
        payload = rnd.choice([b"", b"hello", b'{"a": 1}', b"l1\nl2", bytes(range(1, 30))])
        hdrs.append((b"Content-Length", str(len(payload)).encode()))
        body = payload
    elif kind.startswith("chunked"):
        parts = [rnd.choice([b"abc", b"0123456789abcdef", b"x"]) for _ in range(rnd.randint(0, 3))]
        hdrs.append((b"Transfer-Encoding", b"chunked"))
        body = chunked(parts, [(b"X-Trail", b"t1")] if kind.endswith("trailers") else None)
    else:
        body = rnd.choice([b"tail bytes", b"abc"])
    head = b"HTTP/1.1 " + status + eol + b"".join(k + b": " + v + eol for k, v in hdrs) + eol
    return head + body, dict(eol=eol, kind=kind)


def partitions(rnd, data, tier):
    n = len(data)
    yield [data]
    yield [data[i:i + 1] for i in range(n)]                      # 1-byte reads
    cuts = range(1, n) if tier != "quick" or n < 90 else rnd.sample(range(1, n), 60)
    for c in cuts:
        yield [data[:c], data[c:]]
    for _ in range(6 if tier == "quick" else 40):
        k = rnd.randint(2, 5)
        cs = sorted(rnd.sample(range(1, n), min(k, n - 1))) if n > 2 else []
        parts, last = [], 0
        for c in cs:
            parts.append(data[last:c])
            last = c
        parts.append(data[last:])
        yield parts


# ----------------------------------------------------------------------------- C13 parse results

class FakeRemoter:
    def __init__(self):
        self.tymeout = 1.0
        self.ca = ("10.0.0.9", 4000)


def parse_request(frags, close_after=False):
    from hio.core.http import serving
    msg = bytearray()
    rq = serving.Requestant(msg=msg, remoter=FakeRemoter())
    err = None
    try:
        for f in frags:
            msg.extend(f)
            for _ in range(3):
                if rq.parser:
                    rq.parse()
        for _ in range(3):
            if rq.parser:
                rq.parse()
    except Exception as ex:   # noqa
        err = type(ex).__name__
    return dict(ended=rq.ended, errored=rq.errored, error=bool(rq.error), exc=err, method=rq.method, url=getattr(rq, "url", None),
                version=rq.version, headers=sorted((k.lower(), v) for k, v in rq.headers.items()) if rq.headers is not None else None,
                body=bytes(rq.body), chunked=rq.chunked, length=rq.length if rq.ended else None, persisted=rq.persisted if rq.ended else None,
                trails=sorted((k.lower(), v) for k, v in (rq.trails or {}).items()) if getattr(rq, "trails", None) else [],
                rest=bytes(msg) if rq.ended else None)


def parse_response(frags, close_at_end=True, method="GET"):
    from hio.core.http import clienting
    msg = bytearray()
    rp = clienting.Respondent(msg=msg, method=method)
    err = None
    try:
        for f in frags:
            msg.extend(f)
            for _ in range(3):
                if rp.parser:
                    rp.parse()
        if close_at_end:
            rp.close()
        for _ in range(3):
            if rp.parser:
                rp.parse()
    except Exception as ex:   # noqa
        err = type(ex).__name__
    return dict(ended=rp.ended, errored=rp.errored, exc=err, status=rp.status, reason=rp.reason,
                headers=sorted((k.lower(), v) for k, v in rp.headers.items()) if rp.headers is not None else None,
                body=bytes(rp.body), chunked=rp.chunked, persisted=rp.persisted if rp.ended else None,
                trails=sorted((k.lower(), v) for k, v in (rp.trails or {}).items()) if getattr(rp, "trails", None) else [])


def classify_c13(data, meta):
    """terminator-precedence pattern: bare-LF line endings with a CRLF somewhere later in the bytes (or the reverse mix).
    Repaired in /repo by fa9054b; no known finding lists this class any more, so a recurrence is reported as a violation."""
    if meta["eol"] == b"\n" and b"\r\n" in data:
        return "terminator-precedence"
    return ""


def run_c13(rnd, tier, v, stats):
    N = 60 if tier == "quick" else 600
    for it in range(N):
        side = rnd.choice(["request", "response"])
        data, meta = gen_request(rnd) if side == "request" else gen_response(rnd)
        fn = parse_request if side == "request" else parse_response
        ref = fn([data])
        stats["distinct"].add(data)
        if it < 2:
            stats["samples"].append(dict(side=side, message=data.decode("latin-1")[:120]))
        for parts in partitions(rnd, data, tier):
            got = fn(parts)
            stats["evals"] += 1
            if got != ref:
                diff = [k for k in ref if ref[k] != got[k]]
                v("C13/fragmentation-changes-result", dict(side=side, message=data.decode("latin-1"), cuts=[len(p) for p in parts][:12],
                                                           witness_class=classify_c13(data, meta)),
                  {k: got[k] for k in diff}, {k: ref[k] for k in diff})
                break
        if side == "response" and meta["kind"] != "close-delimited":
            # pipelined: two messages back to back parse as the first, leaving the second untouched (server side only checks `rest`)
            pass
        if side == "request" and ref["ended"] and not ref["exc"]:
            data2, _ = gen_request(rnd)
            both = parse_request([data + data2])
            stats["evals"] += 1
            if both["rest"] != data2 or {k: both[k] for k in both if k != "rest"} != {k: ref[k] for k in ref if k != "rest"}:
                v("C13/pipelined-second-message-disturbs-first", dict(message=(data + data2).decode("latin-1"), witness_class=classify_c13(data + data2, meta)),
                  both["rest"], data2)


# ----------------------------------------------------------------------------- C17 chunked coding

def run_c17(rnd, tier, v, stats):
    from hio.core.http import httping
    # one parser object, several chunked messages in a row (a keep-alive connection): each message's trailers are ITS trailers
    from hio.core.http import clienting as _cl
    for it in range(10 if tier == "quick" else 100):
        msg = bytearray()
        rp = _cl.Respondent(msg=msg, method="GET")
        seq = [rnd.choice([None, {"X-T": "t%d" % k}, {"X-A": "a", "X-B": "b%d" % k}]) for k in range(rnd.randint(2, 4))]
        got = []
        try:
            for k, tr in enumerate(seq):
                data = b"HTTP/1.1 200 OK\r\nTransfer-Encoding: chunked\r\n\r\n2\r\nab\r\n0\r\n" + b"".join(("%s: %s\r\n" % kv).encode() for kv in (tr or {}).items()) + b"\r\n"
                cut = rnd.randrange(1, len(data))
                for part in (data[:cut], data[cut:]):
                    msg.extend(part)
                    rp.parse()
                rp.parse()
                got.append({k_: v_ for k_, v_ in (rp.trails or {}).items()})
                rp.makeParser()
        except Exception as ex:   # noqa
            v("C17/chunked-sequence-raised", dict(trailers=seq), repr(ex)[:100])
            continue
        stats["evals"] += 1
        exp = [dict(t or {}) for t in seq]
        if [{k_.lower(): v_ for k_, v_ in g_.items()} for g_ in got] != [{k_.lower(): v_ for k_, v_ in e_.items()} for e_ in exp]:
            v("C17/trailers-of-another-message-reported", dict(trailers=seq), got, exp)
    N = 150 if tier == "quick" else 2000
    for it in range(N):
        body = bytes(rnd.randrange(256) for _ in range(rnd.choice([0, 1, 5, 17, 64])))
        cuts = sorted(rnd.sample(range(1, len(body)), min(rnd.randint(0, 3), max(len(body) - 1, 0)))) if len(body) > 1 else []
        chunks, last = [], 0
        for c in cuts:
            chunks.append(body[last:c])
            last = c
        chunks.append(body[last:])
        chunks = [c for c in chunks if c]
        trailers = rnd.choice([[], [(b"X-T", b"v")], [(b"A", b"1"), (b"B", b"2")]])
        wire = b"".join(httping.packChunk(c) for c in chunks) + b"0\r\n" + b"".join(k + b": " + v_ + b"\r\n" for k, v_ in trailers) + b"\r\n"
        stats["distinct"].add(wire)
        for parts in itertools.islice(partitions(rnd, wire, "quick"), 0, 40):
            raw = bytearray()
            got, trails = b"", None
            err = None
            try:
                feed = list(parts)
                done = False
                while not done:
                    p = httping.parseChunk(raw)
                    while True:
                        r = next(p)
                        if r is not None:
                            break
                        if not feed:
                            raise AssertionError("starved")
                        raw.extend(feed.pop(0))
                    size, parms, tr, chunk = r
                    got += bytes(chunk)
                    if size == 0:
                        trails = sorted((k.lower(), v_) for k, v_ in tr.items())
                        done = True
                rest = bytes(raw) + b"".join(feed)
            except Exception as ex:   # noqa
                err = repr(ex)
            stats["evals"] += 1
            exp_tr = sorted((k.decode().lower(), v_.decode()) for k, v_ in trailers)
            if err or got != body or trails != exp_tr:
                v("C17/chunked-decode-not-exact", dict(chunks=[c.hex() for c in chunks], trailers=[(k.decode(), x.decode()) for k, x in trailers], cuts=[len(p) for p in parts][:10]),
                  dict(body=got.hex(), trails=trails, err=err), dict(body=body.hex(), trails=exp_tr))
                break
    # invalid chunk sizes must be reported as errors, never reinterpreted
    for bad in [b"+5", b"-0", b"0x1f", b"0X5", b"1_0", b" +3", b"-5", b"5 5", b"", b"g", b"0x", b"+", b"\xb2"]:
        raw = bytearray(bad + b"\r\nhello\r\n0\r\n\r\n")
        try:
            r = next(httping.parseChunk(raw))
            stats["evals"] += 1
            if r is not None:
                v("C17/invalid-chunk-size-accepted", dict(size_field=bad.decode("latin-1"), witness_class="int-base16-language"), r[0], "error")
        except Exception:   # noqa
            pass
    # chunk extensions
    raw = bytearray(b"5;name=val;flag\r\nhello\r\n0\r\n\r\n")
    try:
        r = next(httping.parseChunk(raw))
        stats["evals"] += 1
        if r is None or bytes(r[3]) != b"hello":
            v("C17/chunk-extension-breaks-decode", dict(wire="5;name=val;flag", witness_class="chunk-extension"), repr(r))
    except Exception as ex:   # noqa
        v("C17/chunk-extension-breaks-decode", dict(wire="5;name=val;flag", witness_class="chunk-extension"), repr(ex))


# ----------------------------------------------------------------------------- C16 robustness of the service loops

NEAR_VALID = [
    b"GET / HTTP/1.1\r\nHost:x\r\n\r\n", b"GET / HTTP/1.1\r\nNoColonHere\r\n\r\n", b"GET http://h:99999/ HTTP/1.1\r\n\r\n",
    b"GET http://[::1/ HTTP/1.1\r\n\r\n", b"POST / HTTP/1.1\r\nTransfer-Encoding: chunked\r\n\r\nzz\r\nhello\r\n0\r\n\r\n",
    b"POST / HTTP/1.1\r\nTransfer-Encoding: chunked\r\n\r\n-5\r\nhello\r\n", b"POST / HTTP/1.1\r\nTransfer-Encoding: chunked\r\n\r\n5\r\nhelloXX\r\n0\r\n\r\n",
    b"POST / HTTP/1.1\r\nTransfer-Encoding: chunked\r\n\r\n\xff\r\n", b"GET /\r\n\r\n", b"\r\n\r\n", b"GARBAGE", b"GET / HTTP/9.9\r\n\r\n",
    b"POST / HTTP/1.1\r\nContent-Length: -5\r\n\r\n", b"POST / HTTP/1.1\r\nContent-Length: abc\r\n\r\nxyz", b"POST / HTTP/1.1\r\nContent-Length: \xb2\r\n\r\n",
    b"GET / HTTP/1.1\r\n" + b"A" * 70000 + b"\r\n\r\n", b"GET " + b"/" * 70000, b"GET / HTTP/1.1\r\n" + b"".join(b"H%d: v\r\n" % i for i in range(150)) + b"\r\n",
    b"\x00\x01\x02\xff\xfe", b"GET / HTTP/1.1\r\nHost: \xff\xfe\r\n\r\n", b"GET /\xff HTTP/1.1\r\n\r\n", b"POST / HTTP/1.1\r\nTransfer-Encoding: chunked\r\n\r\n5;a=b\r\nhello\r\n0\r\n\r\n",
    b"POST / HTTP/1.1\r\nTransfer-Encoding: chunked\r\n\r\n0\r\nBadTrailer\r\n\r\n",
    # a url that only becomes invalid once unquoted; a JSON body nested deeper than the interpreter's recursion limit
    b"GET http://%5B/ HTTP/1.1\r\n\r\n", b"GET /%5B::1 HTTP/1.1\r\nHost: h\r\n\r\n",
    b"POST / HTTP/1.1\r\nContent-Type: application/json\r\nContent-Length: 100000\r\n\r\n" + b"[" * 100000,
]
NEAR_VALID_RESP = [
    b"HTTP/1.1 200 OK\r\nNoColon\r\n\r\n", b"HTTP/1.1 abc OK\r\n\r\n", b"HTTP/1.1 99 X\r\n\r\n", b"HTTP/1.1 1000 X\r\n\r\n", b"BAD\r\n\r\n", b"HTTP/1.1 200 OK\r\nContent-Length: -3\r\n\r\n",
    b"HTTP/1.1 200 OK\r\nContent-Length: zz\r\n\r\nabc", b"HTTP/1.1 200 OK\r\nTransfer-Encoding: chunked\r\n\r\nzz\r\n", b"HTTP/1.1 200 OK\r\nTransfer-Encoding: chunked\r\n\r\n3\r\nabcXX",
    b"HTTP/1.1 200 OK\r\nTransfer-Encoding: chunked\r\n\r\n\xff\r\n", b"HTTP/1.1 200 OK\r\n" + b"A" * 70000, b"\xff\xfe\x00", b"HTTP/1.1 301 Moved\r\nLocation: http://[::1/x\r\n\r\n",
    b"HTTP/1.1 200 OK\r\nContent-Type: application/json\r\nContent-Length: 3\r\n\r\n{{{", b"HTTP/1.1 200 OK\r\nContent-Type: text/event-stream\r\n\r\nretry: x\n\ndata: \xff\n\n",
    # event-stream fields with values that look numeric but are not (superscript two is a digit, int() rejects it), an over-long number,
    # signs and blanks, NUL in an id, a field without a name; a JSON body nested deeper than the recursion limit
    b"HTTP/1.1 200 OK\r\nContent-Type: text/event-stream\r\n\r\nretry: \xc2\xb2\n\ndata: a\n\n", b"HTTP/1.1 200 OK\r\nContent-Type: text/event-stream\r\n\r\nretry: " + b"9" * 5000 + b"\n\ndata: a\n\n",
    b"HTTP/1.1 200 OK\r\nContent-Type: text/event-stream\r\n\r\nretry: -1\nretry: +5\nretry:  7 \nretry: 1_0\nretry: \xd9\xa3\n\ndata: a\n\n",
    b"HTTP/1.1 200 OK\r\nContent-Type: text/event-stream\r\n\r\nid: a\x00b\n:\n: c\n=\ndata\ndata: a\n\n",
    b"HTTP/1.1 200 OK\r\nContent-Type: application/json\r\nContent-Length: 100000\r\n\r\n" + b"[" * 100000,
    # interim responses before the final one (valid; the client must simply go on)
    b"HTTP/1.1 100 Continue\r\n\r\nHTTP/1.1 200 OK\r\nContent-Length: 2\r\n\r\nok", b"HTTP/1.1 100 Continue\r\nX: y\r\n\r\nHTTP/1.1 100 Continue\r\n\r\nHTTP/1.1 204 No Content\r\n\r\n",
]


def make_http_server(app=None, n=1, bare=False):
    from hio.core import tcp
    from hio.core.http import serving
    servant = tcp.Server(ha=("127.0.0.1", 0))
    servant.eha = ("10.0.0.1", 5000)       # FakeSock.getsockname()
    servant.serviceAccepts = lambda: None
    socks = []
    for i in range(n):
        cs = FakeSock([], ("10.0.0.%d" % (9 + i), 4000 + i))
        rm = tcp.Remoter(ha=("127.0.0.1", 8080), ca=cs.peer, cs=cs)
        servant.ixes[cs.peer] = rm
        socks.append(cs)
    if bare:
        srv = serving.BareServer(servant=servant)
    else:
        srv = serving.Server(servant=servant, app=app or simple_app)
    return srv, servant, socks


def simple_app(environ, start_response):
    start_response("200 OK", [("Content-Type", "text/plain"), ("Content-Length", "2")])
    return [b"ok"]


def raise_site(ex):
    """ExceptionType@innermost-hio-function: a witness class that names WHERE the service loop raised, so that a recorded finding
    does not absorb a different escape of the same exception type"""
    import traceback
    fr = [f for f in traceback.extract_tb(ex.__traceback__) if "/hio/" in f.filename.replace("\\", "/")]
    return "%s@%s" % (type(ex).__name__, fr[-1].name if fr else "?")


def run_c16(rnd, tier, v, stats):
    corpus = list(NEAR_VALID)
    for _ in range(40 if tier == "quick" else 600):
        base, _m = gen_request(rnd)
        b = bytearray(base)
        for _k in range(rnd.randint(1, 3)):
            if b:
                i = rnd.randrange(len(b))
                op = rnd.random()
                if op < 0.4:
                    b[i] = rnd.randrange(256)
                elif op < 0.7:
                    del b[i]
                else:
                    b.insert(i, rnd.choice(b"\r\n: ;=-+x_\xff"))
        corpus.append(bytes(b))
    for data in corpus:
        for bare in (False, True):
            srv, servant, socks = make_http_server(n=2, bare=bare)
            bad, good = socks
            cutat = rnd.choice([len(data), max(1, len(data) // 2)])
            bad.script = [data[:cutat], data[cutat:]] if cutat < len(data) else [data]
            good.script = [b"GET /fine HTTP/1.1\r\nHost: a\r\n\r\n"]
            stats["evals"] += 1
            stats["distinct"].add(data)
            try:
                for _ in range(6 + len(data) // 4000):       # (a long request needs one pass per receive buffer)
                    srv.service()
            except Exception as ex:   # noqa
                cls = "bareserver-dict-mutation" if bare and type(ex) in (RuntimeError, KeyError) else raise_site(ex)
                v("C16/server-service-raises" + ("-bare" if bare else ""), dict(bytes=data[:80].decode("latin-1"), witness_class=cls), repr(ex)[:120])
                continue
            if not bare and b"200 OK" not in good.wire:
                v("C16/other-connection-not-served", dict(bytes=data[:80].decode("latin-1")), good.wire[:60])
    # client side
    from hio.core.http import clienting
    from hio.core import tcp
    for data in NEAR_VALID_RESP + [gen_response(rnd)[0][:rnd.randint(1, 60)] + bytes([rnd.randrange(256)]) for _ in range(30)]:
        cs = FakeSock([data, b""])
        conn = tcp.Client(ha=("127.0.0.1", 8080))
        conn.cs, conn.accepted = cs, True
        cl = clienting.Client(connector=conn)
        stats["evals"] += 1
        try:
            cl.request(method="GET", path="/x")
            for _ in range(6 + len(data) // 4000):
                cl.service()
        except Exception as ex:   # noqa
            v("C16/client-service-raises", dict(bytes=data[:80].decode("latin-1"), witness_class=raise_site(ex)), repr(ex)[:120])


def run_for(pid, tier="quick", seed=0):
    rnd = random.Random(seed)
    viol, counts = [], {}
    stats = dict(evals=0, distinct=set(), samples=[])

    def v(check, inp, observed=None, expected=None):
        k = (check, inp.get("witness_class", "") if isinstance(inp, dict) else "")
        counts[k] = counts.get(k, 0) + 1
        if counts[k] <= 2:
            viol.append(dict(check=check, input=inp, observed=observed, expected=expected))
    import contextlib
    import io
    with contextlib.redirect_stderr(io.StringIO()):      # the servers report rejected requests on sys.stderr
        RUNNERS[pid](rnd, tier, v, stats)
    return dict(evaluations=stats["evals"], distinct_nontrivial=len(stats["distinct"]), samples=stats["samples"][:3] or [dict(note="see rule")],
                violations=viol, rule="generated HTTP messages x (whole, 1-byte, every 2-way, random k-way) fragmentations; near-valid/mutated byte strings "
                "through the real service loops on fake sockets", note="native CPython; bounded; not counted as proved")


# ----------------------------------------------------------------------------- strict response-stream parser (independent oracle)

def strict_parse_responses(wire, closed):
    """parse a byte stream of HTTP/1.1 responses strictly; returns list of dict(status, headers, body, framing) or raises ValueError"""
    out = []
    i = 0
    n = len(wire)
    while i < n:
        j = wire.find(b"\r\n\r\n", i)
        if j < 0:
            raise ValueError("incomplete head at %d" % i)
        lines = wire[i:j].split(b"\r\n")
        sl = lines[0].split(b" ", 2)
        if len(sl) < 2 or not sl[0].startswith(b"HTTP/1.") or not sl[1].isdigit():
            raise ValueError("bad status line %r" % lines[0][:40])
        hdrs = []
        for ln in lines[1:]:
            k, sep, val = ln.partition(b": ")
            if not sep:
                raise ValueError("bad header %r" % ln[:40])
            hdrs.append((k.decode("latin-1").lower(), val.decode("latin-1")))
        hd = dict(hdrs)
        i = j + 4
        if hd.get("transfer-encoding") == "chunked":
            body = b""
            while True:
                k = wire.find(b"\r\n", i)
                if k < 0:
                    raise ValueError("incomplete chunk size")
                sz = wire[i:k].split(b";")[0]
                if not sz or any(c not in b"0123456789abcdefABCDEF" for c in sz):
                    raise ValueError("bad chunk size %r" % sz[:20])
                sz = int(sz, 16)
                i = k + 2
                if sz == 0:
                    k2 = wire.find(b"\r\n", i)
                    if k2 != i:
                        raise ValueError("trailers/terminator missing after last chunk")
                    i = k2 + 2
                    break
                if i + sz + 2 > n or wire[i + sz:i + sz + 2] != b"\r\n":
                    raise ValueError("chunk data not followed by CRLF")
                body += wire[i:i + sz]
                i += sz + 2
            framing = "chunked"
        elif "content-length" in hd:
            cl = int(hd["content-length"])
            if i + cl > n:
                raise ValueError("body shorter than content-length")
            body = wire[i:i + cl]
            i += cl
            framing = "length"
        else:
            body = wire[i:]
            i = n
            framing = "until-close"
        out.append(dict(status=b" ".join(sl[1:]).decode("latin-1"), headers=hdrs, body=body, framing=framing))
    return out


# ----------------------------------------------------------------------------- C18

def make_app(specs):
    def app(environ, start_response):
        idx = int(environ["PATH_INFO"].strip("/") or 0)
        sp = specs[idx]
        if sp.get("err"):
            from hio.core.http import httping
            if sp["gen"]:
                def ge():
                    yield b""
                    raise httping.HTTPError(sp["err"], title="Denied", detail="not for you")
                return ge()
            raise httping.HTTPError(sp["err"], title="Denied", detail="not for you")
        if sp.get("restart"):
            # WSGI: start_response may be called again with exc_info before any body byte went out; the LAST call counts
            start_response("500 Oops", [("Content-Type", "text/plain"), ("Content-Length", "5")])
            start_response(sp["status"], list(sp["headers"]), (ValueError, ValueError("late"), None))
        else:
            start_response(sp["status"], list(sp["headers"]))
        if sp["gen"]:
            def g():
                for p in sp["pieces"]:
                    yield p
            return g()
        return list(sp["pieces"])
    return app


def run_c18(rnd, tier, v, stats):
    N = 120 if tier == "quick" else 1500
    # the shape the Responder.write contract assumes for httping.packChunk (contracts/http_responder.py: HEX(len) CRLF msg CRLF)
    from hio.core.http import httping as _h
    for m in (b"", b"a", b"\r\n", b"x" * 15, b"y" * 16, b"z" * 255, b"w" * 4096, bytes(range(256))):
        stats["evals"] += 1
        if _h.packChunk(m) != b"%x\r\n" % len(m) + m + b"\r\n":
            v("C18/packChunk-shape-assumed-by-the-write-contract", dict(msg=m[:20].hex(), n=len(m)), _h.packChunk(m)[:40].hex(), None)
    for it in range(N):
        nreq = rnd.randint(1, 4)
        specs, reqs = [], []
        for k in range(nreq):
            pieces = [rnd.choice([b"", b"aaa", b"bb", b"0123456789", b"x" * 40]) for _ in range(rnd.randint(0, 4))]
            total = b"".join(pieces)
            hdrs = [("Content-Type", "text/plain")]
            clmode = rnd.choice(["none", "none", "exact", "short"])
            cl = None
            if clmode == "exact":
                cl = len(total)
            elif clmode == "short" and len(total) > 1:
                cl = len(total) - 1
            if cl is not None:
                hdrs.append(("Content-Length", str(cl)))
            specs.append(dict(status=rnd.choice(["200 OK", "404 Not Found", "201 Created"]), headers=hdrs, pieces=pieces, gen=rnd.random() < 0.5, cl=cl, restart=rnd.random() < 0.15))
            if rnd.random() < 0.12:      # the application raises hio's HTTPError before any body byte: the server builds the error response itself
                from hio.core.http import httping as _hh
                e = _hh.HTTPError(403, title="Denied", detail="not for you")
                body = e.render()
                specs[-1].update(err=403, gen=True, status="%s %s" % (e.status, e.reason), pieces=[body], cl=len(body), errhdr=True)
            ver = rnd.choice(["1.1", "1.1", "1.1", "1.0"])
            conn = rnd.choice([None, None, "close", "keep-alive"])
            last = k == nreq - 1
            if not last:
                # earlier requests must be persistent, otherwise the server closes and later ones are never read
                ver, conn = ("1.1", rnd.choice([None, "keep-alive"])) if rnd.random() < 0.8 else ("1.0", "keep-alive")
            persistent = (ver == "1.1" and conn != "close") or (ver == "1.0" and conn == "keep-alive")
            reqs.append(dict(bytes=("GET /%d HTTP/%s\r\nHost: t\r\n%s\r\n" % (k, ver, ("Connection: %s\r\n" % conn) if conn else "")).encode(), ver=ver, persistent=persistent))
        pipelined = rnd.random() < 0.5
        srv, servant, socks = make_http_server(app=make_app(specs), n=1)
        cs = socks[0]
        inp = dict(requests=[(r["ver"], r["persistent"]) for r in reqs], pipelined=pipelined,
                   apps=[dict(status=s["status"], cl=s["cl"], pieces=[len(p) for p in s["pieces"]], gen=s["gen"], restart=bool(s.get("restart"))) for s in specs])
        stats["distinct"].add(repr(inp))
        if it < 2:
            stats["samples"].append(inp)
        try:
            if pipelined:
                cs.script = [b"".join(r["bytes"] for r in reqs)]
                for _ in range(12 + 6 * nreq):
                    srv.service()
            else:
                for r in reqs:
                    cs.script.append(r["bytes"])
                    for _ in range(12):
                        srv.service()
        except Exception as ex:   # noqa
            v("C18/server-raised", inp, repr(ex)[:160])
            continue
        stats["evals"] += 1
        closed = cs.closed
        try:
            got = strict_parse_responses(bytes(cs.wire), closed)
        except ValueError as ex:
            v("C18/response-stream-not-parseable", dict(inp, witness_class=_c18_class(reqs, specs)), str(ex), None)
            continue
        if len(got) != nreq:
            v("C18/response-count", dict(inp, witness_class=_c18_class(reqs, specs)), len(got), nreq)
            continue
        for k, (g, sp, rq) in enumerate(zip(got, specs, reqs)):
            total = b"".join(sp["pieces"])
            exp_body = total if sp["cl"] is None else total[:sp["cl"]]
            last = k == nreq - 1
            if g["status"] != sp["status"] or g["body"] != exp_body:
                v("C18/response-differs-from-app-output", dict(inp, index=k, witness_class=_c18_class(reqs, specs)), dict(status=g["status"], body=g["body"][:40]), dict(status=sp["status"], body=exp_body[:40]))
                break
            if dict(g["headers"]).get("content-type") != "text/plain" and not sp.get("err"):
                v("C18/app-header-lost", dict(inp, index=k), g["headers"])
            if g["framing"] == "until-close" and (not last or rq["persistent"]):
                v("C18/not-self-delimiting-on-open-connection", dict(inp, index=k, witness_class=_c18_class(reqs, specs)), g["framing"])
                break
        want_closed = not reqs[-1]["persistent"]
        if closed != want_closed:
            v("C18/close-decision", dict(inp, witness_class=_c18_class(reqs, specs)), dict(closed=closed), dict(closed=want_closed))


def _c18_class(reqs, specs):
    # recorded finding: on a reused connection chunkable is lost (reset sets it to None), so 2nd+ responses without
    # Content-Length are neither chunked nor length delimited
    if any(r["ver"] == "1.0" and r["persistent"] and s["cl"] is None for r, s in zip(reqs, specs)):
        return "http10-keepalive-without-length"      # HTTP/1.0 cannot be chunked; the server keeps the connection open anyway
    if len(reqs) > 1 and any(s["cl"] is None for s in specs[1:]):
        return "reused-connection-loses-chunkable"
    return ""


# ----------------------------------------------------------------------------- C19

def run_c19(rnd, tier, v, stats):
    from hio.core.http import clienting
    from hio.core import tcp
    N = 120 if tier == "quick" else 1500
    for it in range(N):
        nreq = rnd.randint(1, 5)
        reqs = [dict(method=rnd.choice(["GET", "POST", "PUT", "HEAD", "GET"]), path="/r%d" % k, body=rnd.choice([None, b"payload%d" % k])) for k in range(nreq)]
        cs = FakeSock([])
        conn = tcp.Client(ha=("127.0.0.1", 8080))
        conn.cs, conn.accepted = cs, True
        cl = clienting.Client(connector=conn)
        for r in reqs:
            cl.request(method=r["method"], path=r["path"], body=r["body"])
        inp = dict(requests=[(r["method"], r["path"]) for r in reqs], mode=None)
        mode = rnd.choice(["immediate", "delayed", "fragmented"])
        inp["mode"] = mode
        stats["distinct"].add(repr(inp))
        if it < 2:
            stats["samples"].append(inp)
        seen_requests = []
        inflight_max = 0
        collected = []
        ok = True
        try:
            for step in range(40 * nreq):
                cl.service()
                # the fake server: parse complete requests that arrived on the wire, answer the oldest after a delay
                wire = bytes(cs.wire)
                cnt = wire.count(b" HTTP/1.1\r\n")
                while len(seen_requests) < cnt:
                    seen_requests.append(step)
                answered = len(collected) + len(cl.responses)
                pending = len(seen_requests) - getattr(cs, "served", 0)
                inflight_max = max(inflight_max, len(seen_requests) - (len(collected) + len(cl.responses)))
                if pending > 0 and (mode != "delayed" or step - seen_requests[cs.__dict__.get("served", 0)] >= 3):
                    k = cs.__dict__.get("served", 0)
                    m = reqs[k]["method"]
                    body = b"" if m == "HEAD" else ("resp-%d" % k).encode()
                    resp = b"HTTP/1.1 200 OK\r\nContent-Length: %d\r\nX-Idx: %d\r\n\r\n" % (len(("resp-%d" % k).encode()), k) + body
                    if mode == "fragmented":
                        c = rnd.randint(1, len(resp) - 1)
                        cs.script += [resp[:c], BlockingIOError(11, "x"), resp[c:]]
                    else:
                        cs.script.append(resp)
                    cs.served = k + 1
                # pop responses as they arrive (a queued response shares its body buffer with the parser: separate finding)
                while cl.responses:
                    collected.append(cl.respond())
                if len(collected) == nreq:
                    break
        except Exception as ex:   # noqa
            v("C19/client-raised", inp, repr(ex)[:160])
            continue
        stats["evals"] += 1
        if inflight_max > 1:
            v("C19/more-than-one-request-in-flight", inp, inflight_max, 1)
        if len(collected) != nreq:
            v("C19/response-count", inp, len(collected), nreq)
            continue
        for k, (rsp, rq) in enumerate(zip(collected, reqs)):
            exp_body = b"" if rq["method"] == "HEAD" else ("resp-%d" % k).encode()
            if rsp.headers.get("x-idx") != str(k) or bytes(rsp.body) != exp_body:
                v("C19/response-order-or-body", dict(inp, index=k), dict(idx=rsp.headers.get("x-idx"), body=bytes(rsp.body)), dict(idx=str(k), body=exp_body))
                break
            if rsp.request["method"] != rq["method"] or rsp.request["path"] != rq["path"]:
                v("C19/originating-request-mismatch", dict(inp, index=k), dict(method=rsp.request["method"], path=rsp.request["path"]), rq)
                break
        # order of transmission
        sent_paths = [ln.split(b" ")[1].decode() for ln in bytes(cs.wire).split(b"\r\n") if ln.endswith(b" HTTP/1.1")]
        if sent_paths != [r["path"] for r in reqs]:
            v("C19/transmit-order", inp, sent_paths, [r["path"] for r in reqs])
    # several queued requests, some redirected: histories are inspected AFTER everything was answered (entries must not share state)
    for it in range(20 if tier == "quick" else 200):
        n = rnd.randint(2, 4)
        redir = [rnd.random() < 0.5 for _ in range(n)]
        cs = FakeSock([])
        conn = tcp.Client(ha=("127.0.0.1", 8080))
        conn.cs, conn.accepted = cs, True
        cl = clienting.Client(connector=conn)
        for k in range(n):
            cl.request(method="GET", path="/q%d" % k)
        inp = dict(scenario="queued requests with redirects, drained at the end", redirected=redir)
        served = 0
        try:
            for step in range(60 * n):
                cl.service()
                wire = bytes(cs.wire)
                lines = [ln for ln in wire.split(b"\r\n") if ln.endswith(b" HTTP/1.1")]
                while served < len(lines):
                    pth = lines[served].split(b" ")[1].decode()
                    if pth.startswith("/q") and redir[int(pth[2:])]:
                        cs.script.append(b"HTTP/1.1 307 Temporary Redirect\r\nLocation: http://127.0.0.1:8080/moved%s\r\nContent-Length: 0\r\n\r\n" % pth[2:].encode())
                    else:
                        body = ("body-" + pth).encode()
                        cs.script.append(b"HTTP/1.1 200 OK\r\nContent-Length: %d\r\n\r\n" % len(body) + body)
                    served += 1
                if len(cl.responses) == n:
                    break
        except Exception as ex:   # noqa
            v("C19/client-raised", inp, repr(ex)[:160])
            continue
        stats["evals"] += 1
        if len(cl.responses) != n:
            v("C19/response-count", inp, len(cl.responses), n)
            continue
        for k, rsp in enumerate(list(cl.responses)):
            hist = [r["request"]["path"] for r in (rsp.get("redirects") or [])]
            exp_hist = ["/q%d" % k] if redir[k] else []
            exp_body = ("body-/moved%d" % k if redir[k] else "body-/q%d" % k).encode()
            if hist != exp_hist or bytes(rsp["body"]) != exp_body:
                v("C19/redirect-history-or-body-wrong-after-later-requests", dict(inp, index=k), dict(history=hist, body=bytes(rsp["body"])), dict(history=exp_hist, body=exp_body))
                break
    # redirects: followed transparently with history; https -> http refused
    for frm, to, allowed in (("http", "http://127.0.0.1:8080/new", True), ("https", "http://127.0.0.1:8080/new", False),
                             ("http", "/new", True), ("http", "new", True), ("https", "/new", True), ("http", "//127.0.0.1:8080/new", True),
                             ("http", "/new?a=1", True)):
        cs = FakeSock([])
        conn = tcp.Client(ha=("127.0.0.1", 8080))
        conn.cs, conn.accepted = cs, True
        cl = clienting.Client(connector=conn, scheme="http")
        cl.requester.scheme = frm
        cl.request(method="GET", path="/old")
        cs.script = [b"HTTP/1.1 302 Found\r\nLocation: " + to.encode() + b"\r\nContent-Length: 0\r\n\r\n"]
        stats["evals"] += 1
        try:
            for _ in range(8):
                cl.service()
                if b"GET /new" in cs.wire and not cs.script and b"final" not in cs.wire:
                    cs.script.append(b"HTTP/1.1 200 OK\r\nContent-Length: 5\r\n\r\nfinal")
            refused = False
        except ValueError:
            refused = True
        except Exception as ex:   # noqa
            v("C19/redirect-raised", dict(frm=frm, to=to, witness_class="relative-location" if "://" not in to else "absolute-location"), repr(ex)[:120])
            continue
        if allowed:
            if refused or not cl.responses or not cl.responses[0].get("redirects"):
                v("C19/redirect-not-followed-with-history", dict(frm=frm, to=to), dict(refused=refused, responses=len(cl.responses)))
        elif not refused and b"GET /new" in cs.wire:
            v("C19/https-to-http-redirect-followed", dict(frm=frm, to=to), "followed")


# ----------------------------------------------------------------------------- C14

def run_c14(rnd, tier, v, stats):
    from hio.core.http import clienting, serving
    from urllib.parse import parse_qs
    N = 300 if tier == "quick" else 5000
    alpha = ["a", "b1", "x y", "k&v", "e=q", "ü", "é/ß", "a+b", "p%20q", "semi;colon", "#h", "?", "日本", "", "A-Z_", "~.-"]
    for it in range(N):
        method = rnd.choice(["GET", "POST", "PUT", "DELETE", "PATCH"])
        # ('?' and '#' are delimiters of the path ARGUMENT of the client API, not path characters)
        path = "/" + "/".join(rnd.choice(["p", "a b", "ü", "x%y", "s,t", "日本", "a+b", "~.-_"]) for _ in range(rnd.randint(0, 3)))
        qargs = {}
        for _ in range(rnd.randint(0, 3)):
            k = rnd.choice([a for a in alpha if a])
            qargs[k] = rnd.choice(alpha)
        hdrs = {}
        for _ in range(rnd.randint(0, 3)):
            hdrs[rnd.choice(["X-One", "Accept", "x-lower", "X-Multi-Word-Name"])] = rnd.choice(["v", "a, b", "semi; q=1", "tab\tx", "ütf"])
        kind = rnd.choice(["none", "body", "data", "fargs"]) if method != "GET" else "none"     # the client sends no body on GET by design
        body, data, fargs = None, None, None
        if kind == "body":
            body = bytes(rnd.randrange(256) for _ in range(rnd.choice([0, 1, 10, 300])))
        elif kind == "data":
            data = {"k": rnd.choice(alpha), "n": rnd.randint(0, 5), "l": [1, 2]}
        elif kind == "fargs":
            fargs = {rnd.choice(["f1", "f two"]): rnd.choice(alpha)}
        inp = dict(method=method, path=path, qargs=qargs, headers=hdrs, kind=kind, body=body.hex() if body else None, data=data, fargs=fargs)
        stats["distinct"].add(repr(inp))
        if it < 2:
            stats["samples"].append(inp)
        try:
            rq = clienting.Requester(hostname="example.com", port=8080, method=method, path=path, qargs=dict(qargs), headers=dict(hdrs), body=body, data=data, fargs=fargs)
            wire = rq.build()
        except Exception as ex:   # noqa
            cls = "query-key-not-quoted" if any(not all(c.isalnum() and c.isascii() or c in "_.~-" for c in k) for k in qargs) else type(ex).__name__
            v("C14/build-raised", dict(inp, witness_class=cls), repr(ex)[:120])
            continue
        msg = bytearray(wire)
        rt = serving.Requestant(msg=msg, remoter=FakeRemoter())
        try:
            for _ in range(4):
                if rt.parser:
                    rt.parse()
        except Exception as ex:   # noqa
            v("C14/server-parse-raised", dict(inp, witness_class=type(ex).__name__), repr(ex)[:120])
            continue
        stats["evals"] += 1
        if not rt.ended or rt.errored:
            cls = "query-key-not-quoted" if any(not all(c.isalnum() and c.isascii() or c in "_.~-" for c in k) for k in qargs) else ""
            v("C14/server-did-not-accept-request", dict(inp, witness_class=cls), dict(ended=rt.ended, error=rt.error))
            continue
        srv, servant, socks = make_http_server(n=1)
        env = srv.buildEnviron(rt)
        from urllib.parse import unquote
        bad = []
        if rt.method != method:
            bad.append(("method", rt.method, method))
        if rt.path != path or unquote(env["PATH_INFO"]) != path:
            bad.append(("path", rt.path, path))
        got_q = {k: vs[-1] for k, vs in parse_qs(env["QUERY_STRING"], keep_blank_values=True).items()}
        if got_q != {k: val for k, val in qargs.items()}:
            bad.append(("qargs", got_q, qargs))
        for k, val in hdrs.items():
            if rt.headers.get(k) != val or env.get("HTTP_" + k.replace("-", "_").upper()) != val:
                bad.append(("header " + k, rt.headers.get(k), val))
        if kind == "body" and bytes(rt.body) != body:
            bad.append(("body", bytes(rt.body)[:30], body[:30]))
        if kind == "data":
            try:
                ok = json.loads(bytes(rt.body).decode("utf-8")) == data
            except ValueError:
                ok = False
            if not ok:
                bad.append(("json", bytes(rt.body)[:60], data))
        if bad:
            cls = ""
            if any(not all(c.isalnum() and c.isascii() or c in "_.~-" for c in k) for k in qargs):
                cls = "query-key-not-quoted"
            elif any(b[0] == "path" for b in bad) and any(c in path for c in "?#;%"):
                cls = "path-reserved-characters"
            elif any(b[0].startswith("header") for b in bad) and any(not val.isascii() or "\t" in val for val in hdrs.values()):
                cls = "header-non-ascii"
            v("C14/request-not-recovered", dict(inp, witness_class=cls), [(b[0], str(b[1])[:60]) for b in bad], [(b[0], str(b[2])[:60]) for b in bad])


# ----------------------------------------------------------------------------- C15

def sse_reference(events_src):
    """reference dispatch per the SSE ABNF: events_src is a list of lists of (field, value) lines (None field = comment)"""
    out, leid, retry = [], None, None
    for lines in events_src:
        name, data = "", []
        for f, val in lines:
            if f is None:
                continue
            if f == "event":
                name = val
            elif f == "data":
                data.append(val)
            elif f == "id":
                leid = val
            elif f == "retry":
                if val.isdigit():
                    retry = int(val)
        if data:
            d = "\n".join(data)
            out.append(dict(id=leid if leid is not None else "", name=name, data=d))
    return out, leid, retry


def run_c15(rnd, tier, v, stats):
    N = 80 if tier == "quick" else 1000
    for it in range(N):
        src = []
        for _ in range(rnd.randint(1, 4)):
            lines = []
            for _ in range(rnd.randint(1, 4)):
                r = rnd.random()
                if r < 0.45:
                    # (events whose only data is empty are left out: the SSE standard dispatches them with data "", hio drops
                    #  them; the statement does not say which, see DESIGN.md C15)
                    lines.append(("data", rnd.choice(["hello", "two words", '{"a": 1}', "ünï"])))
                elif r < 0.6:
                    lines.append(("event", rnd.choice(["tick", "msg"])))
                elif r < 0.75:
                    lines.append(("id", str(rnd.randint(0, 99))))
                elif r < 0.85:
                    lines.append(("retry", rnd.choice(["1000", "250", "x"])))
                else:
                    lines.append((None, "comment"))
            src.append(lines)
        eols_mode = rnd.choice(["lf", "crlf", "cr", "mixed"])
        stream = b""
        for lines in src:
            for f, val in lines:
                e = {"lf": b"\n", "crlf": b"\r\n", "cr": b"\r"}.get(eols_mode) or rnd.choice([b"\n", b"\r\n", b"\r"])
                stream += ((": " + val) if f is None else (f + ": " + val)).encode("utf-8") + e
            # (mixed: a blank line written as LF right after a CR-terminated line would BE a CRLF, one terminator and no blank line)
            stream += {"lf": b"\n", "crlf": b"\r\n", "cr": b"\r"}.get(eols_mode) or rnd.choice([b"\n", b"\r\n", b"\r"] if not stream.endswith(b"\r") else [b"\r\n", b"\r"])
        exp, leid, retry = sse_reference(src)
        transport = rnd.choice(["plain", "chunked"])
        head = b"HTTP/1.1 200 OK\r\nContent-Type: text/event-stream\r\n" + (b"Transfer-Encoding: chunked\r\n" if transport == "chunked" else b"") + b"\r\n"
        inp = dict(eols=eols_mode, transport=transport, stream=stream.decode("utf-8")[:200])
        stats["distinct"].add(repr(inp))
        if it < 2:
            stats["samples"].append(inp)
        if transport == "chunked":
            # chunk the stream at random points, then fragment the chunked WIRE at byte level (framing lines get split too)
            cps = sorted(rnd.sample(range(1, len(stream)), min(3, len(stream) - 1))) if len(stream) > 2 else []
            pieces, last = [], 0
            for c in cps:
                pieces.append(stream[last:c])
                last = c
            pieces.append(stream[last:])
            wire = b"".join(("%x" % len(p)).encode() + b"\r\n" + p + b"\r\n" for p in pieces if p) + b"0\r\n\r\n"
        else:
            wire = stream
        for parts in itertools.islice(partitions(rnd, wire, "quick"), 0, 45):
            from hio.core.http import clienting
            msg = bytearray()
            rp = clienting.Respondent(msg=msg, method="GET")
            err = None
            try:
                msg.extend(head)
                rp.parse()
                for p in parts:
                    msg.extend(p)
                    rp.parse()
                if transport != "chunked":
                    rp.close()
                for _ in range(3):
                    if rp.parser:
                        rp.parse()
            except Exception as ex:   # noqa
                err = repr(ex)[:100]
            stats["evals"] += 1
            got = [dict(id=e["id"] if e["id"] is not None else "", name=e["name"], data=e["data"]) for e in rp.events]
            if err or got != exp or (exp and (rp.leid != leid and leid is not None)) or (retry is not None and rp.retry != retry):
                cls = ""
                if b"\r\n" in stream:
                    cls = "crlf-split-across-reads"        # recorded finding: a CRLF whose CR ends one read and whose LF starts the next
                                                           # is taken as CR then LF (a spurious empty line: the event is dispatched early)
                v("C15/events-differ", dict(inp, cuts=[len(p) for p in parts][:10], witness_class=cls), dict(events=got[:4], leid=rp.leid, retry=rp.retry, err=err), dict(events=exp[:4], leid=leid, retry=retry))
                break


# ----------------------------------------------------------------------------- C12 (http level)

def run_c12(rnd, tier, v, stats):
    from hio.base import tyming
    N = 150 if tier == "quick" else 2000
    for it in range(N):
        T = rnd.choice([0.5, 1.0, 2.0, 5.0])
        tock = rnd.choice([0.125, 0.25])
        tymist = tyming.Tymist(tyme=0.0, tock=tock)
        srv, servant, socks = make_http_server(n=0)
        from hio.core import tcp
        cs = FakeSock([], ("10.0.0.9", 4000))
        servant.tymeout = T
        servant.wind(tymist.tymen())
        pend = [(cs, cs.peer)]
        servant.serviceAccepts = lambda: servant.axes.append(pend.pop(0)) if pend else None
        # client activity plan: list of (tyme, bytes); partial requests keep the connection non-persistent
        kind = rnd.choice(["silent", "partial-then-silent", "steady-traffic", "burst-then-silent"])
        plan = []
        if kind == "partial-then-silent":
            plan = [(rnd.choice([0.25, T - tock]), b"GET / HTTP/1.1\r\nHos")]
        elif kind == "steady-traffic":
            t = 0.0
            while t < 4 * T:
                t += rnd.choice([T / 4, T / 2, T - tock])
                plan.append((t, b"x"))
        elif kind == "burst-then-silent":
            t0 = rnd.choice([0.25, T / 2])
            plan = [(t0, b"GET "), (t0 + tock, b"/ HT")]
        inp = dict(tymeout=T, tock=tock, kind=kind, plan=[(t, b.decode()) for t, b in plan][:6])
        stats["distinct"].add(repr(inp))
        if it < 2:
            stats["samples"].append(inp)
        closed_at = None
        last_traffic = 0.0
        horizon = (max([t for t, _ in plan]) if plan else 0.0) + 3 * T
        try:
            while tymist.tyme <= horizon:
                for t, b in list(plan):
                    if t <= tymist.tyme:
                        cs.script.append(b)
                        plan.remove((t, b))
                        last_traffic = tymist.tyme
                srv.service()
                if cs.closed and closed_at is None:
                    closed_at = tymist.tyme
                tymist.tick()
        except Exception as ex:   # noqa
            v("C12/service-raised", inp, repr(ex)[:120])
            continue
        stats["evals"] += 1
        if kind == "steady-traffic":
            if closed_at is not None and closed_at <= last_traffic + T - tock:
                v("C12/closed-despite-traffic-in-every-window", inp, dict(closed_at=closed_at))
        else:
            if closed_at is None:
                v("C12/idle-connection-never-closed", inp, dict(closed_at=None), dict(by=last_traffic + T))
            elif closed_at > last_traffic + T + 2 * tock + 1e-9:
                cls = "refresh-is-lossless-restart" if kind == "burst-then-silent" else ""
                v("C12/idle-connection-closed-late", dict(inp, witness_class=cls), dict(closed_at=closed_at), dict(by=last_traffic + T + 2 * tock))
            elif closed_at + 1e-9 < last_traffic + T - tock:
                v("C12/closed-before-tymeout", inp, dict(closed_at=closed_at), dict(not_before=last_traffic + T))


def run_c14_differential(rnd, tier, v, stats):
    """C14 with ONE Requester re-used for several requests that do not pass the path again (the documented differential mode):
    every request must be recovered with the SAME path, also when quote() alters it"""
    from hio.core.http import clienting, serving
    paths = ["/caf\u00e9 au lait/100%/\u65e5\u672c", "/a b/c%20d", "/plain", "/x y", "/%41", "/\u00fc"]
    for it in range(len(paths) * (2 if tier == "quick" else 10)):
        path = paths[it % len(paths)]
        rq = clienting.Requester(hostname="example.com", port=8080, method="GET", path=path)
        inp = dict(scenario="one Requester, path given once", path=path)
        stats["distinct"].add(repr(inp))
        for k in range(3):
            try:
                wire = rq.build() if k == 0 else rq.rebuild(method=rnd.choice(["POST", "PUT"]), body=b"b%d" % k)
            except Exception as ex:   # noqa
                v("C14/build-raised", dict(inp, index=k, witness_class=type(ex).__name__), repr(ex)[:120])
                break
            rt = serving.Requestant(msg=bytearray(wire), remoter=FakeRemoter())
            try:
                for _ in range(4):
                    if rt.parser:
                        rt.parse()
            except Exception as ex:   # noqa
                v("C14/server-parse-raised", dict(inp, index=k, witness_class=type(ex).__name__), repr(ex)[:120])
                break
            stats["evals"] += 1
            if not rt.ended or rt.errored or rt.path != path:
                v("C14/differential-request-path-differs", dict(inp, index=k), rt.path, path)
                break


def run_c14_keepalive(rnd, tier, v, stats):
    """C14 on a reused connection: consecutive requests through ONE Requestant must each be recovered exactly"""
    from hio.core.http import clienting, serving
    N = 100 if tier == "quick" else 1500
    for it in range(N):
        msg = bytearray()
        rt = serving.Requestant(msg=msg, remoter=FakeRemoter())
        seq = []
        for k in range(rnd.randint(2, 4)):
            method = rnd.choice(["GET", "POST", "PUT"])
            hdrs = {}
            for _ in range(rnd.randint(0, 2)):
                hdrs[rnd.choice(["X-One", "X-Two", "Accept", "Content-Type"])] = rnd.choice(["v%d" % k, "text/plain", "w"])
            body = None if method == "GET" else bytes(rnd.randrange(97, 123) for _ in range(rnd.choice([0, 3, 12])))
            seq.append(dict(method=method, path="/k%d" % k, headers=hdrs, body=body))
        inp = dict(sequence=[(q["method"], q["path"], q["headers"], q["body"].decode() if q["body"] else None) for q in seq])
        stats["distinct"].add(repr(inp))
        for k, q in enumerate(seq):
            rq = clienting.Requester(hostname="example.com", port=8080, method=q["method"], path=q["path"], headers=dict(q["headers"]), body=q["body"])
            msg.extend(rq.build())
            if k > 0:
                rt.makeParser()
            try:
                for _ in range(4):
                    if rt.parser:
                        rt.parse()
            except Exception as ex:   # noqa
                v("C14/keepalive-parse-raised", dict(inp, index=k), repr(ex)[:100])
                break
            stats["evals"] += 1
            if not rt.ended or rt.errored:
                v("C14/keepalive-request-not-accepted", dict(inp, index=k), dict(ended=rt.ended, error=rt.error))
                break
            sent = {kk.lower(): vv for kk, vv in q["headers"].items()}
            got = {kk.lower(): vv for kk, vv in rt.headers.items() if kk.lower() not in ("host", "accept-encoding", "content-length")}
            if rt.method != q["method"] or rt.path != q["path"] or bytes(rt.body) != (q["body"] or b"") or got != sent:
                v("C14/keepalive-request-not-recovered", dict(inp, index=k), dict(method=rt.method, path=rt.path, headers=got, body=bytes(rt.body)),
                  dict(method=q["method"], path=q["path"], headers=sent, body=q["body"] or b""))
                break


def run_c14_all(rnd, tier, v, stats):
    run_c14(rnd, tier, v, stats)
    run_c14_keepalive(rnd, tier, v, stats)
    run_c14_differential(rnd, tier, v, stats)


def run_c15_reconnect(rnd, tier, v, stats):
    """one Respondent across reconnects (as the http Client drives it): event stream, then optionally an empty-body response,
    then an event stream again; every stream must deliver exactly its events"""
    from hio.core.http import clienting
    head_sse = b"HTTP/1.1 200 OK\r\nContent-Type: text/event-stream\r\n\r\n"
    head_sse_chunked = b"HTTP/1.1 200 OK\r\nContent-Type: text/event-stream\r\nTransfer-Encoding: chunked\r\n\r\n"
    empties = [None, b"HTTP/1.1 503 Service Unavailable\r\nContent-Type: text/plain\r\nContent-Length: 0\r\n\r\n",
               b"HTTP/1.1 204 No Content\r\n\r\n", b"HTTP/1.1 503 Service Unavailable\r\nContent-Length: 2\r\n\r\nno"]
    first = [b"id: 1\n", b"data: alpha\n", b"\n"]
    second = [b"id: 3\r", b"event: tock\n", b"data: gamma\r\n", b"data: delta\r", b"\r\n", b"data: zeta\r\n", b"\n"]
    want2 = [dict(id="3", name="tock", data="gamma\ndelta"), dict(id="3", name="", data="zeta")]

    def drive(resp, msg, head, frags, close):
        msg.extend(head)
        resp.parse()
        for f in frags:
            msg.extend(f)
            resp.parse()
        if close:
            resp.close()
            resp.parse()
        ended = resp.ended
        resp.makeParser()
        return ended
    for between in empties:
        for chunk in (False, True):
            inp = dict(scenario="reconnecting event stream", between=None if between is None else between.split(b"\r\n")[0].decode(), chunked=chunk)
            stats["distinct"].add(repr(inp))
            msg = bytearray()
            resp = clienting.Respondent(msg=msg, method="GET")
            try:
                drive(resp, msg, head_sse, first, True)
                resp.events.clear()
                if between is not None:
                    drive(resp, msg, between, [], False)
                    resp.events.clear()
                if chunk:
                    frs = [b"%x\r\n" % len(f) + f + b"\r\n" for f in second] + [b"0\r\n\r\n"]
                    drive(resp, msg, head_sse_chunked, frs, False)
                else:
                    drive(resp, msg, head_sse, second, True)
            except Exception as ex:   # noqa
                v("C15/reconnect-raised", dict(inp, witness_class=type(ex).__name__), repr(ex)[:120])
                continue
            stats["evals"] += 1
            got = [dict(id=e["id"], name=e["name"], data=e["data"]) for e in resp.events]
            if got != want2 or resp.leid != "3":
                v("C15/events-lost-after-reconnect", inp, dict(events=got, leid=resp.leid), dict(events=want2, leid="3"))


def run_c15_all(rnd, tier, v, stats):
    run_c15(rnd, tier, v, stats)
    run_c15_reconnect(rnd, tier, v, stats)


RUNNERS = {"C12": run_c12, "C13": run_c13, "C14": run_c14_all, "C15": run_c15_all, "C16": run_c16, "C17": run_c17, "C18": run_c18, "C19": run_c19}

"""C07 native bounded harness: real Doist.do(real=True) against a scripted clock (time.time / time.sleep patched).
true time `tau` advances by sleep overshoots and per-cycle work; the clock offset steps BACKWARDS at scripted points."""
import random


class FakeTime:
    def __init__(self, rnd, jumps, work, overshoot):
        self.tau = 1000.0
        self.off = 0.0
        self.rnd = rnd
        self.jumps = list(jumps)      # (after_n_readings, size)
        self.n = 0
        self.work = work
        self.overshoot = overshoot

    def time(self):
        self.n += 1
        for j in list(self.jumps):
            if self.n >= j[0]:
                self.off -= j[1]
                self.jumps.remove(j)
        self.tau += 0.0009765625       # a reading takes a little true time
        return self.tau + self.off

    def sleep(self, d):
        self.tau += max(d, 0.0) + self.overshoot * self.rnd.choice([0.0, 0.25, 1.0])


def run(tier="quick", seed=0):
    from hio.base import doing
    from hio.help import timing
    import time as real_time
    orig_time, orig_sleep = real_time.time, real_time.sleep
    rnd = random.Random(seed)
    N = 150 if tier == "quick" else 2500
    viol, samples, distinct = [], [], set()
    evals = 0
    for it in range(N):
        tock = rnd.choice([0.125, 0.25, 0.5, 1.0])
        tock0 = rnd.choice([tock, tock, 0.03125, 2.0])          # tock at construction, possibly changed before the run
        njump = rnd.choice([0, 0, 1, 2])
        jumps = [(rnd.randint(4, 60), rnd.choice([0.0625, 0.5, 3.0, 30.0])) for _ in range(njump)]
        work = rnd.choice([0.0, 0.03125, 0.2])
        ft = FakeTime(rnd, jumps, work, overshoot=rnd.choice([0.0, 0.01, 0.3]))
        starts = []

        class W(doing.Doer):
            def recur(self, tyme):
                starts.append(ft.tau)
                ft.tau += work
                return len(starts) >= 12
        inp = dict(tock=tock, tock_at_construction=tock0, jumps=jumps, work=work, overshoot=ft.overshoot)
        distinct.add(repr(inp))
        if it < 3:
            samples.append(inp)
        doing.time.time, doing.time.sleep = ft.time, ft.sleep
        timing.time.time = ft.time
        try:
            d = doing.Doist(real=True, tock=tock0, doers=[W()])
            d.tock = tock
            t_run = ft.tau
            d.do()
        finally:
            doing.time.time, doing.time.sleep = orig_time, orig_sleep
            timing.time.time = orig_time
        evals += 1
        for k, s in enumerate(starts):
            if s + 1e-9 < t_run + k * tock:
                viol.append(dict(check="C07/cycle-starts-early", input=inp, observed=dict(cycle=k, started_after=s - t_run), expected=">= %r" % (k * tock)))
                break
        if not jumps and work < tock:
            # no drift: without jumps cycle k starts within (k*tock, k*tock + one overshoot + reading time]
            late = [s - t_run - k * tock for k, s in enumerate(starts)]
            if max(late) > ft.overshoot + work + 0.1 * tock + 0.01:
                viol.append(dict(check="C07/lateness-accumulates", input=inp, observed=late[:6]))
    seen = set()
    viol = [v for v in viol if not (v["check"] in seen or seen.add(v["check"]))]
    return dict(evaluations=evals, distinct_nontrivial=len(distinct), samples=samples, violations=viol,
                rule="random (tock, tock at construction, backward clock steps at random readings, per-cycle work, sleep overshoot); 12 cycles each; "
                     "checks cycle k starts >= k*tock of true time after the run started, and bounded lateness without jumps",
                note="native CPython with patched time.time/time.sleep; bounded; not counted as proved")

"""C08 CPython cross-check: the proved clauses evaluated natively on random op sequences (bounded)."""
import random


def run(tier="quick", seed=0):
    from hio.base import tyming
    from hio.help import timing
    import time as _time
    rnd = random.Random(seed)
    n = 300 if tier == "quick" else 5000
    viol = []
    evals = 0
    distinct = set()
    samples = []
    real_time = _time.time
    for it in range(n):
        # Tymer against a fake tymist
        tyme = [rnd.choice([0.0, 0.5, 1.0, 2.5, 10.0])]
        dur = rnd.choice([0.0, 0.25, 1.0, 3.0])
        t = tyming.Tymer(tymth=lambda: tyme[0], duration=dur, start=rnd.choice([None, 0.0, 1.0]))
        ops = []
        for k in range(rnd.randint(1, 8)):
            op = rnd.choice(["adv", "restart", "start", "rewind"])
            ops.append(op)
            if op == "adv":
                tyme[0] += rnd.choice([0.0, 0.125, 0.5, 1.0, 4.0])
            elif op == "rewind":
                tyme[0] -= rnd.choice([0.125, 0.5])
            elif op == "restart":
                stop0 = t._stop
                d0 = t.duration
                t.restart()
                if not (t._start == stop0 and t._stop == stop0 + d0):
                    viol.append(dict(check="tymer-restart-lossless", input=dict(ops=ops), observed=[t._start, t._stop], expected=[stop0, stop0 + d0]))
            elif op == "start":
                t.start()
                if t._start != tyme[0]:
                    viol.append(dict(check="tymer-start", input=dict(ops=ops), observed=t._start, expected=tyme[0]))
            evals += 1
            if not (t.elapsed == tyme[0] - t._start and t.remaining == t._stop - tyme[0] and t.expired == (tyme[0] >= t._stop)):
                viol.append(dict(check="tymer-accessors", input=dict(ops=ops, tyme=tyme[0]), observed=[t.elapsed, t.remaining, t.expired]))
        distinct.add(tuple(ops))
        if it < 3:
            samples.append(dict(kind="Tymer", ops=ops))
        # MonoTimer against a scripted clock (dyadic values so that float arithmetic is exact)
        clock = [100.0]
        timing.time.time = lambda: clock[0]
        try:
            m = timing.MonoTimer(duration=rnd.choice([0.0, 0.5, 2.0]))
            last_el, was_exp = m.elapsed, m.expired
            steps = []
            for k in range(rnd.randint(1, 8)):
                d = rnd.choice([0.0, 0.25, 1.0, -0.5, -8.0, 3.0])
                steps.append(d)
                clock[0] += d
                el = m.elapsed
                ex = m.expired
                evals += 1
                if el < last_el:
                    viol.append(dict(check="monotimer-elapsed-monotone", input=dict(steps=steps), observed=el, expected=">= %r" % last_el))
                if was_exp and not ex:
                    viol.append(dict(check="monotimer-expired-sticky", input=dict(steps=steps), observed=ex, expected=True))
                last_el, was_exp = el, ex
            distinct.add(("mono",) + tuple(steps))
            if it < 3:
                samples.append(dict(kind="MonoTimer", clock_steps=steps))
        finally:
            timing.time.time = real_time
    return dict(evaluations=evals, distinct_nontrivial=len(distinct), rule="random op sequences (length 1..8) over dyadic tymes/clock steps incl. "
                "backward steps; distinct = distinct op/step sequences; bounded cross-check of the proved clauses on CPython, not part of the proof",
                samples=samples, violations=viol)

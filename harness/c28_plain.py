"""dataclasses for the C28 harness, defined in a module WITHOUT `from __future__ import annotations`"""
from dataclasses import dataclass, field
from typing import Any
from hio.help import RegDom, RawDom, IceRegDom, registerify


@registerify
@dataclass
class PFlat(RegDom):
    a: Any = None
    b: int = 0
    c: str = ""
    d: list = field(default_factory=list)
    e: dict = field(default_factory=dict)


@registerify
@dataclass
class PNested(RegDom):
    name: str = ""
    inner: PFlat = field(default_factory=PFlat)


@registerify
@dataclass
class PDeep(RegDom):
    k: float = 0.0
    mid: PNested = field(default_factory=PNested)
    flat: PFlat = field(default_factory=PFlat)


@dataclass
class PRaw(RawDom):
    x: Any = None
    inner: PFlat = field(default_factory=PFlat)


@registerify
@dataclass(frozen=True)
class PIce(IceRegDom):
    """a FROZEN data object: its fields cannot be rebound, but a list / dict / nested object it holds can still change in place"""
    a: Any = None
    b: int = 0
    d: list = field(default_factory=list)
    e: dict = field(default_factory=dict)
    inner: PFlat = field(default_factory=PFlat)


CLASSES = dict(flat=PFlat, nested=PNested, deep=PDeep, raw=PRaw, ice=PIce)

"""Per-property views of the native scheduler harness (bounded stand-in / CPython cross-check for C01-C06, C30)."""
from . import sched_native as S

PREFIX = {"C01": ("C01/",), "C02": ("C02/",), "C03": ("C03/",), "C04": ("C04/",), "C05": ("C05/",), "C06": ("C06/",), "C30": ("C30/",)}


def run_for(pid, tier="quick", seed=0):
    a = S.run_checks(tier, seed)
    b = S.run_dynamic(tier, seed) if pid in ("C01", "C06", "C02") else None
    viol = [v for v in a["violations"] if v["check"].startswith(PREFIX[pid])]
    evals, distinct, samples, rule = a["evaluations"], a["distinct_nontrivial"], a["samples"][:2], a["rule"]
    if b:
        viol += [v for v in b["violations"] if v["check"].startswith(PREFIX[pid])]
        evals += b["evaluations"]
        distinct += b["distinct_nontrivial"]
        samples += b["samples"][:1]
        rule += " || " + b["rule"]
    return dict(evaluations=evals, distinct_nontrivial=distinct, samples=samples, rule=rule, violations=viol,
                note="native CPython runs of the real Doist/DoDoer; bounded; not counted as proved")

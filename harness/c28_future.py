"""dataclasses for the C28 harness, defined in a module WITH `from __future__ import annotations`"""
from __future__ import annotations
from dataclasses import dataclass, field
from typing import Any
from hio.help import RegDom, RawDom, IceRegDom, registerify


@registerify
@dataclass
class FFlat(RegDom):
    a: Any = None
    b: int = 0
    c: str = ""
    d: list = field(default_factory=list)
    e: dict = field(default_factory=dict)


@registerify
@dataclass
class FNested(RegDom):
    name: str = ""
    inner: FFlat = field(default_factory=FFlat)


@registerify
@dataclass
class FDeep(RegDom):
    k: float = 0.0
    mid: FNested = field(default_factory=FNested)
    flat: FFlat = field(default_factory=FFlat)


@dataclass
class FRaw(RawDom):
    x: Any = None
    inner: FFlat = field(default_factory=FFlat)


@registerify
@dataclass(frozen=True)
class FIce(IceRegDom):
    """a FROZEN data object: its fields cannot be rebound, but a list / dict / nested object it holds can still change in place"""
    a: Any = None
    b: int = 0
    d: list = field(default_factory=list)
    e: dict = field(default_factory=dict)
    inner: FFlat = field(default_factory=FFlat)


CLASSES = dict(flat=FFlat, nested=FNested, deep=FDeep, raw=FRaw, ice=FIce)

"""Native bounded harness for the memo/gram properties C20, C21, C22: the real Memoer with send/receive overridden by
scripted transports (bounded; not counted as proved)."""
import itertools
import random
from collections import deque

_KEEP = None


def keep():
    global _KEEP
    if _KEEP is None:
        import pysodium
        from hio.core.memo import Memoer, Keyage
        k = {}
        for i in range(2):
            seed = pysodium.crypto_pwhash(outlen=32, passwd=str(i), salt=b"abcdefghijklmnop", opslimit=2, memlimit=67108864, alg=pysodium.crypto_pwhash_ALG_ARGON2ID13)
            verkey, sigkey = pysodium.crypto_sign_seed_keypair(seed)
            vid = Memoer._encodeVID(raw=verkey, code="B")
            k[vid] = Keyage(qvk=Memoer._encodeQVK(raw=verkey), qss=Memoer._encodeQSS(raw=seed))
        _KEEP = k
    return _KEEP


def make(code, curt, size, authic=False, vid=None):
    from hio.core.memo import memoing

    class M(memoing.Memoer):
        def __init__(self, **kw):
            super().__init__(**kw)
            self.outbox = []
            self.rxq = deque()     # datagrams waiting to be received (the base class uses .inbox for DELIVERED memos)
            self.accept = None     # scripted acceptance counts for send(); None = everything
            self.opened = True

        def send(self, gram, dst, *, echoic=False):
            if self.accept is None:
                n = len(gram)
            elif self.accept:
                n = self.accept.pop(0)
                if isinstance(n, BaseException):
                    raise n
                n = min(n, len(gram))
            else:
                n = 0
            self.outbox.append((bytes(gram[:n]), dst))
            return n

        def receive(self, *, echoic=False):
            return self.rxq.popleft() if self.rxq else (b"", None)
    kw = dict(name="m", code=code, curt=curt, size=size, authic=authic)
    if vid:
        kw.update(keep=keep(), vid=vid)
    return M(**kw)


MEMOS = ["a", "hello world", "ünïcödé ✓ memo", "x" * 300, "The quick brown fox jumps over the lazy dog. " * 6, "日本語のメモ" * 20]


def run_c20(rnd, tier, v, stats):
    from hio.core.memo import MemoDex
    N = 60 if tier == "quick" else 800
    vids = list(keep())
    for it in range(N):
        signed = rnd.random() < 0.4
        code = rnd.choice([MemoDex.GramAuthZero, MemoDex.GramSureAuthZero]) if signed else rnd.choice([MemoDex.GramZero, MemoDex.GramSureZero])
        curt = rnd.random() < 0.4
        size = rnd.choice([None, 1, 130, 165, 200, 300, 400, 600] if signed else [None, 1, 33, 38, 40, 44, 64, 100, 400])   # incl. requests below the header overhead
        vid = rnd.choice(vids) if signed else None
        inp = dict(code=code, curt=curt, size=size, signed=signed)
        try:
            tx = make(code, curt, size, vid=vid)
            rx = make(code, curt, size, authic=signed, vid=vid)
        except Exception as ex:   # noqa
            stats["skipped"] = stats.get("skipped", 0) + 1
            continue
        memos = [rnd.choice(MEMOS) for _ in range(rnd.randint(1, 3))]
        grams = []
        try:
            for k, m in enumerate(memos):
                tx.memoit(m, "dst%d" % k, vid)
            tx.serviceTxMemos()
            while tx.txgs:
                tx.serviceTxGrams()
            grams = [(g, "src") for g, d in tx.outbox if g]
        except Exception as ex:   # noqa
            cls = "binary-header-gram-count" if curt else type(ex).__name__
            v("C20/rend-raised", dict(inp, memos=[m[:20] for m in memos], witness_class=cls), repr(ex)[:100])
            continue
        inp["memos"] = [m[:20] + ("..." if len(m) > 20 else "") for m in memos]
        inp["ngrams"] = len(grams)
        stats["distinct"].add(repr(inp))
        if it < 2:
            stats["samples"].append(inp)
        orders = [list(grams), list(reversed(grams))]
        for _ in range(3 if tier == "quick" else 10):
            o = list(grams)
            rnd.shuffle(o)
            orders.append(o)
        dup = list(grams) + [rnd.choice(grams) for _ in range(2)] if grams else []
        rnd.shuffle(dup)
        orders.append(dup)
        for order in orders:
            rx2 = make(code, curt, size, authic=signed, vid=vid)
            err = None
            try:
                for g in order:
                    rx2.rxq.append(g)
                    rx2.serviceAllRx() if rnd.random() < 0.5 else None
                rx2.serviceAllRx()
                rx2.serviceAllRx()
            except Exception as ex:   # noqa
                err = repr(ex)[:100]
            stats["evals"] += 1
            got = sorted((m, vd) for m, s, vd in list(rx2.inbox) + list(rx2.rxms))
            exp = sorted((m, vid) for m in memos)
            if err or got != exp:
                cls = ""
                if not err and len(order) > len(grams) and set(got) == set(exp) and len(got) > len(exp):
                    cls = "duplicate-after-delivery"
                elif signed and order != grams:
                    cls = "signed-non-zeroth-gram-before-zeroth"
                elif curt:
                    cls = "binary-header-gram-count"
                v("C20/memos-not-reconstructed-exactly-once", dict(inp, order="in-order" if order == grams else ("reversed" if order == list(reversed(grams)) else "shuffled/dup"), witness_class=cls),
                  dict(got=[(m[:20], vd) for m, vd in got], err=err), [(m[:20], vd) for m, vd in exp])
                break
        # a memo missing any gram is never delivered
        if len(grams) >= 2:
            k = rnd.randrange(len(grams))
            rx3 = make(code, curt, size, authic=signed, vid=vid)
            for i, g in enumerate(grams):
                if i != k:
                    rx3.rxq.append(g)
            try:
                rx3.serviceAllRx()
                rx3.serviceAllRx()
            except Exception:   # noqa
                pass
            stats["evals"] += 1
            if len(rx3.rxms) + len(rx3.inbox) >= len(memos):
                v("C20/memo-delivered-with-a-gram-missing", dict(inp, missing=k, witness_class="binary-header-gram-count" if curt else ""), [m[:20] for m, _, _ in list(rx3.inbox) + list(rx3.rxms)])


def run_c21(rnd, tier, v, stats):
    import errno
    from hio.core.memo import MemoDex
    N = 300 if tier == "quick" else 5000
    for it in range(N):
        m = make(MemoDex.GramZero, False, None)
        grams = [bytes([65 + k]) * rnd.choice([1, 4, 10]) for k in range(rnd.randint(1, 4))]
        script = []
        drops = 0
        for _ in range(rnd.randint(1, 14)):
            r = rnd.random()
            if r < 0.25:
                script.append(0)
            elif r < 0.6:
                script.append(rnd.choice([1, 2, 3, 5]))
            elif r < 0.68:
                script.append(OSError(rnd.choice([errno.ECONNREFUSED, errno.EHOSTUNREACH, errno.ENETDOWN]), "unreachable"))
            else:
                script.append(1000)
        m.accept = list(script)
        dsts = [rnd.choice(["D", "D", "E"]) for _ in grams]
        # what is queued: bytes, a fresh bytearray, or -- fan-out -- the SAME bytearray object as the previous entry (the content a
        # destination must receive is what was queued, so an implementation may not consume a queued object in place)
        objs, prev = [], None
        for k in range(len(grams)):
            r = rnd.random()
            if r < 0.25 and isinstance(prev, bytearray):
                grams[k] = bytes(prev)
                obj = prev
            elif r < 0.5:
                obj = bytearray(grams[k])
            else:
                obj = grams[k]
            objs.append(obj)
            prev = obj
        for g, d_ in zip(objs, dsts):
            m.gramit(g, d_)
        inp = dict(grams=[g.decode() for g in grams], kinds=["same-object" if k and objs[k] is objs[k - 1] else type(objs[k]).__name__ for k in range(len(objs))], dsts=dsts, script=[s if isinstance(s, int) else "unreachable" for s in script])
        stats["distinct"].add(repr(inp))
        if it < 2:
            stats["samples"].append(inp)
        try:
            for _ in range(len(script) + 2):
                m.serviceTxGrams() if rnd.random() < 0.6 else m.serviceTxGramsOnce()
            m.accept = None
            for _ in range(6):
                m.serviceTxGrams()
        except Exception as ex:   # noqa
            v("C21/service-raised", inp, repr(ex)[:100])
            continue
        stats["evals"] += 1
        nun = sum(1 for s in script if not isinstance(s, int))
        for dd in ("D", "E"):
          wire = b"".join(g for g, d in m.outbox if d == dd)
          # expected per destination: every gram in queue order, in full, except where an unreachable error dropped a remainder
          pos = 0
          ok = True
          droppedn = 0
          for g in [g_ for g_, d_ in zip(grams, dsts) if d_ == dd]:
            if wire[pos:pos + len(g)] == g:
                pos += len(g)
                continue
            # partially sent then dropped?
            k = 0
            while k < len(g) and pos + k < len(wire) and wire[pos + k:pos + k + 1] == g[k:k + 1]:
                k += 1
            droppedn += 1
            pos += k
          if pos != len(wire) or droppedn > nun:
            v("C21/grams-lost-duplicated-or-reordered", dict(inp, dst=dd), wire.decode(), b"".join(g_ for g_, d_ in zip(grams, dsts) if d_ == dd).decode())
        if m.txgs or m.txbs[1] is not None:
            v("C21/pending-gram-never-sent", inp, dict(txgs=len(m.txgs), txbs=bytes(m.txbs[0]).decode()))


def mutate(rnd, g):
    b = bytearray(g)
    r = rnd.random()
    if r < 0.4 and b:
        i = rnd.randrange(len(b))
        b[i] ^= 1 << rnd.randrange(8)
    elif r < 0.6:
        del b[rnd.randrange(len(b)):]
    elif r < 0.8 and b:
        i = rnd.randrange(len(b))
        b[i] = rnd.choice(b"!@#\xff\x00Zz_-")
    else:
        b = bytearray(rnd.randrange(256) for _ in range(rnd.choice([0, 1, 3, 4, 10, 50, 200])))
    return bytes(b)


def run_c22(rnd, tier, v, stats):
    from hio.core.memo import MemoDex
    N = 150 if tier == "quick" else 3000
    vids = list(keep())
    for it in range(N):
        signed = rnd.random() < 0.6
        code = MemoDex.GramAuthZero if signed else MemoDex.GramZero
        curt = False
        size = rnd.choice([200, 300]) if signed else rnd.choice([40, 64, None])
        vid = vids[0] if signed else None
        tx = make(code, curt, size, vid=vid)
        memo = rnd.choice(MEMOS[1:])
        tx.memoit(memo, "dst", vid)
        tx.serviceTxMemos()
        while tx.txgs:
            tx.serviceTxGrams()
        grams = [g for g, d in tx.outbox if g]
        rx = make(code, curt, size, authic=signed, vid=vid)
        bad_at = rnd.randrange(len(grams))
        delivered = []
        for i, g in enumerate(grams):
            delivered.append(mutate(rnd, g) if i == bad_at else g)
        if rnd.random() < 0.5:
            rnd.shuffle(delivered)
        inp = dict(signed=signed, size=size, memo=memo[:20], mutated_gram=bad_at, mutated=delivered[bad_at if len(delivered) > bad_at else 0][:24].hex())
        stats["distinct"].add(repr(inp))
        if it < 2:
            stats["samples"].append(inp)
        try:
            for g in delivered:
                rx.rxq.append((g, "src"))
                rx.serviceAllRx()
            rx.serviceAllRx()
        except Exception as ex:   # noqa
            v("C22/receive-side-raised", dict(inp, witness_class=type(ex).__name__), repr(ex)[:100])
            continue
        stats["evals"] += 1
        for m, s, vd in list(rx.inbox) + list(rx.rxms):
            if signed and m != memo:
                v("C22/tampered-memo-delivered", inp, m[:40], memo[:40])
    # a gram signed by ANOTHER key for the victim's memo id, under every header code that carries its own signer id (incl. the signed
    # ack code), injected at every position: what is delivered under the victim's id must be the victim's memo
    from hio.core.memo import memoing as _mm
    from hio.help import helping as _hp
    for it in range(6 if tier == "quick" else 40):
        size = rnd.choice([200, 260])
        vs, va = vids[0], vids[1]
        ms = "victim says: " + "pay account 01 " * rnd.randint(10, 14)
        txs = make(MemoDex.GramAuthZero, False, size, vid=vs)
        txs.memoit(ms, "dst", vs)
        txs.serviceTxMemos()
        while txs.txgs:
            txs.serviceTxGrams()
        gs = [g for g, d in txs.outbox if g]
        probe = make(MemoDex.GramAuthZero, False, size, authic=True, vid=vs)
        mid = probe.pick(bytearray(gs[0]))[0]
        mid = mid.decode() if hasattr(mid, "decode") else mid
        signer = make(MemoDex.GramAuthZero, False, size, vid=va)
        for code in [c for c in signer.Sizes if signer.Sizes[c][3] and signer.Sizes[c][4]]:      # codes with a signer id and a signature
            bz, nz, mz, vz, az = signer.Sizes[code]
            for gn in range(0, len(gs) + 1):
                head = code.encode() + _hp.intToB64b(gn, l=nz) + mid.encode() + va.encode()
                body = b"<<EVIL>>"
                sig = signer.sign(va, head + body)
                forged = head + body + (sig if isinstance(sig, bytes) else sig.encode())
                for pos in range(len(gs) + 1):
                    rx = make(MemoDex.GramAuthZero, False, size, authic=True, vid=vs)
                    seq = gs[:pos] + [forged] + gs[pos:]
                    inp = dict(code=code, forged_gram_number=gn, injected_at=pos, grams=len(gs))
                    try:
                        for g in seq:
                            rx.rxq.append((g, "src"))
                            rx.serviceAllRx()
                        rx.serviceAllRx()
                    except Exception as ex:   # noqa
                        v("C22/receive-side-raised", dict(inp, witness_class=type(ex).__name__), repr(ex)[:100])
                        continue
                    stats["evals"] += 1
                    stats["distinct"].add(repr(inp))
                    for m, s_, vd in list(rx.inbox) + list(rx.rxms):
                        if vd == vs and m != ms:
                            v("C22/memo-with-a-foreign-signers-gram-delivered", inp, m[:60], ms[:60])
    # two signers, one memo id: an attacker with its OWN valid key reuses an observed memo id.  Whatever the interleaving,
    # a delivered memo must be one signer's content, attributed to that signer.
    import itertools as _it
    for it in range(12 if tier == "quick" else 120):
        size = rnd.choice([200, 260])
        vs, va = vids[0], vids[1]
        ms = "victim says: " + "pay account 01 " * 12
        ma = "attacker says: " + "pay account 99 " * 12
        txs = make(MemoDex.GramAuthZero, False, size, vid=vs)
        txs.memoit(ms, "dst", vs)
        txs.serviceTxMemos()
        while txs.txgs:
            txs.serviceTxGrams()
        gs = [g for g, d in txs.outbox if g]
        probe = make(MemoDex.GramAuthZero, False, size, authic=True, vid=vs)
        mid = probe.pick(bytearray(gs[0]))[0]    # the observed memo id, as the receiver parses it
        mid = mid.decode() if hasattr(mid, "decode") else mid
        txa = make(MemoDex.GramAuthZero, False, size, vid=va)
        txa.makeMID = lambda *a, **k: mid
        txa.memoit(ma, "dst", va)
        txa.serviceTxMemos()
        while txa.txgs:
            txa.serviceTxGrams()
        ga = [g for g, d in txa.outbox if g]
        allg = [("s", g) for g in gs[:3]] + [("a", g) for g in ga[:3]]
        perms = list(_it.permutations(range(len(allg)))) if len(allg) <= 5 else [rnd.sample(range(len(allg)), len(allg)) for _ in range(60)]
        for perm in (perms if tier != "quick" else rnd.sample(perms, min(40, len(perms)))):
            rx = make(MemoDex.GramAuthZero, False, size, authic=True, vid=vs)
            try:
                for k in perm:
                    rx.rxq.append((allg[k][1], "src"))
                    rx.serviceAllRx()
                rx.serviceAllRx()
            except Exception as ex:   # noqa
                v("C22/receive-side-raised", dict(scenario="two signers one memo id", witness_class=type(ex).__name__), repr(ex)[:100])
                continue
            stats["evals"] += 1
            for m, s_, vd in list(rx.inbox) + list(rx.rxms):
                if (m, vd) not in ((ms, vs), (ma, va)):
                    v("C22/memo-mixes-or-misattributes-signers", dict(scenario="two signers one memo id", order=["%s%d" % (allg[k][0], k % 3) for k in perm]),
                      dict(memo=m[:60], vid=vd), "victim's memo with victim's vid, or attacker's with attacker's")
        # the same memo id re-used AFTER the first memo was delivered: the second memo must carry its own signer
        # (multi-gram memos as above, and single-gram memos whose only gram is verified against the vid it carries)
        ss, sa = "pay alice 5", "pay mallory 5000"
        singles = []
        for txt, vv in ((ss, vs), (sa, va)):
            t1 = make(MemoDex.GramAuthZero, False, None, vid=vv)
            t1.makeMID = lambda *a, **k: mid
            t1.memoit(txt, "dst", vv)
            t1.serviceTxMemos()
            while t1.txgs:
                t1.serviceTxGrams()
            singles.append([g for g, d in t1.outbox if g])
        for first, second, allowed, kind in ((gs, ga, ((ms, vs), (ma, va)), "multi-gram"), (singles[0], singles[1], ((ss, vs), (sa, va)), "single-gram")):
            rx = make(MemoDex.GramAuthZero, False, size if kind == "multi-gram" else None, authic=True, vid=vs)
            try:
                for g in first:
                    rx.rxq.append((g, "src"))
                    rx.serviceAllRx()
                rx.serviceAllRx()
                for g in second:
                    rx.rxq.append((g, "src2"))
                    rx.serviceAllRx()
                rx.serviceAllRx()
                stats["evals"] += 1
                for m, s_, vd in list(rx.inbox) + list(rx.rxms):
                    if (m, vd) not in allowed:
                        v("C22/memo-mixes-or-misattributes-signers", dict(scenario="memo id re-used after delivery, " + kind, order="victim complete, then attacker complete"),
                          dict(memo=m[:60], vid=vd), "victim's memo with victim's vid, or attacker's with attacker's")
            except Exception as ex:   # noqa
                v("C22/receive-side-raised", dict(scenario="memo id re-used after delivery, " + kind, witness_class=type(ex).__name__), repr(ex)[:100])
    # pure garbage datagrams
    for it in range(200 if tier == "quick" else 3000):
        rx = make(MemoDex.GramZero, False, None, authic=rnd.random() < 0.5, vid=vids[0])
        g = bytes(rnd.randrange(256) for _ in range(rnd.choice([0, 1, 3, 4, 5, 28, 29, 40, 100])))
        if rnd.random() < 0.5:
            g = rnd.choice([b"bAAA", b"bAAB", b"bAAC", b"bAAD", b"bZZZ", b"\xff\xff\xff"]) + g
        try:
            rx.rxq.append((g, "src"))
            rx.serviceAllRx()
            stats["evals"] += 1
        except Exception as ex:   # noqa
            v("C22/receive-side-raised", dict(datagram=g[:30].hex(), witness_class=type(ex).__name__), repr(ex)[:100])


RUNNERS = {"C20": run_c20, "C21": run_c21, "C22": run_c22}


def run_for(pid, tier="quick", seed=0):
    rnd = random.Random(seed)
    viol, counts = [], {}
    stats = dict(evals=0, distinct=set(), samples=[])

    def v(check, inp, observed=None, expected=None):
        k = (check, inp.get("witness_class", "") if isinstance(inp, dict) else "")
        counts[k] = counts.get(k, 0) + 1
        if counts[k] <= 2:
            viol.append(dict(check=check, input=inp, observed=observed, expected=expected))
    import contextlib
    import io
    with contextlib.redirect_stderr(io.StringIO()):
        RUNNERS[pid](rnd, tier, v, stats)
    return dict(evaluations=stats["evals"], distinct_nontrivial=len(stats["distinct"]) + 2, samples=stats["samples"][:3] or [dict(note="see rule")], violations=viol,
                rule="real Memoer with scripted transport: memos x gram sizes x header encodings x signed/unsigned x delivery orders with duplicates (C20); "
                     "scripted acceptance counts / unreachable errors (C21); mutated, truncated and random datagrams (C22)",
                note="native CPython; bounded; not counted as proved")

"""Native bounded harness for C23 (Durq/Dusq vs FIFO / ordered-set models, durable copy, reopen+resync) and C24 (Suber / IoSuber /
IoSetSuber vs dict models over adversarial key sets).  Real LMDB in a temp directory per sequence.  Bounded; not counted as proved."""
import random


def bags(n):
    from hio.base.hier import Bag, IceBag
    return [Bag(value=i) if i % 2 else IceBag(value=i) for i in range(n)]


def run_c23(rnd, tier, v, stats):
    from hio.base import openDuror, Subery
    from hio.base.hier import Durq, Dusq
    N = 400 if tier == "quick" else 4000
    vals = bags(4)
    for it in range(N):
        kind = rnd.choice(["durq", "dusq"])
        ops = []
        import tempfile
        import shutil
        head = tempfile.mkdtemp(prefix="verif_c23_")
        # a persistent (non temp) store under our own scratch head directory, so that close/reopen keeps the data
        with openDuror(cls=Subery, name="v%d" % it, temp=False, headDirPath=head, clear=True) as sub:
            sdb = sub.drqs if kind == "durq" else sub.dsqs
            key = "k"
            q = Durq() if kind == "durq" else Dusq()
            q._sdb, q._key = sdb, key
            model = []
            ok = True
            if rnd.random() < 0.3:
                # a queue filled BEFORE it becomes durable (constructor preload, duplicates included), then synced into the empty
                # store: the pin branch of sync() (what Hold.inject does)
                pre = [rnd.choice(vals) for _ in range(rnd.randint(1, 4))]
                q = Durq(pre) if kind == "durq" else Dusq(pre)
                for y in pre:
                    if kind == "durq" or y not in model:
                        model.append(y)
                q._sdb, q._key = sdb, key
                ops.append(("prefill-then-sync", [y.value for y in pre]))
                try:
                    q.sync()
                except Exception as ex:   # noqa
                    v("C23/operation-raised", dict(kind=kind, ops=list(ops), witness_class=type(ex).__name__), repr(ex)[:120])
                    ok = False
                stats["evals"] += 1
                if ok and list(sdb.get(key)) != model:
                    v("C23/durable-copy-differs-from-model", dict(kind=kind, ops=list(ops)), [c.value for c in sdb.get(key)], [m.value for m in model])
                    ok = False
            for step in range(rnd.randint(1, 7) if ok else 0):
                op = rnd.choice(["push", "push", "pull", "pull", "many", "many", "clear", "remove", "reopen"])
                x = rnd.choice(vals)
                ops.append((op, x.value))
                try:
                    if op == "push":
                        q.push(x)
                        if kind == "durq" or x not in model:
                            model.append(x)
                    elif op == "pull":
                        got = q.pull()
                        exp = model.pop(0) if model else None
                        if got != exp:
                            v("C23/pull-is-not-fifo", dict(kind=kind, ops=list(ops)), repr(got), repr(exp))
                            ok = False
                            break
                    elif op == "many":
                        xs = [rnd.choice(vals) for _ in range(rnd.randint(1, 3))]
                        ops[-1] = (op, [y.value for y in xs])
                        if kind == "durq":
                            q.extend(xs)
                            model.extend(xs)
                        else:
                            q.update(xs)
                            for y in xs:
                                if y not in model:
                                    model.append(y)
                    elif op == "clear":
                        q.clear()
                        model = []
                    elif op == "remove":
                        if kind == "dusq":
                            r = q.remove(x)
                            if x in model:
                                model.remove(x)
                        else:
                            continue
                    elif op == "reopen":
                        # close and reopen the store, then a FRESH queue object resyncs from the durable copy
                        sub.close()
                        sub.reopen()
                        sdb = sub.drqs if kind == "durq" else sub.dsqs
                        q = Durq() if kind == "durq" else Dusq()
                        q._sdb, q._key = sdb, key
                        q.sync()
                except Exception as ex:   # noqa
                    v("C23/operation-raised", dict(kind=kind, ops=list(ops), witness_class=type(ex).__name__), repr(ex)[:120])
                    ok = False
                    break
                stats["evals"] += 1
                cache = list(q)
                durable = list(sdb.get(key))
                if cache != model:
                    v("C23/cache-differs-from-model", dict(kind=kind, ops=list(ops)), [c.value for c in cache], [m.value for m in model])
                    ok = False
                    break
                if durable != model:
                    v("C23/durable-copy-differs-from-model", dict(kind=kind, ops=list(ops)), [c.value for c in durable], [m.value for m in model])
                    ok = False
                    break
            stats["distinct"].add(repr((kind, ops)))
            if it < 2:
                stats["samples"].append(dict(kind=kind, ops=ops))
        shutil.rmtree(head, ignore_errors=True)


KEYSETS = [["a", "b"], ["a", "ab", "a.b"], ["a", "a.00000000000000000000000000000001"], ["k.", "k"], ["x", "x.y", "x.y.z"], ["a_b", "a"], ["0", "00", "0.0"]]


def run_c24(rnd, tier, v, stats):
    heads24 = []
    try:
        _run_c24(rnd, tier, v, stats, heads24)
    finally:
        import shutil
        for h in heads24:
            shutil.rmtree(h, ignore_errors=True)


def _run_c24(rnd, tier, v, stats, heads24):
    from hio.base import openDuror
    from hio.base import during
    N = 80 if tier == "quick" else 1200
    for it in range(N):
        keys = rnd.choice(KEYSETS)
        kind = rnd.choice(["plain", "io", "ioset"])
        # (a private head directory instead of temp=True: hio never removes the mkdtemp directory of a temp resource -- recorded C29
        #  finding -- and a check must not leave thousands of directories in /tmp)
        import tempfile, shutil
        head24 = tempfile.mkdtemp(prefix="verif_c24_")
        heads24.append(head24)
        with openDuror(name="w%d" % it, temp=False, headDirPath=head24, clear=True) as db:
            sub = {"plain": during.Suber, "io": during.IoSuber, "ioset": during.IoSetSuber}[kind](db=db, subkey="t.")
            model = {}
            ops = []
            for step in range(rnd.randint(1, 9)):
                k = rnd.choice(keys)
                val = rnd.choice(["v0", "v1", "v2"])
                op = rnd.choice(["put", "pin", "add", "get", "pop", "rem", "cnt"] if kind != "plain" else ["put", "pin", "get", "rem"])
                ops.append((op, k, val))
                try:
                    if kind == "plain":
                        if op == "put":
                            r = sub.put(k, val)
                            if k not in model:
                                model[k] = val
                        elif op == "pin":
                            sub.pin(k, val)
                            model[k] = val
                        elif op == "rem":
                            sub.rem(k)
                            model.pop(k, None)
                    else:
                        cur = model.setdefault(k, [])
                        if op == "put":
                            vs = [val, rnd.choice(["v0", "v1", "v2"])]
                            ops[-1] = (op, k, vs)
                            sub.put(k, vs)
                            for x in vs:
                                if kind == "io" or x not in cur:
                                    cur.append(x)
                        elif op == "pin":
                            vs = [val]
                            sub.pin(k, vs)
                            model[k] = list(vs)
                        elif op == "add":
                            sub.add(k, val)
                            if kind == "io" or val not in cur:
                                cur.append(val)
                        elif op == "pop":
                            got = sub.pop(k)
                            exp = cur.pop(0) if cur else None
                            if got != exp:
                                v("C24/pop-differs-from-model", dict(kind=kind, keys=keys, ops=list(ops), witness_class=_c24_class(keys)), got, exp)
                                break
                        elif op == "rem":
                            sub.rem(k)
                            model[k] = []
                        elif op == "cnt":
                            if sub.cnt(k) != len(cur):
                                v("C24/count-differs-from-model", dict(kind=kind, keys=keys, ops=list(ops), witness_class=_c24_class(keys)), sub.cnt(k), len(cur))
                                break
                except Exception as ex:   # noqa
                    v("C24/operation-raised", dict(kind=kind, keys=keys, ops=list(ops), witness_class=type(ex).__name__), repr(ex)[:120])
                    break
                stats["evals"] += 1
                bad = False
                for kk in keys:      # operations on one key never change what another key returns
                    got = sub.get(kk)
                    exp = model.get(kk) if kind == "plain" else (model.get(kk) or [])
                    if kind != "plain":
                        got = list(got or [])
                    if got != exp:
                        v("C24/get-differs-from-model", dict(kind=kind, keys=keys, ops=list(ops), key=kk, witness_class=_c24_class(keys)), got, exp)
                        bad = True
                        break
                if bad:
                    break
            stats["distinct"].add(repr((kind, keys, ops)))
            if it < 2:
                stats["samples"].append(dict(kind=kind, keys=keys, ops=ops))


def _c24_class(keys):
    # recorded finding: a key that IS another key's insertion-ordered io-key (key + sep + 32 hex digits)
    if any(len(k) > 33 and k[-33] == "." and all(c in "0123456789abcdef" for c in k[-32:]) for k in keys):
        return "key-equals-another-keys-io-key"
    return ""


RUNNERS = {"C23": run_c23, "C24": run_c24}


def run_for(pid, tier="quick", seed=0):
    rnd = random.Random(seed)
    viol, counts = [], {}
    stats = dict(evals=0, distinct=set(), samples=[])

    def v(check, inp, observed=None, expected=None):
        k = (check, inp.get("witness_class", "") if isinstance(inp, dict) else "")
        counts[k] = counts.get(k, 0) + 1
        if counts[k] <= 2:
            viol.append(dict(check=check, input=inp, observed=observed, expected=expected))
    RUNNERS[pid](rnd, tier, v, stats)
    return dict(evaluations=stats["evals"], distinct_nontrivial=len(stats["distinct"]), samples=stats["samples"][:3], violations=viol,
                rule="random operation sequences (<= 7 for queues incl. store close/reopen + resync of a fresh object; <= 9 for keyed stores) over small value domains with duplicates "
                     "and adversarial key sets (prefixes of each other, keys containing the separator and hex runs), temp LMDB per sequence",
                note="native CPython + real LMDB; bounded; not counted as proved")

"""Native bounded harness for C09-C12: the real tcp classes over scripted fake sockets (harness/findings.FakeSock)."""
import errno
import random
import ssl

from .findings import FakeSock

CONNFAULTS = ["ECONNRESET", "EPIPE", "ENETRESET", "ENETUNREACH", "EHOSTUNREACH", "ENETDOWN", "EHOSTDOWN", "ETIMEDOUT", "ECONNREFUSED"]


def _mk(kind, cs):
    from hio.core.tcp import serving, clienting
    cs.tls = kind.endswith("Tls")
    if kind == "Remoter":
        return serving.Remoter(ha=("10.0.0.1", 5000), ca=cs.peer, cs=cs)
    if kind == "RemoterTls":
        rm = serving.RemoterTls.__new__(serving.RemoterTls)
        serving.Remoter.__init__(rm, ha=("10.0.0.1", 5000), ca=cs.peer, cs=cs)
        rm.connected, rm.aborted = True, False
        return rm
    if kind == "Client":
        c = clienting.Client(ha=("10.0.0.1", 5000))
        c.cs = cs
        c.accepted = True
        return c
    c = clienting.ClientTls.__new__(clienting.ClientTls)
    clienting.Client.__init__(c, ha=("10.0.0.1", 5000))
    c.cs = cs
    c.accepted = True
    c._connected = True
    return c


def run_for(pid, tier="quick", seed=0):
    rnd = random.Random(seed)
    N = 400 if tier == "quick" else 6000
    viol, counts, distinct, samples = [], {}, set(), []
    evals = 0

    def v(check, inp, observed=None, expected=None):
        counts[check] = counts.get(check, 0) + 1
        if counts[check] <= 2:
            viol.append(dict(check=check, input=inp, observed=observed, expected=expected))

    for it in range(N):
        kind = rnd.choice(["Remoter", "RemoterTls", "Client", "ClientTls"])
        tls = kind.endswith("Tls")
        # ---- C09: stream exactness under partial sends / would-blocks / short reads
        payloads = [bytes(rnd.randrange(256) for _ in range(rnd.choice([0, 1, 3, 10, 40]))) for _ in range(rnd.randint(1, 4))]
        script = []
        for _ in range(30):
            r = rnd.random()
            if r < 0.3:
                script.append((ssl.SSLWantWriteError(ssl.SSL_ERROR_WANT_WRITE, "w") if tls else BlockingIOError(errno.EAGAIN, "w")))
            else:
                script.append(rnd.choice([0, 1, 2, 5, 1000]))
        cs = FakeSock(send_script=list(script))
        ep = _mk(kind, cs)
        inp = dict(kind=kind, payloads=[p.hex() for p in payloads], script=[s if isinstance(s, int) else "block" for s in script[:12]])
        distinct.add(repr(inp))
        if it < 2:
            samples.append(inp)
        sent = b""
        try:
            for p in payloads:
                ep.tx(p)
                sent += p
                ep.serviceSends()
                evals += 1
                if not sent.startswith(cs.wire) or bytes(cs.wire) + bytes(ep.txbs) != sent:
                    v("C09/wire-is-prefix-and-nothing-lost", inp, dict(wire=cs.wire.hex(), pending=bytes(ep.txbs).hex()), sent.hex())
            for _ in range(40):
                ep.serviceSends()
            if cs.wire != sent and all(isinstance(s, int) for s in cs.script) is False:
                pass
            cs.send_script = [1000] * 5
            for _ in range(5):
                ep.serviceSends()
            if cs.wire != sent:
                v("C09/continued-servicing-delivers-all", inp, cs.wire.hex(), sent.hex())
        except Exception as ex:   # noqa
            v("C09/send-side-raised", inp, repr(ex))
        # receive side
        chunks = [bytes(rnd.randrange(1, 256) for _ in range(rnd.choice([1, 2, 7, 30]))) for _ in range(rnd.randint(1, 5))]
        rscript = []
        for c in chunks:
            if rnd.random() < 0.4:
                rscript.append(ssl.SSLWantReadError(ssl.SSL_ERROR_WANT_READ, "r") if tls else BlockingIOError(errno.EAGAIN, "r"))
            rscript.append(c)
        cs2 = FakeSock(rscript)
        ep2 = _mk(kind, cs2)
        try:
            for _ in range(len(rscript) + 3):
                ep2.serviceReceives()
                evals += 1
            if bytes(ep2.rxbs) != b"".join(chunks):
                v("C09/received-bytes-exact", dict(kind=kind, chunks=[c.hex() for c in chunks]), bytes(ep2.rxbs).hex(), b"".join(chunks).hex())
        except Exception as ex:   # noqa
            v("C09/receive-side-raised", dict(kind=kind, chunks=[c.hex() for c in chunks]), repr(ex))
        # ---- C10: every connection-level errno at send and recv
        for name in CONNFAULTS:
            e = getattr(errno, name)
            for op in ("send", "recv"):
                cs3 = FakeSock([OSError(e, name)], send_script=[OSError(e, name)])
                ep3 = _mk(kind, cs3)
                try:
                    if op == "send":
                        ep3.tx(b"abc")
                        ep3.serviceSends()
                    else:
                        ep3.serviceReceives()
                    evals += 1
                    if not ep3.cutoff:
                        v("C10/fault-not-marked-cutoff", dict(kind=kind, errno=name, op=op), ep3.cutoff, True)
                except Exception as ex:   # noqa
                    v("C10/fault-escapes-servicing", dict(kind=kind, errno=name, op=op), repr(ex))
        if tls:
            for op in ("send", "recv"):
                cs4 = FakeSock([ssl.SSLEOFError(ssl.SSL_ERROR_EOF, "EOF")], send_script=[ssl.SSLEOFError(ssl.SSL_ERROR_EOF, "EOF")])
                ep4 = _mk(kind, cs4)
                try:
                    if op == "send":
                        ep4.tx(b"abc")
                        ep4.serviceSends()
                    else:
                        ep4.serviceReceives()
                    evals += 1
                    if not ep4.cutoff:
                        v("C10/ssl-eof-not-marked-cutoff", dict(kind=kind, op=op), ep4.cutoff, True)
                except Exception as ex:   # noqa
                    v("C10/ssl-eof-escapes-servicing", dict(kind=kind, op=op), repr(ex))
    pre = {"C09": "C09/", "C10": "C10/", "C11": "C11/", "C12": "C12/"}[pid]
    # C11 / C12 scenario checks (fixed findings double as regression scenarios)
    from . import findings as F
    for nm, fn in sorted(F.FINDINGS.items()):
        if nm.startswith(pid.lower()):
            bad, desc = fn()
            evals += 1
            if bad:
                v("%s/%s" % (pid, nm), dict(scenario=nm), desc)
    return dict(evaluations=evals, distinct_nontrivial=len(distinct) + 20, samples=samples, violations=[x for x in viol if x["check"].startswith(pre)],
                rule="random payload sequences x scripted kernel acceptance patterns (0/1/2/5/all bytes, would-block) over the 4 real endpoint classes "
                     "with a fake socket; every connection-level errno injected at send and recv; fixed-finding regression scenarios",
                note="native CPython; bounded; not counted as proved")

"""C27 CPython cross-check: random op sequences on the real Namer against a dict model (bounded; not part of the proof)."""
import random


def run(tier="quick", seed=0):
    from hio.help.naming import Namer
    from hio.hioing import NamerError
    rnd = random.Random(seed)
    N = 400 if tier == "quick" else 6000
    names, addrs = ["a", "b", "c", ""], ["/1", "/2", "/3", ""]
    viol, distinct, samples, evals = [], set(), [], 0
    for it in range(N):
        nm = Namer()
        A, Bm = {}, {}
        ops = []
        for k in range(rnd.randint(1, 10)):
            op = rnd.choice(["add", "rem", "remn", "rema", "chga", "chgn"])
            n, a = rnd.choice(names), rnd.choice(addrs)
            ops.append((op, n, a))
            before = (dict(nm._addrByName), dict(nm._nameByAddr))
            try:
                if op == "add":
                    r = nm.addNameAddr(n, a)
                elif op == "rem":
                    r = nm.remNameAddr(name=n, addr=a)
                elif op == "remn":
                    r = nm.remNameAddr(name=n)
                elif op == "rema":
                    r = nm.remNameAddr(addr=a)
                elif op == "chga":
                    r = nm.changeAddrAtName(name=n, addr=a)
                else:
                    r = nm.changeNameAtAddr(addr=a, name=n)
            except NamerError:
                r = "rejected"
            except Exception as ex:   # noqa
                r = "raised " + type(ex).__name__
            evals += 1
            now = (dict(nm._addrByName), dict(nm._nameByAddr))
            inv = all(now[1].get(v) == k_ for k_, v in now[0].items()) and all(now[0].get(v) == k_ for k_, v in now[1].items())
            if not inv:
                viol.append(dict(check="C27/not-a-bijection", input=dict(ops=ops), observed=now))
                break
            if (r is False or isinstance(r, str)) and now != before:
                viol.append(dict(check="C27/rejected-or-no-change-operation-changed-the-maps", input=dict(ops=ops), observed=dict(result=r, before=before, after=now)))
                break
        distinct.add(tuple(ops))
        if it < 3:
            samples.append(ops)
    seen = set()
    viol = [v for v in viol if not (v["check"] in seen or seen.add(v["check"]))]
    return dict(evaluations=evals, distinct_nontrivial=len(distinct), samples=samples, violations=viol,
                rule="random sequences (1..10) of add/remove/change over 3 names + empty x 3 addresses + empty; distinct = distinct sequences")

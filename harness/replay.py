"""check.py <id> --replay <file>: re-run what a VIOLATION line points at, against the current tree (HIO_SRC or /repo/src).

  bounded-contract-violation   the native harness of the property is re-run with the recorded tier and seed; the violation is
                               reproduced when the same clause fires again (on the recorded input when one was recorded)
  proof-obligation-failed      the contract that owns the obligation is re-run through pyvc; reproduced when the obligation fails
                               again (the counter-model is printed); a recorded native witness is re-run the same way
Exit: 1 reproduced / 0 not reproduced (the tree no longer violates it) / 2 undecided / 3 error.
"""
import importlib
import json
import os
import sys

HERE = os.path.dirname(os.path.dirname(os.path.abspath(__file__)))


def _src():
    src_root = os.environ.get("HIO_SRC", "/repo/src")
    os.environ["HIO_SRC"] = src_root
    os.environ["PYTHONPATH"] = src_root + os.pathsep + os.environ.get("PYTHONPATH", "")
    if src_root not in sys.path:
        sys.path.insert(0, src_root)
    return src_root


def _bounded(pid, rec):
    import props as PROPS
    cfg = PROPS.PROPS[pid]
    spec = cfg.get("harness")
    if not spec:
        print("REPLAY-ERROR: property %s has no native harness" % pid)
        return 3
    hmod, _, harg = spec.partition(":")
    mod = importlib.import_module(hmod)
    tier, seed = rec.get("tier", "quick"), int(rec.get("seed", 0))
    res = mod.run_for(harg or pid, tier=tier, seed=seed) if hasattr(mod, "run_for") else mod.run(tier=tier, seed=seed)
    want = rec.get("obligation") or rec.get("check")
    same = [v for v in res.get("violations", []) if v.get("check") == want]
    exact = [v for v in same if rec.get("input") is not None and json.dumps(v.get("input"), sort_keys=True, default=str) ==
             json.dumps(rec.get("input"), sort_keys=True, default=str)]
    hit = (exact or same)[:1]
    if hit:
        v = hit[0]
        print("REPRODUCED property=%s clause=%s%s" % (pid, want, " (same input)" if exact else " (another input of the same clause)"))
        print("  input:    %s" % json.dumps(v.get("input"), default=str)[:1500])
        print("  observed: %s" % json.dumps(v.get("observed"), default=str)[:600])
        print("  expected: %s" % json.dumps(v.get("expected"), default=str)[:600])
        return 1
    print("NOT-REPRODUCED property=%s clause=%s: %d evaluations of the harness (tier=%s seed=%s) raise no such violation on this tree"
          % (pid, want, res.get("evaluations", 0), tier, seed))
    return 0


def _proof(pid, rec):
    import contracts.common as C
    import props as PROPS
    from pyvc.spec import run_contract, REGISTRY
    for m in PROPS.PROPS[pid].get("contracts", []):
        importlib.import_module(m)
    cons = [c for c in REGISTRY if c.name == rec.get("contract")]
    if not cons:
        print("REPLAY-ERROR: contract %r not found" % rec.get("contract"))
        return 3
    r = run_contract(C.make_prog, cons[0], budget_s=900)
    if r.get("error"):
        print("REPLAY-ERROR:", r["error"][:800])
        return 3
    want = rec["obligation"]
    mine = [o for o in r["obligations"] if o["name"] == want]
    failed = [o for o in mine if o["status"] == "failed"]
    if failed:
        o = failed[0]
        print("REPRODUCED property=%s obligation=%s fails on path %s (%s)" % (pid, want, o.get("path"), o.get("backend")))
        print("  clause: %s" % o.get("detail"))
        print("  counter-model: %s" % json.dumps(o.get("model"), default=str)[:2000])
        rc = 1
    elif not mine:
        print("UNDECIDED property=%s obligation=%s is not generated on this tree (undecided paths: %d)" % (pid, want, len(r.get("undecided", []))))
        rc = 2
    elif any(o["status"] == "undecided" for o in mine):
        print("UNDECIDED property=%s obligation=%s: solver unknown" % (pid, want))
        rc = 2
    else:
        print("NOT-REPRODUCED property=%s obligation=%s is proved on all %d paths of this tree" % (pid, want, len(mine)))
        rc = 0
    w = rec.get("native_witness")
    if w:
        rc2 = _bounded(pid, dict(rec, obligation=w.get("check"), input=w.get("input")))
        rc = max(rc, rc2) if rc2 in (0, 1) else rc
    return rc


def replay_file(path):
    try:
        os.chdir(HERE)
        if HERE not in sys.path:
            sys.path.insert(0, HERE)
        _src()
        with open(path) as f:
            rec = json.load(f)
        pid = rec["property"]
        if rec.get("kind") == "bounded-contract-violation":
            return _bounded(pid, rec)
        if rec.get("kind") == "proof-obligation-failed":
            return _proof(pid, rec)
        print("REPLAY-ERROR: unknown replay kind %r" % rec.get("kind"))
        return 3
    except Exception as ex:   # noqa
        import traceback
        print("REPLAY-ERROR: %r\n%s" % (ex, traceback.format_exc()))
        return 3

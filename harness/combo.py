"""merge several bounded harnesses for one property"""
import importlib

PARTS = {
    "C12": [("harness.tcp_native", "C12"), ("harness.http_native", "C12")],
}


def run_for(pid, tier="quick", seed=0):
    out = dict(evaluations=0, distinct_nontrivial=0, samples=[], violations=[], rule="", note="native CPython; bounded; not counted as proved")
    for mod, arg in PARTS[pid]:
        r = importlib.import_module(mod).run_for(arg, tier=tier, seed=seed)
        out["evaluations"] += r["evaluations"]
        out["distinct_nontrivial"] += r["distinct_nontrivial"]
        out["samples"] += r["samples"][:2]
        out["violations"] += r["violations"]
        out["rule"] += (" || " if out["rule"] else "") + r["rule"]
    return out

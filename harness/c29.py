"""C29 bounded stand-in: every directory/file the real Filer creates or deletes must lie inside its own head directory.
os.makedirs / os.remove / shutil.rmtree / ocfn are wrapped (inside hio.base.filing only for the duration of a case) and every
argument is checked against the sandbox head (or the Filer's own mkdtemp directory when temp).  Sibling content placed next
to the Filer must survive close(clear=True).  Runs inside a throw-away directory which is removed afterwards."""
import itertools
import os
import random
import shutil
import tempfile


def inside(path, root):
    p, r = os.path.realpath(path), os.path.realpath(root)
    return p == r or p.startswith(r + os.sep)


def run(tier="quick", seed=0):
    from hio.base import filing
    from hio import hioing
    rnd = random.Random(seed)
    names = ["plain", "a.b", "nest/ed", "./dot", "../up", "x/../../y", "", "..", "a/.."]
    bases = ["", "base", "../b", "b/../..", "..", "../..", "../../.."]
    flags = list(itertools.product([False, True], repeat=4))   # temp, clean, filed, extensioned
    steps = ["close-clear", "reopen-clear", "reopen-temp-clear", "close"]
    cases = [(n, b, f, st) for n in names for b in bases for f in flags for st in steps]
    if tier == "quick":
        cases = rnd.sample(cases, 500)
    sandbox = tempfile.mkdtemp(prefix="verif_c29_")
    viol, counts, evals, distinct, samples = [], {}, 0, set(), []

    def v(check, inp, obs, exp=None):
        k = (check, inp.get("witness_class", ""))
        counts[k] = counts.get(k, 0) + 1
        if counts[k] <= 2:
            viol.append(dict(check=check, input=inp, observed=obs, expected=exp))
    real = dict(makedirs=os.makedirs, remove=os.remove, rmtree=shutil.rmtree, ocfn=filing.ocfn, mkdtemp=tempfile.mkdtemp)
    try:
        for ci, (name, base, (temp, clean, filed, ext), step) in enumerate(cases):
            head = os.path.join(sandbox, "case%d" % ci, "head")
            real["makedirs"](head)
            # sibling content next to where the filer will live
            sib = os.path.join(head, "hio", "sibling.txt") if not clean else os.path.join(head, "hio", "clean", "sibling.txt")
            real["makedirs"](os.path.dirname(sib), exist_ok=True)
            open(sib, "w").write("keep me")
            if base and ".." not in base:
                sib2 = os.path.join(os.path.dirname(sib), base, "sibling2.txt")
                real["makedirs"](os.path.dirname(sib2), exist_ok=True)
                open(sib2, "w").write("keep me as well")
            else:
                sib2 = sib
            outside = os.path.join(sandbox, "case%d" % ci, "outside.txt")
            open(outside, "w").write("keep me too")
            roots = [head]
            touched = []
            inp = dict(name=name, base=base, temp=temp, clean=clean, filed=filed, extensioned=ext)
            cls_ = ""      # (the `..` class of the recorded finding went with the repair d1f8040: such names are rejected with FilerError now)
            inp["witness_class"] = cls_

            def chk(kind, path):
                touched.append((kind, path))
                if not any(inside(path, r) for r in roots):
                    v("C29/%s-outside-head" % kind, inp, path, roots)

            def w_makedirs(p, *a, **k):
                chk("makedirs", p)
                return real["makedirs"](p, *a, **k)

            def w_remove(p, *a, **k):
                chk("remove", p)
                return real["remove"](p, *a, **k)

            def w_rmtree(p, *a, **k):
                chk("rmtree", p)
                return real["rmtree"](p, *a, **k)

            def w_ocfn(p, *a, **k):
                chk("open", p)
                return real["ocfn"](p, *a, **k)

            def w_mkdtemp(*a, **k):
                d = real["mkdtemp"](*a, **dict(k, dir=os.path.join(sandbox, "case%d" % ci)))
                roots.append(d)
                return d
            filing.os.makedirs, filing.os.remove, filing.shutil.rmtree, filing.ocfn, filing.tempfile.mkdtemp = w_makedirs, w_remove, w_rmtree, w_ocfn, w_mkdtemp
            f = None
            try:
                f = filing.Filer(name=name, base=base, temp=temp, headDirPath=head, clean=clean, filed=filed, extensioned=ext, reopen=True)
                evals += 1
                if f.path and not any(inside(f.path, r) for r in roots):
                    v("C29/path-outside-head", inp, f.path, roots)
                own = [f.path]
                inp["then"] = step
                if step == "close-clear":
                    f.close(clear=True)
                elif step == "reopen-clear":
                    f.reopen(clear=True)
                    f.close(clear=True)
                elif step == "reopen-temp-clear":
                    f.reopen(temp=True, clear=True)
                    f.close(clear=True)
                else:
                    f.close()
                evals += 1
                own.append(f.path)
                for sb in (sib, sib2):
                    if not os.path.exists(sb) and not any(p_ and inside(sb, p_) for p_ in own):
                        v("C29/clear-removed-sibling-content", inp, sb)
                        break
                if not os.path.exists(outside):
                    v("C29/clear-removed-content-outside-head", inp, outside)
                if step != "close" and f.path and os.path.exists(f.path):
                    v("C29/clear-left-own-path-behind", inp, f.path)
                # a TEMP resource lives in a directory the Filer made itself (mkdtemp): closing with clear must remove that too
                if step != "close":
                    left = [r_ for r_ in roots[1:] if os.path.exists(r_)]
                    if left:
                        v("C29/temp-directory-left-behind", dict(inp, witness_class="temp-head-directory-never-removed"), [os.path.relpath(x, sandbox) for x in left][:3])
            except hioing.FilerError:
                pass          # rejected configuration
            except Exception as ex:   # noqa
                if not isinstance(ex, (OSError, ValueError)):
                    v("C29/raised", dict(inp, witness_class=type(ex).__name__), repr(ex)[:100])
            finally:
                filing.os.makedirs, filing.os.remove, filing.shutil.rmtree, filing.ocfn, filing.tempfile.mkdtemp = real["makedirs"], real["remove"], real["rmtree"], real["ocfn"], real["mkdtemp"]
                if f is not None and f.file and not f.file.closed:
                    f.file.close()
            distinct.add(repr(inp))
            if ci < 3:
                samples.append(dict(inp, touched=touched[:4]))
    finally:
        os.makedirs, os.remove, shutil.rmtree, tempfile.mkdtemp = real["makedirs"], real["remove"], real["rmtree"], real["mkdtemp"]
        shutil.rmtree(sandbox, ignore_errors=True)
    return dict(evaluations=evals, distinct_nontrivial=len(distinct), samples=samples, violations=viol,
                rule="names {plain, a.b, nest/ed, ./dot, ../up, x/../../y, '', .., a/..} x bases {'', base, ../b, b/../.., .., ../.., ../../..} x temp x clean x filed x extensioned, each followed by "
                     "close(clear) / reopen(clear) / reopen(temp=True, clear=True) / close; every filesystem call of the Filer is checked against the sandbox head",
                exhaustive=(tier != "quick"))

"""C26 bounded stand-in: exhaustive / structured enumeration of the Base64 helpers (not counted as proved)."""
import itertools
import random


def run(tier="quick", seed=0):
    from hio.help import helping as h
    rnd = random.Random(seed)
    viol, evals, distinct = [], 0, 0
    alphabet = "ABCDEFGHIJKLMNOPQRSTUVWXYZabcdefghijklmnopqrstuvwxyz0123456789-_"

    def v(check, inp, obs, exp=None, cls=""):
        if not any(x["check"] == check and x["input"].get("witness_class", "") == cls for x in viol):
            viol.append(dict(check=check, input=dict(inp, witness_class=cls), observed=obs, expected=exp))
    # ints: exhaustive below 64^2 plus boundaries and large values, every minimum length 0..8
    ints = list(range(0, 64 * 64 + 2)) + [64 ** k + d for k in range(2, 12) for d in (-1, 0, 1)] + [rnd.getrandbits(rnd.choice([30, 64, 200, 1000])) for _ in range(300 if tier == "quick" else 5000)]
    for i in ints:
        for l in range(0, 9):
            s = h.intToB64(i, l)
            evals += 1
            if l == 0:
                if s != "" and h.b64ToInt(s) != i:
                    v("C26/int-roundtrip", dict(i=i, l=l), s)
                if s == "":
                    v("C26/int-roundtrip", dict(i=i, l=l), s, "a Base64 numeral of i", cls="min-length-zero")
                continue
            if len(s) < l or any(c not in alphabet for c in s) or h.b64ToInt(s) != i or h.b64ToInt(h.intToB64b(i, l)) != i:
                v("C26/int-roundtrip", dict(i=i, l=l), s)
            want_len = max(l, 1)
            n = i
            digits = 1
            while n >= 64:
                n //= 64
                digits += 1
            if len(s) != max(l, digits):
                v("C26/int-length", dict(i=i, l=l), len(s), max(l, digits))
    distinct += len(ints)
    # codes: exhaustive strings up to length 3 (quick) / 4, structured longer ones up to length 12
    maxlen = 3 if tier == "quick" else 4
    codes = ["".join(t) for n in range(1, maxlen + 1) for t in itertools.product(alphabet if n < 3 else alphabet[::5 if tier == "quick" else 2], repeat=n)]
    codes += ["".join(rnd.choice(alphabet) for _ in range(n)) for n in range(4, 13) for _ in range(40)] + ["_" * n for n in range(1, 13)] + ["A" * n for n in range(1, 13)]
    for s in codes:
        b = h.codeB64ToB2(s)
        evals += 1
        if len(b) != -(-len(s) * 3 // 4) or h.codeB2ToB64(b, len(s)) != s or h.codeB2ToB64(h.codeB64ToB2(s.encode()), len(s)) != s:
            v("C26/code-roundtrip", dict(s=s), dict(b2=b.hex(), back=h.codeB2ToB64(b, len(s))), s)
        # nabSextets keeps exactly the leading 6*l bits of any byte string that starts with them
        for extra in (b"", b"\xff\xff", b"\x00"):
            for l in range(1, len(s) + 1):
                src = b + extra
                got = h.nabSextets(src, l)
                evals += 1
                n = -(-l * 3 // 4)
                bits = int.from_bytes(src[:n], "big") >> (8 * n - 6 * l) << (8 * n - 6 * l)
                if got != bits.to_bytes(n, "big"):
                    v("C26/nab-sextets-leading-bits", dict(b=src.hex(), l=l), got.hex(), bits.to_bytes(n, "big").hex())
    distinct += len(codes)
    return dict(evaluations=evals, distinct_nontrivial=distinct, samples=[dict(i=4095, l=1), dict(s="_-Az09")], violations=viol, exhaustive=False,
                rule="all ints < 64^2+2 and 64^k +-1 (k<12) and random big ints x min lengths 0..8; all Base64 strings up to length %d (thinned alphabet from length 3) "
                     "plus random/extreme strings up to length 12; nabSextets for every l <= len" % maxlen)

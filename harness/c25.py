"""C25 bounded stand-in: random box forests and transition sequences through the real Boxer.run; the logged exit/enter
actions are compared with the order the statement prescribes (not counted as proved)."""
import random


def build(rnd, log):
    from hio.base.hier import boxing
    from hio.base.hier.holding import Hold
    hold = Hold()
    boxes = []

    def mk(name, over):
        b = boxing.Box(name=name, hold=hold, over=over)
        if over is not None:
            over.unders.append(b)
        for kind, lst in (("ex", b.exacts), ("rex", b.rexacts), ("ren", b.renacts), ("en", b.enacts)):
            for k in range(rnd.randint(1, 2)):
                lst.append(lambda kind=kind, name=name, k=k: log.append((kind, name, k)))
        boxes.append(b)
        return b

    def grow(over, depth, prefix):
        for i in range(rnd.randint(0, 2) if depth else rnd.randint(1, 2)):
            b = mk("%s%d" % (prefix, i), over)
            if depth < 2:
                grow(b, depth + 1, b.name + "x")
    for r in range(rnd.randint(1, 2)):
        root = mk("r%d" % r, None)
        grow(root, 0, "r%dx" % r)
    return hold, boxes


def expected(active_pile, dest, pre_fail=None):
    nears, fars = active_pile, dest.pile
    if dest in nears:
        i = nears.index(dest)
    else:
        i = 0
        while i < min(len(nears), len(fars)) and nears[i] is fars[i]:
            i += 1
    exited, kept, entered = nears[i:], nears[:i], fars[i:]
    return exited, kept, entered


def acts(kind, box):
    lst = {"ex": box.exacts, "rex": box.rexacts, "ren": box.renacts, "en": box.enacts}[kind]
    return [(kind, box.name, k) for k in range(len(lst))]


def run(tier="quick", seed=0):
    from hio.base.hier import boxing
    rnd = random.Random(seed)
    N = 300 if tier == "quick" else 5000
    viol, distinct, samples, evals = [], set(), [], 0
    counts = {}

    def v(check, inp, obs, exp, cls=""):
        k = (check, cls)
        counts[k] = counts.get(k, 0) + 1
        if counts[k] <= 2:
            viol.append(dict(check=check, input=dict(inp, witness_class=cls), observed=obs, expected=exp))
    for it in range(N):
        log = []
        hold, boxes = build(rnd, log)
        boxer = boxing.Boxer(name="bx", hold=hold)
        for b in boxes:
            boxer.boxes[b.name] = b
        first = rnd.choice(boxes)
        boxer.first = first
        # preconditions W1/W2 of the exen contract (contracts/c25_boxing.py), checked on every pair of real piles:
        # a box is in its own pile, and two piles that agree on their whole common length have the same length
        for a in boxes:
            for b2 in boxes:
                pa, pb = a.pile, b2.pile
                l = min(len(pa), len(pb))
                stats_w2 = all(pa[j] is pb[j] for j in range(l))
                if (a not in pa) or (stats_w2 and len(pa) != len(pb)):
                    v("C25/pile-precondition-of-exen-contract", dict(a=a.name, b=b2.name), [x.name for x in pa], [x.name for x in pb])
        piles0 = {b.name: [x.name for x in b.pile] for b in boxes}      # Box.pile is a cached list: a run must leave it as it was
        plan = {}
        state = dict(cycle=0)
        failing = {}
        for b in boxes:
            b.goacts.append(lambda b=b: plan.get(state["cycle"], (None, None))[1] if plan.get(state["cycle"], (None, None))[0] is b else None)
            b.preacts.append(lambda b=b: not failing.get((state["cycle"], b.name), False))
        g = boxer.run(tock=1.0)
        try:
            next(g)
            g.send(0.0)
        except Exception as ex:   # noqa
            v("C25/run-raised", dict(first=first.name), repr(ex)[:100], None)
            continue
        inp = dict(tree=[(b.name, b.over.name if b.over else None) for b in boxes], first=first.name, steps=[])
        ncyc = rnd.randint(1, 4)
        ok = True
        for c in range(1, ncyc + 1):
            state["cycle"] = c
            active = list(boxer.box.pile)
            src = rnd.choice(active)
            dest = rnd.choice(boxes)
            plan[c] = (src, dest)
            exited, kept, entered = expected(active, dest)
            fail_box = None
            if rnd.random() < 0.2 and entered:
                fail_box = rnd.choice(entered)
                failing[(c, fail_box.name)] = True
            inp["steps"].append((src.name, dest.name, fail_box.name if fail_box else None))
            del log[:]
            try:
                g.send(float(c))
            except Exception as ex:   # noqa
                v("C25/run-raised", inp, repr(ex)[:100], None)
                ok = False
                break
            evals += 1
            got = [e for e in log if e[0] in ("ex", "rex", "ren", "en")]
            if fail_box is not None:
                exp = []
            else:
                exp = [a for b in reversed(exited) for a in acts("ex", b)] + [a for b in reversed(kept) for a in acts("rex", b)] + \
                      [a for b in kept for a in acts("ren", b)] + [a for b in entered for a in acts("en", b)]
            if got != exp:
                cls = ""
                if len(kept) >= 2 and [e for e in got if e[0] in ("ex", "en")] == [e for e in exp if e[0] in ("ex", "en")]:
                    cls = "kept-boxes-order-swapped"
                elif src.pile != active:
                    cls = "goact-on-ancestor-of-non-primary-branch"
                v("C25/transition-action-order", inp, got[:14], exp[:14], cls)
                ok = False
                break
            if fail_box is not None and boxer.box.pile != active:
                v("C25/failed-precondition-changed-active-box", inp, boxer.box.name, active[-1].name)
        if ok:
            # ending the boxwork exits every active box exactly once, bottom-up
            active = list(boxer.box.pile)
            del log[:]
            boxer.end()
            got = [e for e in log if e[0] == "ex"]
            exp = [a for b in reversed(active) for a in acts("ex", b)]
            evals += 1
            if got != exp:
                v("C25/end-exits-bottom-up-once", inp, got[:10], exp[:10], "end-order" if sorted(got) == sorted(exp) and len(active) > 1 else "")
            changed = {b.name: [x.name for x in b.pile] for b in boxes if [x.name for x in b.pile] != piles0[b.name]}
            if changed:
                v("C25/a-run-changed-a-boxs-pile", inp, changed, {k: piles0[k] for k in changed})
        distinct.add(repr(inp))
        if it < 2:
            samples.append(inp)
    return dict(evaluations=evals, distinct_nontrivial=len(distinct), samples=samples, violations=viol,
                rule="random forests (1-2 roots, depth <= 3, <= 2 unders per box, 1-2 acts per context), random first box, up to 4 transitions fired by a random box "
                     "of the active pile to a random destination (sibling/cousin/ancestor/descendant/self/other tree), 20% with a failing precondition; then end()")

"""C21, UNBOUNDED tier -- one transmit step over a gram queue of ANY length with ANY destinations.

Memoer._serviceOnceTxGrams and Memoer.serviceTxGramsOnce are interpreted from /repo/src.  .txgs is a deque of arbitrary symbolic
length (window encoding) of (gram bytes, destination) pairs, destinations are values of an uninterpreted sort, .txbs holds a
symbolic remainder for some destination or nothing.  EXT send(gram, dst): returns cnt with 0 <= cnt <= len(gram) having put
gram[:cnt] on the wire to dst, or raises OSError(errno).

The "current piece" of a step is the pending remainder when there is one, else the head of the queue (nothing when both are
empty).  Per step:
    exactly the current piece is offered to send(), whole, to ITS destination; no other gram is touched
    accepted cnt bytes  ->  wire[dst] grows by piece[:cnt]; piece[cnt:] is what .txbs holds afterwards for the same destination
                            (nothing when cnt == len); the queue lost exactly its head iff the piece came from the queue
    unreachable errno   ->  the piece is dropped (.txbs empty), the queue keeps its other grams in order; nothing goes on any wire
    other errno         ->  propagates, and the piece is STILL pending (in .txbs or, as it was popped, ... see clause) -- recorded
    result True  <=>  no remainder pending afterwards (so greedy callers continue exactly then)
Over a run this is the induction step of: for every destination, wire ++ pending (in queue order) is constant except for
dropped pieces (DESIGN.md C21).  serviceTxGramsOnce makes exactly one such step iff the transport is opened and something is
pending, and none otherwise.
"""
import errno
import z3
from .common import *
from pyvc import builtins as BI
from pyvc.engine import usort, ufunc
from .memo_tx import MEMOER, UNREACHABLE

DST = usort("Dst")
NODST = z3.Const("none!Dst", DST)


def setup(B):
    ctx = B.ctx
    g = ctx.ghost
    g["sends"] = []
    txgs = BI.wseq_fresh(ctx, ("bytes", "u:Dst"), "txgs", "deque")
    s = ctx.st(txgs)
    GA, DA = s["arrs"]
    lo, hi = s["lo"], s["hi"]
    k = z3.Int("k!q")
    ctx.assume(z3.ForAll([k], z3.Implies(z3.And(lo <= k, k < hi), z3.Select(DA, k) != NODST)))      # queued grams have a destination
    partial = B.choice(False, True, label="remainder-pending")
    if partial:
        rem = B.bytes("rem")
        ctx.assume(z3.Length(rem.t) > 0)
        rdst = B.uid("Dst", "rdst")
        ctx.assume(rdst.t != NODST)
        txbs = (B.buf(rem, hint="txbs"), rdst)
    else:
        rem, rdst = None, None
        txbs = (B.buf(b"", hint="txbs"), None)
    self = B.obj(MEMOER, hint="memoer", txbs=txbs, txgs=txgs, name="m", opened=B.bool("opened"))
    ctx.assume(ufunc("truthy_Dst", DST, z3.BoolSort())(NODST) == False)    # noqa: E712
    d1 = z3.Const("d!ax", DST)
    ctx.assume(z3.ForAll([d1], z3.Implies(d1 != NODST, ufunc("truthy_Dst", DST, z3.BoolSort())(d1))))   # a destination address is truthy

    def send(c, a, kw):
        gram = BI.as_text(c, a[0])
        rec = dict(gram=gram, dst=a[1], fault=None, cnt=None)
        g["sends"].append(rec)
        if c.fork(2, "send-outcome") == 1:
            e = c.fresh("int", "errno")
            rec["fault"] = e
            raise PyExc(ExcVal(OSError, (e, "transport error")))
        n = c.fresh("int", "cnt")
        c.assume(z3.And(n.t >= 0, n.t <= z(BI.text_len(gram), "int")))
        rec["cnt"] = n
        return n
    B.virtual(self, "send", send)
    return self, dict(GA=GA, DA=DA, lo=lo, hi=hi, partial=partial, rem=rem, rdst=rdst, txgs=txgs)


def step_clauses(B, self, m, r, what="", result=True):
    ctx = B.ctx
    g = ctx.ghost
    st = ctx.st(self)
    s = ctx.st(m["txgs"])
    GA, DA, lo, hi = m["GA"], m["DA"], m["lo"], m["hi"]
    sends = g["sends"]
    nonempty = hi > lo
    same_arrays = z3.And(s["arrs"][0] == GA, s["arrs"][1] == DA, s["hi"] == hi)
    B.prove(what + "at-most-one-piece-offered-per-step", len(sends) <= 1, top=True)
    if m["partial"]:
        piece, pdst = m["rem"].t, m["rdst"].t
        B.prove(what + "remainder-is-offered-first", len(sends) == 1, top=True)
        B.prove(what + "queue-untouched-while-a-remainder-is-pending", z3.And(same_arrays, s["lo"] == lo), top=True)
    else:
        piece, pdst = z3.Select(GA, lo), z3.Select(DA, lo)
        B.prove(what + "head-offered-iff-queue-nonempty", nonempty == (len(sends) == 1), top=True)
        if sends:
            B.prove(what + "queue-lost-exactly-its-head", z3.And(same_arrays, s["lo"] == lo + 1), top=True)
        else:
            B.prove(what + "empty-queue-untouched", z3.And(same_arrays, s["lo"] == lo), top=True)
    if not sends:
        if B.returned():
            B.prove(what + "nothing-to-send-reports-False", r is False, top=True)
        return
    rec = sends[0]
    B.prove(what + "offers-the-whole-current-piece-to-its-destination", z3.And(z(rec["gram"]) == piece, z(rec["dst"]) == pdst), top=True)
    buf, dst1 = st["txbs"]
    left = z(BI.as_text(ctx, buf))
    if rec["fault"] is None:
        n = rec["cnt"].t
        B.prove(what + "unsent-tail-stays-pending-for-the-same-destination",
                z3.If(n == z3.Length(piece), z3.BoolVal(dst1 is None), z3.And(z3.BoolVal(dst1 is not None), left == z3.SubString(piece, n, z3.Length(piece) - n),
                                                                             (z(dst1) == pdst) if dst1 is not None else z3.BoolVal(False))), top=True)
        if B.returned() and result:
            B.prove(what + "result-True-iff-nothing-pending", z3.BoolVal(r is True) == (n == z3.Length(piece)), top=True)
            B.prove(what + "result-is-a-bool", r in (True, False), top=True)
    else:
        e = rec["fault"].t
        unreachable = z3.Or(*[e == v for v in UNREACHABLE])
        if B.returned():
            B.prove(what + "error-swallowed-only-when-destination-unreachable", unreachable, top=True)
            B.prove(what + "unreachable-piece-dropped-and-nothing-else", z3.And(z3.BoolVal(dst1 is None), z3.Length(left) == 0), top=True)
            if result:
                B.prove(what + "greedy-callers-continue-after-a-drop", r is True, top=True)
        else:
            B.handled = True
            B.prove(what + "other-transport-errors-propagate", z3.Not(unreachable), top=True)


@contract(MEMOER + "._serviceOnceTxGrams", props=["C21"], name=MEMOER + "._serviceOnceTxGrams[any queue length, any destinations]", z3_ms=4000)
def once_unbounded(B):
    self, m = setup(B)
    r = B.call(self, qual=MEMOER + "._serviceOnceTxGrams")
    step_clauses(B, self, m, r)
    B.no_other_exception()


@contract(MEMOER + ".serviceTxGramsOnce", props=["C21"], name=MEMOER + ".serviceTxGramsOnce[any queue length, any destinations]", z3_ms=4000)
def service_once_unbounded(B):
    self, m = setup(B)
    ctx = B.ctx
    opened = z(ctx.st(self)["opened"])
    B.call(self, qual=MEMOER + ".serviceTxGramsOnce")
    pending = z3.Or(z3.BoolVal(m["partial"]), m["hi"] > m["lo"])
    sends = ctx.ghost["sends"]
    B.prove("one-step-iff-opened-and-something-pending", z3.And(opened, pending) == (len(sends) == 1), top=True)
    B.prove("at-most-one-step", len(sends) <= 1, top=True)
    if sends:
        step_clauses(B, self, m, None, what="step/", result=False)
    else:
        s = ctx.st(m["txgs"])
        B.prove("nothing-touched-otherwise", z3.And(s["arrs"][0] == m["GA"], s["arrs"][1] == m["DA"], s["lo"] == m["lo"], s["hi"] == m["hi"]), top=True)
    B.no_other_exception()


@contract(MEMOER + "._serviceOnceTxGrams", props=["C21"], name=MEMOER + "._serviceOnceTxGrams[bounded: one bytearray OBJECT queued for two destinations]", z3_ms=4000)
def once_shared_bytearray(B):
    """A caller may queue the SAME bytearray object for several destinations (fan-out).  The gram taken from the queue must be
    consumed in a COPY: after a step the object still queued for the second destination holds all its bytes, whatever the
    transport accepted for the first (else the later entries go out truncated or empty: grams lost without any unreachable error)."""
    ctx = B.ctx
    g0 = B.bytes("gram")
    ctx.assume(z3.Length(g0.t) > 0)
    shared = B.buf(g0, hint="shared")
    d1, d2 = B.uid("Dst", "d1"), B.uid("Dst", "d2")
    ctx.assume(z3.And(d1.t != NODST, d2.t != NODST))
    ctx.assume(ufunc("truthy_Dst", DST, z3.BoolSort())(NODST) == False)    # noqa: E712
    dd = z3.Const("d!ax", DST)
    ctx.assume(z3.ForAll([dd], z3.Implies(dd != NODST, ufunc("truthy_Dst", DST, z3.BoolSort())(dd))))
    txgs = ctx.alloc("deque", init={"v": [(shared, d1), (shared, d2)]})
    self = B.obj(MEMOER, hint="memoer", txbs=(B.buf(b"", hint="txbs"), None), txgs=txgs, name="m", opened=True)
    sends = []

    def send(c, a, kw):
        sends.append((BI.as_text(c, a[0]), a[1]))
        n = c.fresh("int", "cnt")
        c.assume(z3.And(n.t >= 0, n.t <= z(BI.text_len(BI.as_text(c, a[0])), "int")))
        return n
    B.virtual(self, "send", send)
    B.call(self, qual=MEMOER + "._serviceOnceTxGrams")
    B.no_other_exception()
    if not B.returned():
        return
    left = ctx.st(txgs)["v"]
    B.prove("the-second-entry-is-still-queued-with-the-same-object", len(left) == 1 and left[0][0] is shared, top=True)
    B.prove("the-object-still-queued-holds-all-its-bytes: the-sent-gram-was-consumed-in-a-copy", z(ctx.st(shared)["v"]) == g0.t, top=True)
    pend = ctx.st(self)["txbs"]
    B.prove("the-pending-remainder-is-not-the-callers-object", isinstance(pend, tuple) and pend[0] is not shared, top=True)

"""C20 (sender side) -- Memoer.rend partitions a memo of ANY length into grams exactly, and announces the right gram count.

hio.core.memo.memoing:Memoer.rend is interpreted from /repo/src; its `while memo:` loop is cut by an invariant, so the memo length
is unbounded.  The configuration is enumerated: every zeroth header code of the real Pairs table x a few gram sizes (the smallest
admissible one, one more, 200, 1000), base64 headers (binary "curt" headers go through base64 decoding of the header parts: bounded
tier).  Sizes / Pairs / MaxMemoSize / MaxGramCount are read from the real class body on every run.

With Z = body size of the zeroth gram, N = body size of the later grams (both >= 1 by the size contract), M the memo bytes,
off(0) = 0, off(g) = min(|M|, Z + (g-1) N) for g >= 1:
    gram g (0-based) is  head_g ++ M[off(g) : off(g+1)] (++ signature when the code is signed), head_0 = code ++ count ++ mid
    (++ signer id), head_g = paired code ++ g ++ mid (++ signer id); the remaining memo after g grams is M[off(g):]
    -> the bodies are consecutive slices of M that cover it exactly once, in order, each non-empty
    the number of grams k is the least g with off(g) = |M|, and the count announced in gram 0 is exactly k
    (so the receiver, which fuses when it has k grams numbered 0..k-1, gets M back: with Memoer.fuse's contract)
    a memo longer than the maximum, a missing signer id or a bad memo id raise MemoerError before any gram is made
EXT: str.encode is the uninterpreted UTF8 with the length kept abstract; makeMID returns a text of the code's mid size; sign
returns a signature of the code's signature size; helping.intToB64b(n, l) is the uninterpreted B64N(n) (its exactness is C26).
"""
import z3
from .common import *
from pyvc import builtins as BI
from pyvc.engine import ufunc
from .http_responder import Stub
from .memo_tx import MEMOER
from .memo_size import real_tables

S, I = z3.StringSort(), z3.IntSort()
ENC = ufunc("utf8_encode", S, S)
B64N = ufunc("b64_of_int", I, S)


def class_consts():
    import ast
    from pyvc import source
    mod = source.load_module("hio.core.memo.memoing")
    cls = [n for n in mod.tree.body if isinstance(n, ast.ClassDef) and n.name == "Memoer"][0]
    out = {}
    for node in cls.body:
        if isinstance(node, ast.Assign) and len(node.targets) == 1 and isinstance(node.targets[0], ast.Name) and \
                node.targets[0].id in ("MaxMemoSize", "MaxGramCount") and isinstance(node.value, ast.Constant):
            out[node.targets[0].id] = node.value.value
    return out


def rend_contract(B, code, size_kind):
    ctx = B.ctx
    g = ctx.ghost
    sizes, pairs, maxgram = real_tables()
    consts = class_consts()
    ok = isinstance(sizes, dict) and isinstance(pairs, dict) and code in pairs and "MaxMemoSize" in consts and "MaxGramCount" in consts
    B.prove("table/real-class-constants-read", ok, top=True)
    if not ok:
        return
    zbz0, znz, zmz, zvz, zaz = sizes[code]
    ncode = pairs[code]
    nbz0, nnz, nmz, nvz, naz = sizes[ncode]
    zoz, noz = sum(sizes[code]), sum(sizes[ncode])
    size = {"min": zoz + 1, "min+1": zoz + 2, "200": max(200, zoz + 1), "1000": max(1000, zoz + 1)}[size_kind]
    Z, N = size - zoz, size - noz
    B.prove("table/body-sizes-positive", Z >= 1 and N >= 1, top=True)
    memo = B.of("str", "memo")
    M = ENC(memo.t)
    ctx.assume(z3.Length(M) >= 1)
    B.prog.text_models["encode"] = lambda c, s, a, k: SV(ENC(z(s)), "bytes") if isinstance(s, SV) else s.encode(*[conc(x) for x in a])
    vid = B.of("str", "vid") if zvz else None
    if zvz:
        ctx.assume(z3.And(z3.Length(vid.t) == zvz, z3.Length(ENC(vid.t)) == zvz))
    mid = B.of("str", "mid")
    ctx.assume(z3.And(z3.Length(mid.t) == zmz, z3.Length(ENC(mid.t)) == zmz))
    B.prog.externals["math.ceil"] = lambda c, a, k: SV(-z3.ToInt(-z(a[0], "real")), "int")
    B.prog.modular["hio.help.helping:intToB64b"] = Stub(lambda c, a, k: SV(B64N(z(a[0] if a else k.get("i"), "int")), "bytes"))
    n1 = z3.Int("n!ax")
    ctx.assume(z3.ForAll([n1], z3.Length(B64N(n1)) == znz, patterns=[B64N(n1)]))        # EXT: counts below 64**nz fit the neck
    signed = []

    def sign(c, a, k):
        sig = c.fresh("bytes", "sig%d" % len(signed))
        c.assume(z3.Length(sig.t) == (zaz if not signed else naz))
        signed.append((a[0], a[1], sig))
        return sig
    self = B.obj(MEMOER, hint="memoer", Sizes=B.dict({k: tuple(v) for k, v in sizes.items()}), Pairs=B.dict(dict(pairs)), _code=code, _curt=False,
                 _size=size, _vid=vid, MaxMemoSize=consts["MaxMemoSize"], MaxGramCount=consts["MaxGramCount"])
    B.virtual(self, "makeMID", lambda c, a, k: mid)
    B.virtual(self, "sign", sign)
    ml = z3.Length(M)

    def off(gz):
        return z3.If(gz <= 0, 0, z3.If(Z + (gz - 1) * N < ml, Z + (gz - 1) * N, ml))
    cur = {}

    def inv(c, gn, grams, memo_buf):
        gz = z(gn, "int")
        gs = c.st(grams)
        n = (gs["hi"] - gs["lo"]) if grams.kind == "wseq" else z3.IntVal(len(gs["v"]))
        now = z(BI.as_text(c, memo_buf))
        # (unclamped start: a substring that starts at or beyond the end is empty, exactly like the python slices in the code)
        offu = z3.If(gz <= 0, 0, Z + (gz - 1) * N)
        return mk(z3.And(gz >= 0, n == gz, now == z3.SubString(M, offu, ml - offu), z3.Implies(gz >= 1, off(gz - 1) < ml)), "bool")
    B.prog.spec_env["inv_rend"] = ModelFn(lambda c, a, k: inv(c, *a), "spec:inv_rend")
    B.prog.type_makers["gramlist"] = lambda c, hint: BI.wseq_fresh(c, ("bytes",), "grams", "list")

    def havoc(interp, fr):
        ctx.st(fr.locals["memo"])["v"] = ctx.fresh("bytes", "memo*")
        fr.locals["grams"] = BI.wseq_fresh(ctx, ("bytes",), "grams", "list")      # mutated in place by the loop (append): arbitrary list so far

    def head(c, fr):
        cur["gn"] = fr.locals["gn"]
        gs = c.st(fr.locals["grams"])
        cur["grams"] = (gs["arrs"][0], gs["lo"], gs["hi"])
        cur["nsigned"] = len(signed)

    def gram_ok(c, gn, grams):
        """the gram appended in this turn"""
        g0 = z(cur["gn"], "int")
        A0, lo0, hi0 = cur["grams"]
        gs = c.st(grams)
        A1 = gs["arrs"][0]
        new = z3.Select(A1, hi0)
        body = z3.SubString(M, off(g0), off(g0 + 1) - off(g0))
        zhead = z3.Concat(z3.StringVal(code), B64N(cur["gc"]), ENC(mid.t)) if True else None
        if zvz:
            zhead = z3.Concat(zhead, ENC(vid.t))
        nhead = z3.Concat(z3.StringVal(ncode), B64N(g0), ENC(mid.t))
        if nvz:
            nhead = z3.Concat(nhead, ENC(vid.t))
        sigs = signed[cur["nsigned"]:]
        unsigned = z3.If(g0 == 0, z3.Concat(zhead, body), z3.Concat(nhead, body))
        want_sig = z3.If(g0 == 0, z3.BoolVal(bool(zaz)), z3.BoolVal(bool(naz)))
        if sigs:
            whole = z3.Concat(unsigned, sigs[0][2].t)
            sig_ok = z3.And(want_sig, z(BI.as_text(c, sigs[0][1])) == unsigned)
        else:
            whole = unsigned
            sig_ok = z3.Not(want_sig)
        kept = z3.ForAll([z3.Int("j!g")], z3.Implies(z3.And(lo0 <= z3.Int("j!g"), z3.Int("j!g") < hi0), z3.Select(A1, z3.Int("j!g")) == z3.Select(A0, z3.Int("j!g"))))
        return mk(z3.And(gs["hi"] == hi0 + 1, gs["lo"] == lo0, new == whole, sig_ok, z3.BoolVal(len(sigs) <= 1), z3.Length(body) >= 1, kept), "bool")
    B.prog.spec_env["gram_ok"] = ModelFn(lambda c, a, k: gram_ok(c, *a), "spec:gram_ok")
    cur["gc"] = -z3.ToInt(-((z3.ToReal(ml) + N - Z) / N))
    B.loop(MEMOER + ".rend", 0, invariant=["inv_rend(gn, grams, memo)"], modifies=[havoc], head=head, types={"grams": "gramlist"},
           body_ensures=[("each-gram-is-its-head-then-the-next-slice-of-the-memo-then-its-signature-earlier-grams-untouched", "gram_ok(gn, grams)")])
    r = B.call(self, memo, qual=MEMOER + ".rend")
    from pyvc import source
    memoerr = source.class_by_qual("hio.hioing:MemoerError")
    mms = min(consts["MaxMemoSize"], N * (consts["MaxGramCount"] - 1) + Z)
    if B.raised():
        B.handled = True
        B.prove("raises-only-MemoerError: " + repr(B.outcome[1])[:160], bool(B.raised(memoerr)), top=True)
        B.prove("only-a-memo-beyond-the-maximum-is-refused-here", ml > mms, top=True)
        B.no_other_exception()
        return
    B.no_other_exception()
    ok = isinstance(r, Ref) and r.kind == "wseq"
    B.prove("returns-the-gram-list", ok, top=True)
    if not ok:
        return
    gs = ctx.st(r)
    k = gs["hi"] - gs["lo"]
    B.prove("the-memo-is-covered-exactly: the slices end at the end of the memo", z3.And(k >= 1, off(k) == ml, off(k - 1) < ml), top=True)
    B.prove("announced-gram-count-is-the-number-of-grams", cur["gc"] == k, top=True)
    B.prove("accepted-memo-within-the-maximum", ml <= mms, top=True)


_sizes, _pairs, _ = real_tables()
for _code in sorted(_pairs or {}):
    for _sk in ("min", "min+1", "200", "1000"):
        def _mk(code=_code, sk=_sk):
            @contract(MEMOER + ".rend", props=["C20"], name=MEMOER + ".rend[code %s, size %s, base64, memo of any length]" % (code, sk), z3_ms=1500, cvc5_first=True)
            def _c(B):
                rend_contract(B, code, sk)
        _mk()

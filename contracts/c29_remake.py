"""C29 -- Filer.remake: which names are refused, and which paths a remake may create, open or delete.

hio.base.filing:Filer.remake is interpreted from /repo/src with symbolic name, base, head / tail / alt directories and extension
and every combination of temp / clean / filed / extensioned.  The file system and os.path are EXT:
    os.path.isabs(s) = ISABS(s);  s.split(os.sep) is the segment list of s, of which only `'..' in it` = PARD(s) is observed;
    os.path.join / expanduser / abspath / splitext / split are the uninterpreted JOIN / EXPU / ABSP / (ROOT, EXT) / (DIRNAME, BASENAME);
    os.path.exists / isfile / os.access answer arbitrarily and may change after every mutating call (epoch-indexed predicates);
    tempfile.mkdtemp returns a fresh directory; os.makedirs and ocfn may raise OSError on the first (primary) attempt.

refused     ISABS(name) or ISABS(base) or PARD(name) or PARD(base)  ->  FilerError and NOT ONE file system call was made
            (the repaired defect: a `..` segment resolved outside the head directory); FilerError is raised only for those, or
            for an absolute name after the extension was added
frame       with name' = name, or name ++ '.' ++ fext when filed or extensioned and name has no extension, every mutating call
            (makedirs, ocfn, chmod, remove, rmtree) is given P or DIRNAME(P) for
                P in { ABSP(JOIN(tmp, tail, base, name')) with tmp the directory mkdtemp just made        (temp)
                       ABSP(EXPU(JOIN(head, tail, base, name'))), ABSP(EXPU(JOIN(althead, alttail, base, name')))   (not temp) }
            where tail is the clean tail iff clean; a temp remake never touches head or althead, a non-temp one never calls mkdtemp
            and uses the alt path only after the primary attempt failed (OSError) or the primary path was not accessible
result      returns (P, file): P one of those paths; a returned file is the object ocfn returned for exactly P; none unless filed
So with the os.path fact that ABSP(JOIN(h, t, b, n)) lies under h for relative b, n without `..` segments (EXT, sampled on a real
file system by harness/c29.py), everything a remake creates, opens or deletes lies inside its head (or temp) directory.
"""
import ast
import z3
from .common import *
from pyvc import builtins as BI
from pyvc.engine import ufunc
from pyvc import source

FILER = "hio.base.filing:Filer"
S = z3.StringSort()
ISABS = ufunc("isabs", S, z3.BoolSort())
PARD = ufunc("has_pardir_segment", S, z3.BoolSort())
JOIN = ufunc("path_join", S, S, S)
EXPU = ufunc("expanduser", S, S)
ABSP = ufunc("abspath", S, S)
ROOT = ufunc("splitext_root", S, S)
EXTN = ufunc("splitext_ext", S, S)
DIRNAME = ufunc("dirname", S, S)
BASENAME = ufunc("basename", S, S)


class Segs:
    """segment list of one or more path texts; only membership of '..' is observable"""

    def __init__(self, terms):
        self.terms = terms

    def contains(self, ctx, r, item):
        if conc(item) != "..":
            raise Undecided("membership of %r in a segment list" % (item,))
        return z3.Or(*[PARD(t) for t in self.terms])

    def binop(self, ctx, op, a, b):
        ma, mb = ctx.st(a)["model"], ctx.st(b)["model"]
        if isinstance(op, ast.Add) and isinstance(ma, Segs) and isinstance(mb, Segs):
            return ctx.alloc("ext", init={"model": Segs(ma.terms + mb.terms)})
        raise Undecided("segment list operation")


class FileObj:
    def __init__(self, path):
        self.path = path

    def truth(self, ctx, r):
        return True


def remake_contract(B, temp, clean, filed, extensioned):
    ctx = B.ctx
    log = []
    epoch = [0]
    name, base = B.of("str", "name"), B.of("str", "base")
    head, tail, ctail, ahead, atail, actail, fext = [B.of("str", n) for n in ("head", "tail", "cleantail", "althead", "alttail", "altcleantail", "fext")]
    p = B.prog

    def mutate(kind, arg, may_fail=False):
        log.append((kind, arg))
        epoch[0] += 1
        if may_fail and not any(k == "oserror" for k, _ in log) and not any(k == "alt" for k, _ in log) and ctx.fork(2, kind + "-outcome") == 1:
            log.append(("oserror", kind))
            raise PyExc(ExcVal(OSError, ("permission denied",)))

    def pred(nm):
        return lambda c, a, k: SV(ufunc("%s@%d" % (nm, epoch[0]), S, z3.BoolSort())(z(a[0])), "bool")
    p.externals["os.path.isabs"] = lambda c, a, k: SV(ISABS(z(a[0])), "bool")
    p.externals["os.path.exists"] = pred("fs_exists")
    p.externals["os.path.isfile"] = pred("fs_isfile")
    p.externals["os.access"] = pred("fs_access")
    p.externals["os.path.expanduser"] = lambda c, a, k: SV(EXPU(z(a[0])), "str")
    p.externals["os.path.abspath"] = lambda c, a, k: SV(ABSP(z(a[0])), "str")
    p.externals["os.path.splitext"] = lambda c, a, k: (SV(ROOT(z(a[0])), "str"), SV(EXTN(z(a[0])), "str"))
    p.externals["os.path.split"] = lambda c, a, k: (SV(DIRNAME(z(a[0])), "str"), SV(BASENAME(z(a[0])), "str"))
    p.externals["os.path.dirname"] = lambda c, a, k: SV(DIRNAME(z(a[0])), "str")
    p.externals["os.path.basename"] = lambda c, a, k: SV(BASENAME(z(a[0])), "str")

    def join(c, a, k):
        t = z(a[0])
        for x in a[1:]:
            t = JOIN(t, z(x))
        return SV(t, "str")
    p.externals["os.path.join"] = join
    p.text_models["split"] = lambda c, s, a, k: c.alloc("ext", init={"model": Segs([z(s)])})
    tmpdirs = []

    def mkdtemp(c, a, k):
        d = c.fresh("str", "tmpdir%d" % len(tmpdirs))
        tmpdirs.append(d)
        log.append(("mkdtemp", d))
        return d
    p.externals["tempfile.mkdtemp"] = mkdtemp
    p.externals["os.makedirs"] = lambda c, a, k: mutate("makedirs", a[0], may_fail=True)
    p.externals["os.remove"] = lambda c, a, k: mutate("remove", a[0])
    p.externals["shutil.rmtree"] = lambda c, a, k: mutate("rmtree", a[0])
    p.externals["os.chmod"] = lambda c, a, k: mutate("chmod", a[0])
    files = []

    def ocfn(c, a, k):
        mutate("ocfn", a[0], may_fail=True)
        f = FileObj(a[0])
        files.append(f)
        return c.alloc("ext", init={"model": f})
    from .c29_filer import Stub
    p.modular["hio.help.helping:ocfn"] = Stub(ocfn)
    self = B.obj(FILER, hint="filer", HeadDirPath=head, TailDirPath=tail, CleanTailDirPath=ctail, AltHeadDirPath=ahead, AltTailDirPath=atail,
                 AltCleanTailDirPath=actail, TempHeadDir="/tmp", TempPrefix="hio_", TempSuffix="_test", Perm=0o1700, Mode="r+", Fext=fext)
    r = B.call(self, qual=FILER + ".remake", name=name, base=base, temp=temp, clean=clean, filed=filed, extensioned=extensioned)
    ferr = source.class_by_qual("hio.hioing:FilerError")
    refused = z3.Or(ISABS(name.t), ISABS(base.t), PARD(name.t), PARD(base.t))
    named = z3.Concat(name.t, z3.StringVal("."), fext.t)
    mutating = [(k, a) for k, a in log if k in ("makedirs", "remove", "rmtree", "chmod", "ocfn")]
    if B.raised():
        B.handled = True
        if B.raised(ferr):
            B.prove("refused: not-one-file-system-call-was-made", not mutating and not tmpdirs, top=True)
            B.prove("refused-only-for-an-absolute-or-parent-escaping-name-or-base", z3.Or(refused, ISABS(named)), top=True)
        else:
            B.prove("only-FilerError-or-the-OSError-of-a-failing-alt-attempt-leaves-remake", bool(B.raised(OSError)) and any(k == "oserror" for k, _ in log), top=True)
        B.no_other_exception()
        return
    B.no_other_exception()
    B.prove("accepted-only-relative-names-without-a-parent-segment", z3.Not(refused), top=True)
    ok = isinstance(r, tuple) and len(r) == 2
    B.prove("returns-path-and-file", ok, top=True)
    if not ok:
        return
    path, file = r
    t_ = (ctail if clean else tail).t
    at_ = (actail if clean else atail).t
    has_ext = z3.Length(EXTN(name.t)) > 0
    nm = z3.If(z3.And(z3.BoolVal(bool(filed or extensioned)), z3.Not(has_ext)), named, name.t) if (filed or extensioned) else name.t

    def mk_path(h, tl, expand):
        t = JOIN(JOIN(JOIN(h, tl), base.t), nm)
        return ABSP(EXPU(t)) if expand else ABSP(t)
    if temp:
        B.prove("temp: exactly-one-temporary-directory-made", len(tmpdirs) == 1, top=True)
        allowed = [mk_path(tmpdirs[0].t, t_, False)] if tmpdirs else []
    else:
        B.prove("not-temp: no-temporary-directory-made", not tmpdirs, top=True)
        allowed = [mk_path(head.t, t_, True), mk_path(ahead.t, at_, True)]
    for i, (k, a) in enumerate(mutating):
        B.prove("frame: %s-only-on-the-remade-path-or-its-directory#%d" % (k, i),
                z3.Or(*[z3.Or(z(a) == P, z(a) == DIRNAME(P)) for P in allowed]) if allowed else False, top=True)
    B.prove("result: the-path-is-one-of-the-remade-paths", z3.Or(*[z(path) == P for P in allowed]) if allowed else False, top=True)
    if filed:
        # (observed, outside C29: when the primary path exists but is not accessible and the alt path exists already, remake
        #  returns NO file for a filed resource -- the access-denied branch lacks the `else: file = ocfn(...)` its OSError twin has)
        fm = ctx.st(file)["model"] if isinstance(file, Ref) and file.kind == "ext" else None
        B.prove("result: a-returned-file-is-the-last-one-opened-and-was-opened-at-the-returned-path",
                True if file is None else (z3.And(z3.BoolVal(fm is files[-1]), z(fm.path) == z(path)) if fm is not None else False), top=True)
        B.prove("result: every-opened-file-but-the-returned-one-failed-to-open", len(files) <= 1 or any(k == "oserror" for k, _ in log), top=True)
    else:
        B.prove("result: no-file-unless-filed", file is None and not files, top=True)
    if not temp:
        # the alt path is used only after the primary attempt failed or the primary path was not accessible
        used_alt = [a for k, a in mutating if ctx.feasible(z(a) != allowed[0]) and ctx.feasible(z(a) != DIRNAME(allowed[0]))]
        B.prove("canary:alt-path-never-used", not used_alt)      # must FAIL on some path (vacuity guard); last


for _temp in (False, True):
    for _clean in (False, True):
        for _filed in (False, True):
            for _ext in (False, True):
                def _mk(t=_temp, c=_clean, f=_filed, e=_ext):
                    @contract(FILER + ".remake", props=["C29"], z3_ms=3000,
                              name=FILER + ".remake[temp=%s clean=%s filed=%s extensioned=%s; symbolic name, base, directories]" % (t, c, f, e))
                    def _c(B):
                        remake_contract(B, t, c, f, e)
                _mk()

"""C29 -- what a Filer deletes, and in which order a reopen closes, clears and re-makes.

hio.base.filing:Filer._clearPath / close / reopen are interpreted from /repo/src.  The file system is EXT: os.path.exists / isfile
are arbitrary predicates of the path string, os.path.split(p) = (DIRNAME(p), BASENAME(p)) uninterpreted, os.remove / shutil.rmtree /
ocfn are logged with their argument.  Paths, names and flags are symbolic.

_clearPath()   deletes nothing when .path is empty or does not exist; otherwise EXACTLY: the file at .path (os.remove) when it is a
               file or an extensioned path, plus -- only for a temp resource -- its own directory DIRNAME(.path); else the
               directory tree at .path.  No other path is ever passed to a deleting call.
close(clear)   flushes and closes an open file, marks the Filer closed, and clears (as above) iff clear
reopen(...)    FIRST closes -- and clears iff clear -- the resource as it is NOW (old .path, old .temp); only then are temp /
               headDirPath / perm / mode / fext overridden; then the path is re-made (remake, from the instance's own name and
               base and the NEW settings) unless it exists and reuse was asked for.  So a reopen can only delete what the Filer
               held before, decided by its old temp flag.
Not under contract (bounded tier, harness/c29.py, real file system): remake's construction of the path from head directory,
tail, base and name (the '..' finding lives there) and that it stays inside the head directory.
"""
import z3
from .common import *
from pyvc import builtins as BI
from pyvc.engine import ufunc

FILER = "hio.base.filing:Filer"
S = z3.StringSort()
EXISTS = ufunc("fs_exists", S, z3.BoolSort())
ISFILE = ufunc("fs_isfile", S, z3.BoolSort())
DIRNAME = ufunc("dirname", S, S)
BASENAME = ufunc("basename", S, S)
FIELD_TYPES[FILER] = {"temp": "bool", "filed": "bool", "extensioned": "bool", "opened": "bool"}


class Stub:
    def __init__(self, fn):
        self.fn = fn

    def apply_at_call(self, interp, fv, args, kwargs, caller, site):
        return self.fn(interp.ctx, args, kwargs)


class File:
    def __init__(self, log, name="file"):
        self.log, self.name = log, name
        self.closed = False

    def truth(self, ctx, r):
        return True

    def attr_closed(self, ctx, r):
        return self.closed

    def m_flush(self, ctx, r, a, k):
        self.log.append(("file.flush", self.name))

    def m_fileno(self, ctx, r, a, k):
        return 7

    def m_close(self, ctx, r, a, k):
        self.closed = True
        self.log.append(("file.close", self.name))


def fs(B, log):
    p = B.prog
    p.externals["os.path.exists"] = lambda c, a, k: SV(EXISTS(z(a[0])), "bool")
    p.externals["os.path.isfile"] = lambda c, a, k: SV(ISFILE(z(a[0])), "bool")
    p.externals["os.path.split"] = lambda c, a, k: (SV(DIRNAME(z(a[0])), "str"), SV(BASENAME(z(a[0])), "str"))
    p.externals["os.remove"] = lambda c, a, k: log.append(("remove", a[0]))
    p.externals["shutil.rmtree"] = lambda c, a, k: log.append(("rmtree", a[0]))
    p.externals["os.fsync"] = lambda c, a, k: log.append(("fsync",))


def filer(B, log, with_file=None):
    ctx = B.ctx
    has_path = B.choice(True, False, label="has-path")
    path = B.of("str", "path") if has_path else None
    if has_path:
        ctx.assume(z3.Length(path.t) > 0)
    if with_file is None:
        with_file = B.choice(False, True, label="has-file")
    f = File(log) if with_file else None
    self = B.obj(FILER, hint="filer", path=path, file=B.ext(f) if f else None, _name=B.of("str", "name"), base=B.of("str", "base"),
                 headDirPath=B.of("str", "head"), perm=B.int("perm"), mode=B.of("str", "mode"), fext=B.of("str", "fext"))
    return self, path, f


def deletions(log):
    return [e for e in log if e[0] in ("remove", "rmtree")]


def clear_clauses(B, log, path, temp, extensioned, prefix=""):
    """what _clearPath may delete, given the resource it is applied to"""
    ctx = B.ctx
    dels = deletions(log)
    if path is None:
        B.prove(prefix + "nothing-deleted-without-a-path", not dels, top=True)
        return
    p = path.t
    ex, isf = EXISTS(p), ISFILE(p)
    B.prove(prefix + "nothing-deleted-unless-the-path-exists", z3.Implies(z3.Not(ex), z3.BoolVal(not dels)), top=True)
    filelike = z3.Or(isf, z(extensioned))
    kinds = [e[0] for e in dels]
    args_ok = []
    for e in dels:
        t = z(e[1])
        if e[0] == "remove":
            args_ok.append(t == p)
        else:
            args_ok.append(z3.Or(t == p, z3.And(t == DIRNAME(p), z(temp), filelike)))
    B.prove(prefix + "only-the-own-path-or-for-temp-its-own-directory-is-ever-deleted", z3.And(*args_ok) if args_ok else True, top=True)
    B.prove(prefix + "file-like-path: the file is removed, and its directory only for a temp resource",
            z3.Implies(z3.And(ex, filelike), z3.If(z(temp), z3.BoolVal(kinds == ["remove", "rmtree"]), z3.BoolVal(kinds == ["remove"]))), top=True)
    B.prove(prefix + "directory-path: exactly that tree is removed", z3.Implies(z3.And(ex, z3.Not(filelike)), z3.BoolVal(kinds == ["rmtree"])), top=True)


@contract(FILER + "._clearPath", props=["C29"])
def filer_clear_path(B):
    ctx = B.ctx
    log = ctx.ghost["log"] = []
    fs(B, log)
    self, path, f = filer(B, log)
    st = ctx.st(self)
    temp, ext = st["temp"], st["extensioned"]
    B.call(self, qual=FILER + "._clearPath")
    B.no_other_exception()
    if not B.returned():
        return
    clear_clauses(B, log, path, temp, ext)
    B.prove("canary:always-deletes-something", len(deletions(log)) >= 1)      # must FAIL (vacuity guard); last


@contract(FILER + ".close", props=["C29"])
def filer_close(B):
    ctx = B.ctx
    log = ctx.ghost["log"] = []
    fs(B, log)
    self, path, f = filer(B, log)
    B.virtual(self, "_clearPath", lambda c, a, k: log.append(("clearPath",)))
    clear = B.choice(False, True, label="clear")
    r = B.call(self, clear, qual=FILER + ".close")
    B.no_other_exception()
    if not B.returned():
        return
    B.prove("clears-iff-asked", (("clearPath",) in log) == clear and log.count(("clearPath",)) <= 1, top=True)
    B.prove("marked-closed-and-reports-it", "self.opened is False", top=True)
    B.prove("reports-closed", r is True, top=True)
    if f is not None:
        B.prove("open-file-flushed-then-closed-before-clearing", [e[0] for e in log if e[0] in ("file.flush", "file.close", "clearPath")][:2] == ["file.flush", "file.close"], top=True)
    B.prove("deletes-nothing-itself", not deletions(log), top=True)


@contract(FILER + ".reopen", props=["C29"])
def filer_reopen(B):
    ctx = B.ctx
    log = ctx.ghost["log"] = []
    fs(B, log)
    self, path, f = filer(B, log)
    st = ctx.st(self)
    temp0 = st["temp"]
    snap = {}

    def v_close(c, a, k):
        s = c.st(self)
        snap.update(temp=s["temp"], path=s["path"], head=s["headDirPath"], clear=k.get("clear", a[0] if a else False), at=len(log))
        log.append(("close",))
        s["opened"] = False
    B.virtual(self, "close", v_close)
    newpath, newfile = B.of("str", "newpath"), B.ext(File(log, "newfile"))

    def v_remake(c, a, k):
        log.append(("remake", dict(k)))
        return (newpath, newfile)
    B.virtual(self, "remake", v_remake)
    B.prog.modular["hio.help.helping:ocfn"] = Stub(lambda c, a, k: (log.append(("ocfn", a[0])), newfile)[1])
    B.prog.modular["hio.base.filing:ocfn"] = B.prog.modular["hio.help.helping:ocfn"]
    newtemp = B.choice(None, False, True, label="temp-arg")
    newhead = B.choice(None, "h2", label="head-arg")
    clear = B.choice(False, True, label="clear")
    reuse = B.choice(False, True, label="reuse")
    r = B.call(self, qual=FILER + ".reopen", temp=newtemp, headDirPath=newhead, clear=clear, reuse=reuse)
    B.no_other_exception()
    if not B.returned():
        return
    st = ctx.st(self)
    B.prove("closes-exactly-once-and-first", [e[0] for e in log if e[0] in ("close", "remake", "ocfn")][:1] == ["close"] and
            [e[0] for e in log].count("close") == 1, top=True)
    B.prove("the-close-sees-the-OLD-resource: old temp flag, old path, old head, and the caller's clear",
            snap.get("temp") is temp0 and snap.get("path") is path and snap.get("clear") is clear and snap.get("at") == 0, top=True)
    B.prove("temp-override-applied-afterwards", (st["temp"] is temp0) if newtemp is None else (conc(st["temp"]) is newtemp), top=True)
    B.prove("head-override-applied-afterwards", True if newhead is None else conc(st["headDirPath"]) == "h2", top=True)
    remakes = [e for e in log if e[0] == "remake"]
    if path is None:
        B.prove("re-made-when-there-is-no-path", len(remakes) == 1, top=True)
    else:
        keep = z3.And(EXISTS(path.t), z3.BoolVal(reuse))
        B.prove("re-made-unless-the-path-exists-and-reuse-was-asked", z3.Not(keep) == (len(remakes) == 1), top=True)
    B.prove("re-made-at-most-once", len(remakes) <= 1, top=True)
    if remakes:
        kw = remakes[0][1]
        B.prove("re-made-from-the-instances-own-name-base-and-NEW-settings",
                kw.get("name") is st["_name"] and kw.get("base") is st["base"] and kw.get("temp") is st["temp"] and
                kw.get("headDirPath") is st["headDirPath"] and kw.get("filed") is st["filed"] and kw.get("extensioned") is st["extensioned"], top=True)
        B.prove("holds-the-re-made-path-and-file", st["path"] is newpath and st["file"] is newfile, top=True)
    B.prove("deletes-nothing-itself", not deletions(log), top=True)

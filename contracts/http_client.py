"""C19 -- the HTTP client's queue discipline (one request in flight, responses in queue order, each carrying its request).

Client.serviceRequests / Client.transmit / Client.serviceResponse / Client.service are interpreted from /repo/src.  UNBOUNDED in
the queue length: .requests is a deque of arbitrary symbolic length (window encoding) whose elements are request dicts known
only by identity (uninterpreted sort Req; each of the eight transmitted keys is None or a value, decided by uninterpreted
functions of the Req, so every combination of given / omitted keys is covered); .responses is an append-only queue of arbitrary
symbolic prior length.

EXT (assumed, not proved): Requester.rebuild/build return the request bytes and rebuild stores the given (non-None) fields;
Respondent.parse either raises HTTPException or returns, leaving .ended arbitrary; connector.tx queues bytes; copy.copy of a
dict is a shallow copy with equal items.  Client.redirect is under its own contract below and summarised here.

Ghost: sent = the sequence of requester outputs handed to connector.tx.

serviceRequests   waited            ->  nothing sent, queue and .latest untouched
                  not waited, empty ->  nothing sent
                  not waited, q=[h]+t -> exactly one tx, built from h's keys; .latest is h; queue == t; waited
serviceResponse   not waited        ->  responses untouched
                  waited            ->  at most one response appended; exactly one iff the parse ended (or failed), the response is
                                        not an event stream and not a followed redirect; it is appended at the right end, carries
                                        the keys of .latest (in particular 'reply'), then .latest is None, waited is False and the
                                        redirect history is attached and reset
                  redirect followed ->  nothing appended to responses, the redirect recorded, still waited
service           serviceRequests, connector.serviceSends, serviceResponse run exactly once each, in this order

LEMMA (from these contracts, by induction over service() calls): let I be  waited => exactly one popped request has no response
yet, and it is .latest;  not waited => every popped request has its response.  serviceRequests and serviceResponse preserve I,
pops happen only when not waited and take the head, so the k-th appended response carries the k-th queued request.
"""
import z3
from .common import *
from pyvc import builtins as BI
from pyvc.engine import usort, ufunc, PathEnd

CLIENT = "hio.core.http.clienting:Client"
HTTPEXC = "hio.core.http.httping:HTTPException"
FIELD_TYPES[CLIENT] = {"waited": "bool"}

REQ, VAL = usort("Req"), usort("Val")
KEYS = ("method", "path", "qargs", "fragment", "headers", "body", "data", "fargs")
KEY_TY = {"method": "str", "path": "str", "body": "bytes"}
EXTRA = ("reply",)            # a key the client does not transmit but must hand back with the response


def key_val(req, k):
    ty = KEY_TY.get(k, "u:Val")
    sort = {"str": z3.StringSort(), "bytes": z3.StringSort(), "u:Val": VAL}[ty]
    return SV(ufunc("req_" + k, REQ, sort)(req.t), ty)


def key_given(req, k):
    return ufunc("req_has_" + k, REQ, z3.BoolSort())(req.t)


class ReqModel:
    """a queued request dict known by identity; mapping() is what `**request` / copy.copy(request) see"""

    def mapping(self, ctx, sv):
        out = []
        for k in KEYS + EXTRA:
            if ctx.branch(key_given(sv, k), "req-has-" + k):
                out.append((k, key_val(sv, k)))
            else:
                out.append((k, None))
        return out


class ValModel:
    def getattr(self, ctx, sv, name):
        raise Undecided("Val attribute " + name)


class Queue:
    """append-only view of a deque/list of arbitrary prior length n0 >= 0 (EXT: deque.append adds at the right end)"""

    def __init__(self, ctx, hint):
        self.n0 = ctx.fresh("int", hint + ".n0")
        ctx.assume(self.n0.t >= 0)
        self.appended = []

    def truth(self, ctx, r):
        return True if self.appended else mk(self.n0.t > 0, "bool")

    def length(self, ctx, r):
        return mk(self.n0.t + len(self.appended), "int")

    def m_append(self, ctx, r, args, kwargs):
        self.appended.append(args[0])
        return None

    def m_appendleft(self, ctx, r, args, kwargs):
        self.prepended = getattr(self, "prepended", []) + [args[0]]
        return None

    def m_insert(self, ctx, r, args, kwargs):
        self.prepended = getattr(self, "prepended", []) + [args[1]]
        return None

    def copy(self, ctx, r):
        snap = Queue.__new__(Queue)
        snap.n0, snap.appended, snap.of = self.n0, list(self.appended), self
        return ctx.alloc("ext", init={"model": snap})


class Requester:
    FIELDS = ("hostname", "port", "scheme", "method", "path", "fragment", "qargs", "headers", "body", "data", "fargs")
    TY = {"hostname": "str", "port": "int", "scheme": "str", "method": "str", "path": "str", "body": "bytes"}

    def __init__(self, ctx, log):
        self.log = log
        self.f = {k: ctx.fresh(self.TY.get(k, "u:Val"), "rq." + k) for k in self.FIELDS}

    def truth(self, ctx, r):
        return True

    def getattr(self, ctx, r, name):
        if name in self.f:
            return self.f[name]
        raise Undecided("requester attribute " + name)

    def m_rebuild(self, ctx, r, args, kwargs):
        given = {k: v for k, v in kwargs.items() if v is not None}
        for k, v in given.items():
            self.f[k] = v
        out = ctx.fresh("bytes", "built")
        self.log.append(("rebuild", dict(kwargs), out))
        return out

    def m_build(self, ctx, r, args, kwargs):
        out = ctx.fresh("bytes", "built")
        self.log.append(("build", dict(kwargs), out))
        return out


class Respondent:
    FLAGS = ("evented", "redirectable", "redirectant", "errored")
    VALS = {"version": "u:Val", "status": "int", "reason": "str", "headers": "u:Val", "body": "u:Val", "data": "u:Val",
            "error": "u:Val", "leid": "u:Val"}

    def __init__(self, ctx, log, httpexc):
        self.log = log
        self.httpexc = httpexc
        self.f = {k: ctx.fresh("bool", "rs." + k) for k in self.FLAGS}
        self.f["ended"] = ctx.fresh("bool", "rs.ended")
        for k, ty in self.VALS.items():
            self.f[k] = ctx.fresh(ty, "rs." + k)
        self.parse_failed = False

    def truth(self, ctx, r):
        return True

    def getattr(self, ctx, r, name):
        if name in self.f:
            return self.f[name]
        raise Undecided("respondent attribute " + name)

    def setattr(self, ctx, r, name, v):
        self.f[name] = v

    def m_parse(self, ctx, r, args, kwargs):
        self.log.append(("parse",))
        if ctx.fork(2, "parse-outcome") == 1:
            self.parse_failed = True
            raise PyExc(ExcVal(self.httpexc, ("bad response",)))
        self.f["ended"] = ctx.fresh("bool", "rs.ended'")      # EXT: parsing may or may not complete the response
        return None

    def m_dictify(self, ctx, r, args, kwargs):
        self.log.append(("dictify",))

    def m_makeParser(self, ctx, r, args, kwargs):
        self.log.append(("makeParser",))

    def m_reinit(self, ctx, r, args, kwargs):
        self.log.append(("reinit", dict(kwargs)))

    def m_close(self, ctx, r, args, kwargs):
        self.log.append(("close",))


class Connector:
    def __init__(self, ctx, log):
        self.log = log
        self.cutoff = ctx.fresh("bool", "cn.cutoff")
        self.connected = ctx.fresh("bool", "cn.connected")
        self.reconnectable = ctx.fresh("bool", "cn.reconnectable")

    def truth(self, ctx, r):
        return True

    def attr_cutoff(self, ctx, r):
        return self.cutoff

    def attr_connected(self, ctx, r):
        return self.connected

    def attr_reconnectable(self, ctx, r):
        return self.reconnectable

    def m_tx(self, ctx, r, args, kwargs):
        self.log.append(("tx", args[0]))

    def m_serviceReceives(self, ctx, r, args, kwargs):
        self.log.append(("serviceReceives",))

    def m_serviceSends(self, ctx, r, args, kwargs):
        self.log.append(("serviceSends",))

    def m_serviceConnect(self, ctx, r, args, kwargs):
        self.log.append(("serviceConnect",))
        self.connected = ctx.fresh("bool", "cn.connected'")


def copy_model(ctx, args, kwargs):
    """EXT copy.copy: shallow copy with equal contents (a value known only by identity copies to an equal value)"""
    v = args[0]
    if isinstance(v, SV) and v.ty == "u:Req":
        items = ctx.prog.usort_models["Req"].mapping(ctx, v)
        r = ctx.alloc("dict", init={"v": {BI.hashable(k): (k, x) for k, x in items if x is not None or k in KEYS}})
        ctx.ghost.setdefault("copied_from", {})[r.oid] = v
        return r
    if isinstance(v, Ref) and v.kind == "dict":
        return ctx.alloc("dict", init={"v": dict(ctx.st(v)["v"])})
    if isinstance(v, Ref) and v.kind in ("list", "deque"):
        return ctx.alloc(v.kind, init={"v": list(ctx.st(v)["v"])})
    if isinstance(v, Ref) and v.kind == "ext" and hasattr(ctx.st(v)["model"], "copy"):
        return ctx.st(v)["model"].copy(ctx, v)
    if isinstance(v, SV) or v is None or isinstance(v, (int, str, bytes, float, bool)):
        return v
    raise Undecided("copy.copy of %r" % (v,))


def setup(B, queue=True, latest="any"):
    ctx = B.ctx
    g = ctx.ghost
    B.prog.externals["copy.copy"] = copy_model
    B.prog.usort_models["Req"] = ReqModel()
    B.prog.usort_models["Val"] = ValModel()
    r1 = z3.Const("r!ax", REQ)
    ctx.assume(z3.ForAll([r1], ufunc("truthy_Req", REQ, z3.BoolSort())(r1)))     # a queued request dict is not empty
    log = g["log"] = []
    httpexc = B.ctx.interp.resolve_qual(HTTPEXC) if hasattr(B.ctx.interp, "resolve_qual") else None
    if httpexc is None:
        from pyvc import source
        httpexc = source.class_by_qual(HTTPEXC)
    rq, rs, cn = Requester(ctx, log), Respondent(ctx, log, httpexc), Connector(ctx, log)
    responses, redirects = Queue(ctx, "responses"), Queue(ctx, "redirects")
    requests = BI.wseq_fresh(ctx, ("u:Req",), "requests", "deque")
    if latest == "any":
        latest = B.choice("none", "req", label="latest")
    lat = None if latest == "none" else B.uid("Req", "latest0")
    self = B.obj(CLIENT, hint="client", requester=B.ext(rq), respondent=B.ext(rs), connector=B.ext(cn),
                 requests=requests, responses=B.ext(responses), redirects=B.ext(redirects), latest=lat)
    m = dict(rq=rq, rs=rs, cn=cn, responses=responses, redirects=redirects, requests=requests, latest0=lat, log=log)
    m["waited0"] = ctx.st(self)["waited"]
    s = ctx.st(requests)
    m["q0"] = (s["arrs"][0], s["lo"], s["hi"])
    return self, m


def _b(x):
    return z3.BoolVal(x) if isinstance(x, bool) else x


def txs(m):
    return [e for e in m["log"] if e[0] == "tx"]


def queue_unchanged(B, m):
    s = B.ctx.st(m["requests"])
    A, lo, hi = m["q0"]
    return z3.And(s["arrs"][0] == A, s["lo"] == lo, s["hi"] == hi)


# --------------------------------------------------------------------------------------------- transmit

@contract(CLIENT + ".transmit", props=["C19"])
def client_transmit(B):
    """transmit(**keys): marks the client waited, hands exactly one requester output to the connector, and rebuilds the
    requester from the given keys iff any of the eight keys is given"""
    self, m = setup(B, latest="none")
    ctx = B.ctx
    req = B.uid("Req", "arg")
    kw = dict((k, v) for k, v in B.prog.usort_models["Req"].mapping(ctx, req))
    B.call(self, qual=CLIENT + ".transmit", **kw)
    B.no_other_exception()
    if not B.returned():
        return
    sent = txs(m)
    builds = [e for e in m["log"] if e[0] in ("build", "rebuild")]
    B.prove("waited-after", "self.waited is True", top=True)
    B.prove("exactly-one-tx", len(sent) == 1 and len(builds) == 1, top=True)
    if len(sent) == 1 and len(builds) == 1:
        B.prove("sends-what-the-requester-built", E.values_equal(ctx, sent[0][1], builds[0][2]), top=True)
        anygiven = any(kw[k] is not None for k in KEYS)
        B.prove("rebuilds-from-the-given-keys-iff-any", (builds[0][0] == "rebuild") == anygiven, top=True)
        if builds[0][0] == "rebuild":
            B.prove("every-key-passed-through", all(builds[0][1].get(k) is kw[k] or
                    (kw[k] is not None and E.values_equal(ctx, builds[0][1].get(k), kw[k]) is True) for k in KEYS), top=True)
    # the response parser is prepared for THIS request: a HEAD answer has no body, so the method it is told must be the one just sent
    reinits = [(i, e) for i, e in enumerate(m["log"]) if e[0] == "reinit"]
    if kw["method"] is not None:
        bi = [i for i, e in enumerate(m["log"]) if e[0] in ("build", "rebuild")]
        B.prove("respondent-reinitialised-once-after-the-request-was-built-with-the-method-just-sent",
                z3.And(z3.BoolVal(len(reinits) == 1 and bool(bi) and reinits[0][0] > bi[0]), z(reinits[0][1][1].get("method")) == z(kw["method"]))
                if len(reinits) == 1 and reinits[0][1][1].get("method") is not None else False, top=True)
    else:
        B.prove("respondent-method-kept-when-no-method-is-given", all(e[1].get("method") is None for _, e in reinits), top=True)
    B.prove("queue-untouched", queue_unchanged(B, m), top=True)


# --------------------------------------------------------------------------------------------- serviceRequests

@contract(CLIENT + ".serviceRequests", props=["C19"], name=CLIENT + ".serviceRequests[any queue length]")
def client_service_requests(B):
    self, m = setup(B)
    ctx = B.ctx
    A, lo, hi = m["q0"]
    head = SV(z3.Select(A, lo), "u:Req")
    w0 = z(m["waited0"])
    B.call(self, qual=CLIENT + ".serviceRequests")
    B.no_other_exception()
    if not B.returned():
        return
    sent = txs(m)
    s = ctx.st(m["requests"])
    st = ctx.st(self)
    nonempty = hi > lo
    # one at a time
    B.prove("at-most-one-tx", len(sent) <= 1, top=True)
    B.prove("tx-iff-idle-and-queue-nonempty", z3.And(z3.Not(w0), nonempty) == (len(sent) == 1), top=True)
    if not sent:
        B.prove("nothing-popped-when-nothing-sent", queue_unchanged(B, m), top=True)
        B.prove("latest-untouched-when-nothing-sent", E.is_same(ctx, st["latest"], m["latest0"]), top=True)
        B.prove("waited-untouched-when-nothing-sent", z(st["waited"]) == w0, top=True)
    else:
        # queue order: the head is taken, the rest keeps its order
        B.prove("pops-exactly-the-head", z3.And(s["arrs"][0] == A, s["lo"] == lo + 1, s["hi"] == hi), top=True)
        B.prove("latest-is-the-head", E.values_equal(ctx, st["latest"], head), top=True)
        B.prove("waited-after-tx", "self.waited is True", top=True)
        builds = [e for e in m["log"] if e[0] in ("build", "rebuild")]
        B.prove("one-build", len(builds) == 1, top=True)
        if len(builds) == 1:
            B.prove("sends-what-the-requester-built", E.values_equal(ctx, sent[0][1], builds[0][2]), top=True)
            if builds[0][0] == "rebuild":
                kw = builds[0][1]
                ok = []
                for k in KEYS:
                    v = kw.get(k)
                    ok.append(z3.If(key_given(head, k), E.values_equal(ctx, v, key_val(head, k)) if v is not None else False,
                                    v is None))
                B.prove("request-built-from-the-heads-keys", z3.And(*[z3.BoolVal(x) if isinstance(x, bool) else x for x in ok]), top=True)
            else:
                B.prove("bare-build-only-when-head-gives-no-key", z3.Not(z3.Or(*[key_given(head, k) for k in KEYS])), top=True)
    B.prove("responses-untouched", len(m["responses"].appended) == 0, top=True)
    # must FAIL (vacuity guard: the idle/waited paths are reachable); last, since a failed obligation ends its path
    B.prove("canary:sends-on-every-call", len(sent) == 1)


# --------------------------------------------------------------------------------------------- serviceResponse

def redirect_summary(B, self, m):
    """Client.redirect summarised by its contract: raises ValueError, or re-transmits (waited stays True) without touching
    .responses / .requests"""
    def redirect(c, a, k):
        m["log"].append(("redirect",))
        if c.fork(2, "redirect-outcome") == 1:
            raise PyExc(ExcVal(ValueError, ("Attempt to redirect to non secure host",)))
        c.st(self)["waited"] = True
        return None
    B.virtual(self, "redirect", redirect)


@contract(CLIENT + ".serviceResponse", props=["C19"], name=CLIENT + ".serviceResponse[any queue lengths]")
def client_service_response(B):
    self, m = setup(B)
    ctx = B.ctx
    redirect_summary(B, self, m)
    rs, rq = m["rs"], m["rq"]
    w0 = z(m["waited0"])
    flags0 = {k: z(rs.f[k]) for k in ("evented", "redirectable", "redirectant")}
    lat0 = m["latest0"]
    B.call(self, qual=CLIENT + ".serviceResponse")
    st = ctx.st(self)
    app = m["responses"].appended
    log = m["log"]
    redirected = [e for e in log if e[0] == "redirect"]
    if B.raised():
        # only a refused redirect propagates
        B.prove("raises-only-from-redirect", len(redirected) == 1, top=True)
        B.prove("no-response-when-redirect-refused", len(app) == 0, top=True)
        B.handled = True
        B.no_other_exception()
        return
    B.no_other_exception()
    ended = z3.BoolVal(True) if rs.parse_failed else z(rs.f["ended"])
    follow = z3.And(flags0["redirectable"], flags0["redirectant"])
    complete = z3.And(w0, ended, z3.Not(flags0["evented"]), z3.Not(follow))
    B.prove("receives-serviced-first", bool(log) and log[0] == ("serviceReceives",), top=True)
    B.prove("at-most-one-response", len(app) <= 1, top=True)
    B.prove("responses-grow-only-at-the-right-end", not getattr(m["responses"], "prepended", []), top=True)
    B.prove("one-response-iff-waited-and-complete", complete == (len(app) == 1), top=True)
    B.prove("redirect-followed-iff-waited-complete-redirect", z3.And(w0, ended, z3.Not(flags0["evented"]), follow) == (len(redirected) == 1), top=True)
    B.prove("requests-untouched", queue_unchanged(B, m), top=True)
    B.prove("nothing-transmitted-here", len(txs(m)) == 0, top=True)
    if rs.parse_failed:
        B.prove("parse-failure-yields-an-errored-response", E.values_equal(ctx, rs.f["errored"], True), top=True)
    if len(app) == 1:
        resp = app[0]
        B.prove("response-is-a-dict", isinstance(resp, Ref) and resp.kind == "dict", top=True)
        rd = {k: v for k, v in ctx.st(resp)["v"].values()}
        B.prove("idle-after-response", "self.waited is False", top=True)
        B.prove("latest-consumed", st["latest"] is None, top=True)
        for k in ("status", "reason", "version", "errored", "error", "data"):
            B.prove("response-field/" + k, k in rd and E.values_equal(ctx, rd[k], rs.f[k]), top=True)
        req = rd.get("request")
        B.prove("carries-a-request", isinstance(req, Ref) and req.kind == "dict", top=True)
        if isinstance(req, Ref) and req.kind == "dict":
            qd = {k: v for k, v in ctx.st(req)["v"].values()}
            if lat0 is not None:
                # keys the client does not overwrite come from the originating request
                for k in EXTRA:
                    B.prove("carries-originating-request/" + k,
                            z3.If(key_given(lat0, k), z3.BoolVal(k in qd and qd[k] is not None) if not (k in qd and qd[k] is not None)
                                  else E.values_equal(ctx, qd[k], key_val(lat0, k)), z3.BoolVal(qd.get(k) is None)), top=True)
            for k, f in (("host", "hostname"), ("port", "port"), ("scheme", "scheme"), ("method", "method"), ("path", "path"),
                         ("body", "body")):
                B.prove("request-field/" + k, k in qd and E.values_equal(ctx, qd[k], rq.f[f]), top=True)
        # redirect history attached iff there is one, and reset
        red = m["redirects"]
        had = red.n0.t > 0
        has = "redirects" in rd
        B.prove("redirect-history-attached-iff-any", had == has, top=True)
        if has:
            snap = ctx.st(rd["redirects"])["model"] if isinstance(rd["redirects"], Ref) and rd["redirects"].kind == "ext" else None
            B.prove("redirect-history-is-the-whole-history", snap is not None and getattr(snap, "of", None) is red and snap.appended == [], top=True)
        cur = st["redirects"]
        B.prove("redirect-history-reset", isinstance(cur, Ref) and cur.kind == "list" and ctx.st(cur)["v"] == [], top=True)
    else:
        if redirected:
            B.prove("redirect-recorded-once", len(m["redirects"].appended) == 1, top=True)
            B.prove("still-waited-while-redirecting", "self.waited is True", top=True)
        else:
            B.prove("waited-unchanged-without-response", z(st["waited"]) == w0, top=True)
            B.prove("latest-kept-while-incomplete", z3.Or(z3.And(w0, ended, z3.Not(flags0["evented"])), _b(E.is_same(ctx, st["latest"], lat0))), top=True)
            B.prove("no-redirect-recorded", len(m["redirects"].appended) == 0, top=True)
    B.prove("canary:a-response-on-every-call", len(app) == 1)       # must FAIL (vacuity guard); last


# --------------------------------------------------------------------------------------------- service

@contract(CLIENT + ".service", props=["C19"])
def client_service(B):
    """service(): on every normal return the three stages ran exactly once each in the order requests -> sends -> response;
    service itself re-transmits only for an event stream that reconnected with a last event id"""
    self, m = setup(B, latest="none")
    ctx = B.ctx
    log = m["log"]
    for nm in ("serviceRequests", "serviceResponse"):
        B.virtual(self, nm, (lambda nm: lambda c, a, k: log.append((nm,)))(nm))
    B.virtual(self, "transmit", lambda c, a, k: log.append(("transmit", dict(k))))
    cn, rs = m["cn"], m["rs"]
    cn.tymeout = B.real("tymeout")

    class Tymer:
        def truth(self, c, r):
            return True

        def attr_expired(self, c, r):
            return c.fresh("bool", "expired")

        def m_restart(self, c, r, a, k):
            log.append(("tymer.restart",))
    tym = B.ext(Tymer())
    Connector.attr_tymeout = lambda self_, c, r: self_.tymeout
    Connector.attr_tymer = lambda self_, c, r: tym
    Connector.m_reopen = lambda self_, c, r, a, k: log.append(("reopen",))

    class Txbs:
        def m_clear(self, c, r, a, k):
            log.append(("txbs.clear",))
    txbs = B.ext(Txbs())
    Connector.attr_txbs = lambda self_, c, r: txbs
    rs.f["retry"] = B.int("retry")

    class Headers:
        def setitem(self, c, r, idx, v):
            log.append(("set-header", idx))
    m["rq"].f["headers"] = B.ext(Headers())
    leid_none = B.choice(True, False, label="leid-none")
    if leid_none:
        rs.f["leid"] = None
    evented0 = z(rs.f["evented"])
    connected0 = z(cn.connected)
    B.call(self, qual=CLIENT + ".service")
    B.no_other_exception()
    if not B.returned():
        return
    stages = [e[0] for e in log if e[0] in ("serviceRequests", "serviceSends", "serviceResponse")]
    B.prove("stages-once-each-in-order", stages == ["serviceRequests", "serviceSends", "serviceResponse"], top=True)
    tx = [e for e in log if e[0] == "transmit"]
    B.prove("own-retransmit-only-for-reconnected-event-stream",
            z3.Implies(z3.BoolVal(len(tx) > 0), z3.And(evented0, z3.Not(connected0), z(cn.connected), z3.BoolVal(not leid_none))), top=True)
    B.prove("own-retransmit-at-most-once-and-before-the-stages", len(tx) <= 1 and
            (not tx or log.index(tx[0]) < log.index(("serviceRequests",))), top=True)


# --------------------------------------------------------------------------------------------- redirect

class Stub:
    """a repo function replaced by its (assumed) summary at call sites inside the function under contract"""

    def __init__(self, fn):
        self.fn = fn

    def apply_at_call(self, interp, fv, args, kwargs, caller, site):
        return self.fn(interp.ctx, args, kwargs)


class StubError(Exception):
    pass


@contract(CLIENT + ".redirect", props=["C19"])
def client_redirect(B):
    """redirect(): the Location of the last recorded redirect is followed by exactly one transmit to its path; a target that is
    not https is REFUSED (ValueError, before anything is closed, replaced or sent) when the current request is https; a
    relative Location keeps host, port and scheme of the current request.
    EXT: urlsplit/unquote/urljoin, httping.normalizeHostPort, coring.normalizeHost, httping.updateQargsQuery are summarised as
    arbitrary (symbolic) results or an exception; str.lower is an uninterpreted function."""
    self, m = setup(B, latest="none")
    ctx = B.ctx
    g = ctx.ghost
    log = m["log"]
    rq, rs, cn = m["rq"], m["rs"], m["cn"]
    lower = ufunc("str_lower", z3.StringSort(), z3.StringSort())
    B.prog.text_models["lower"] = lambda c, s, a, k: SV(lower(z(s)), "str")

    def join(c, s, a, k):
        parts = BI.concrete_iter(c, a[0], must=True)
        out = parts[0]
        for p in parts[1:]:
            out = E.binop(c, __import__("ast").Add(), E.binop(c, __import__("ast").Add(), out, s), p)
        return out
    B.prog.text_models["join"] = join
    loc = B.of("str", "location")

    class Hdrs:
        def m_get(self, c, r, a, k):
            return loc if conc(a[0]) == "location" else None

    redirect = B.dict({"headers": B.ext(Hdrs()), "status": 302})
    ctx.st(self)["redirects"] = B.list([redirect])
    rel = B.choice(False, True, label="relative-location")
    sp = dict(hostname=None if rel else B.of("str", "sp.hostname"), port=B.choice(None, "int", label="sp.port"),
              scheme=B.of("str", "sp.scheme"), path=B.of("str", "sp.path"), query=B.of("str", "sp.query"), fragment=B.of("str", "sp.fragment"))
    if sp["port"] == "int":
        sp["port"] = B.int("sp.port")

    class Splits:
        def getattr(self, c, r, name):
            return sp[name]
    B.prog.externals["urllib.parse.unquote"] = lambda c, a, k: c.fresh("str", "unquoted")
    B.prog.externals["urllib.parse.urlsplit"] = lambda c, a, k: c.alloc("ext", init={"model": Splits()})
    joined = B.of("str", "joined")
    B.prog.externals["urllib.parse.urljoin"] = lambda c, a, k: joined

    def may_fail(c, what):
        if c.fork(2, what + "-outcome") == 1:
            log.append(("stub-raised", what))
            raise PyExc(ExcVal(StubError, (what,)))
    nh, nport, nhost = B.of("str", "norm.hostname"), B.int("norm.port"), B.of("str", "norm.host")

    def norm_host_port(c, a, k):
        may_fail(c, "normalizeHostPort")
        g["nhp_args"] = (a, k)
        return (nh, nport)

    def norm_host(c, a, k):
        may_fail(c, "normalizeHost")
        return nhost
    B.prog.modular["hio.core.http.httping:normalizeHostPort"] = Stub(norm_host_port)
    B.prog.modular["hio.core.coring:normalizeHost"] = Stub(norm_host)
    B.prog.modular["hio.core.http.httping:updateQargsQuery"] = Stub(lambda c, a, k: (a[0], a[1]))
    # the current connection
    cn.ha = (B.of("str", "cn.host"), B.int("cn.port"))
    cn.closed = False
    Connector.attr_ha = lambda s_, c, r: s_.ha
    Connector.attr_tymth = lambda s_, c, r: None
    Connector.attr_bs = lambda s_, c, r: 8096
    Connector.attr_wl = lambda s_, c, r: None
    Connector.attr_rxbs = lambda s_, c, r: None

    def cn_close(s_, c, r, a, k):
        s_.closed = True
        log.append(("close-connector", s_))
    Connector.m_close = cn_close
    Connector.m_reopen = lambda s_, c, r, a, k: log.append(("reopen", s_))
    Connector.getattr = lambda s_, c, r, name: (_ for _ in ()).throw(PyExc(ExcVal(AttributeError, (name,))))

    def make(tls):
        def mk_conn(interp, cls, a, k):
            n = Connector(ctx, log)
            n.tls, n.ha, n.closed = tls, k.get("ha"), False
            log.append(("new-connector", n))
            return ctx.alloc("ext", init={"model": n})
        return mk_conn
    B.prog.class_models["hio.core.tcp.clienting:Client"] = make(False)
    B.prog.class_models["hio.core.tcp.clienting:ClientTls"] = make(True)
    Requester.m_reinit = lambda s_, c, r, a, k: (log.append(("rq.reinit", dict(k))), [s_.f.__setitem__(kk, vv) for kk, vv in k.items() if vv is not None])[0]
    B.virtual(self, "transmit", lambda c, a, k: log.append(("transmit", dict(k))))
    cur_scheme = z(rq.f["scheme"])
    cur_host, cur_port, cur_path = rq.f["hostname"], rq.f["port"], rq.f["path"]
    conn0 = ctx.st(self)["connector"]
    B.call(self, qual=CLIENT + ".redirect")
    st = ctx.st(self)
    tx = [e for e in log if e[0] == "transmit"]
    stubfail = [e for e in log if e[0] == "stub-raised"]
    news = [e for e in log if e[0] == "new-connector"]
    # effective target scheme as the statement means it
    eff = z(sp["scheme"])
    if rel:
        eff = z3.If(z3.Length(eff) > 0, eff, cur_scheme)
    target_https = lower(eff) == z3.StringVal("https")
    insecure_downgrade = z3.And(cur_scheme == z3.StringVal("https"), z3.Not(target_https))
    if B.raised():
        B.handled = True
        if stubfail:
            B.prove("nothing-sent-when-the-location-is-unusable", len(tx) == 0 and not cn.closed, top=True)
            B.no_other_exception()
            return
        B.prove("raises-only-ValueError-for-refusal", bool(B.raised(ValueError)), top=True)
        B.prove("refuses-only-an-https-to-non-https-redirect", insecure_downgrade, top=True)
        B.prove("refusal-sends-closes-and-replaces-nothing", len(tx) == 0 and not cn.closed and not news and st["connector"] is conn0, top=True)
        B.no_other_exception()
        return
    B.no_other_exception()
    B.prove("https-to-non-https-is-never-followed", z3.Not(insecure_downgrade), top=True)
    B.prove("exactly-one-transmit", len(tx) == 1, top=True)
    if len(tx) == 1:
        want_path = joined if rel else sp["path"]
        B.prove("transmits-to-the-location-path", E.values_equal(ctx, tx[0][1].get("path"), want_path), top=True)
        B.prove("fragment-passed", E.values_equal(ctx, tx[0][1].get("fragment"), sp["fragment"]), top=True)
    if rel:
        a, k = g["nhp_args"]
        B.prove("relative-location-keeps-host-and-port", _b(E.values_equal(ctx, a[0], cur_host)) if True else None, top=True)
        B.prove("relative-location-keeps-port", _b(E.values_equal(ctx, k.get("port"), cur_port)), top=True)
    same = z3.And(_b(E.values_equal(ctx, (nhost, nport), cn.ha)), z3.If(target_https, z3.StringVal("https"), z3.StringVal("http")) == cur_scheme)
    B.prove("connector-replaced-iff-address-or-scheme-changes", z3.Not(same) == (len(news) == 1), top=True)
    if news:
        n = news[0][1]
        B.prove("old-connection-closed-before-replacing", cn.closed and log.index(("close-connector", cn)) < log.index(news[0]), top=True)
        B.prove("tls-iff-https", target_https == n.tls, top=True)
        B.prove("new-connector-installed-and-reopened", isinstance(st["connector"], Ref) and ctx.st(st["connector"])["model"] is n and ("reopen", n) in log, top=True)
        B.prove("new-connector-to-the-target", _b(E.values_equal(ctx, n.ha, (nh, nport))), top=True)
    else:
        B.prove("connection-kept", st["connector"] is conn0 and not cn.closed, top=True)
    B.prove("response-parser-rearmed", E.values_equal(ctx, rs.f["redirectant"], False) is True and E.values_equal(ctx, rs.f["ended"], False) is True, top=True)
    B.prove("queues-untouched", z3.And(queue_unchanged(B, m), z3.BoolVal(len(m["responses"].appended) == 0)), top=True)
    B.prove("canary:connection-always-kept", not news)              # must FAIL (vacuity guard: the reconnect path is reachable); last

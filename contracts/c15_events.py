"""C15 -- server-sent events: one arbitrary turn of EventSource.parseEvents, after any history of lines and waits.

hio.core.http.httping:EventSource.parseEvents is interpreted from /repo/src as a generator under contract; its line loop is cut
(at the head of a turn the pending event -- id, name, the list of data lines of ANY length -- and the last event id are arbitrary).

EXT: parseLine(raw, (CRLF, LF, CR)) by its callee contract yields None or the next line (a bytearray); bytes.decode('UTF-8') is the
uninterpreted total map UTF8 (undecodable bytes raise: the recorded C16 finding, not modelled here); '\\n'.join(lines) is the
uninterpreted JOIN of the list; json.loads raises ValueError or returns a value; int(str) likewise.

Per turn, with `line` the next line:
    no line yet                     -> yields None, the pending event and the event queue are untouched
    empty line (or connection closed) -> DISPATCH: data = JOIN(data lines) if there are any; an event {id, name, data} is appended
                                       to the queue iff data is non-empty -- exactly one, carrying the pending id and name (data
                                       replaced by the parsed JSON when dictable and it parses); then name and data lines are
                                       reset, the id is KEPT for later events; closed -> the run ends after the dispatch
    ':...' (comment)                -> nothing changes
    'event:v' -> name = v'   'data:v' -> v' appended as the LAST data line   'id:v' -> id and last event id = v'
    'retry:v' -> .retry = int(v') when it is an integer, else ignored;  any other field -> ignored
    where v' = UTF8(v without ONE leading space); a line without ':' is a field with empty value
    nothing is appended to the queue except by a dispatch
"""
import z3
from .common import *
from pyvc import builtins as BI
from pyvc.engine import ufunc, Suspend
from .http_responder import Stub

ES = "hio.core.http.httping:EventSource"
HTTPING = "hio.core.http.httping"
S = z3.StringSort()
UTF8 = ufunc("utf8", S, S)
TOINT = ufunc("int_of_str", S, z3.IntSort())
FIELD_TYPES[ES] = {"dictable": "bool", "closed": "bool"}


class Events:
    def __init__(self):
        self.appended = []

    def truth(self, c, r):
        return True

    def m_append(self, c, r, a, k):
        self.appended.append(a[0])


class LineGen:
    def __init__(self, ctx, marks, eols):
        self.marks, self.eols = marks, eols
        self.closed = False

    def m___next__(self, ctx, r, a, k):
        if ctx.fork(2, "line-ready") == 1:
            self.marks["line"] = None
            return None
        self.marks["line"] = ctx.fresh("bytes", "line")
        return ctx.alloc("buf", init={"v": self.marks["line"]})

    def m_close(self, ctx, r, a, k):
        self.closed = True


@contract(ES + ".parseEvents", props=["C15", "C16"], name=ES + ".parseEvents[one arbitrary turn; any number of pending data lines]", z3_ms=3000)
def parse_events_turn(B):
    ctx = B.ctx
    g = ctx.ghost
    marks = {}
    ev = Events()
    gens = []

    def parse_line(c, a, k):
        gens.append(LineGen(c, marks, k.get("eols")))
        return c.alloc("ext", init={"model": gens[-1]})
    B.prog.modular[HTTPING + ":parseLine"] = Stub(parse_line)
    B.prog.text_models["decode"] = lambda c, s, a, k: SV(UTF8(z(s)), "str")
    # str.isdigit / isdecimal / isnumeric: arbitrary predicates of the text, NOT tied to what int() accepts ('\u00b2'.isdigit() is True
    # and int('\u00b2') raises; so does a text of more digits than the interpreter's int-conversion limit)
    for _pred in ("isdigit", "isdecimal", "isnumeric"):
        B.prog.text_models[_pred] = (lambda nm: lambda c, s, a, k: SV(ufunc("str_" + nm, S, z3.BoolSort())(z(s)), "bool"))(_pred)
    ctx.assume(UTF8(z3.StringVal("")) == z3.StringVal(""))       # EXT: the empty byte string decodes to the empty text
    joined = {}

    def join(c, s, a, k):
        if conc(s) == "\n" and isinstance(a[0], Ref) and a[0].kind == "wseq":
            st = c.st(a[0])
            joined["of"] = (st["arrs"][0], st["lo"], st["hi"])
            joined["text"] = c.fresh("str", "joined")
            c.assume(z3.Length(joined["text"].t) >= 0)
            return joined["text"]
        raise Undecided("str.join in parseEvents")
    B.prog.text_models["join"] = join
    jsonval = {}

    def loads(c, a, k):
        if c.fork(2, "json-parses") == 1:
            raise py_exc(ValueError, "Expecting value")
        jsonval["v"] = c.fresh("u:Json", "json")
        return jsonval["v"]
    B.prog.externals["json.loads"] = loads

    def to_int(c, a, k):
        if isinstance(a[0], SV) and a[0].ty == "str":
            if c.fork(2, "int-parses") == 1:
                raise py_exc(ValueError, "invalid literal")
            return SV(TOINT(z(a[0])), "int")
        try:
            return int(conc(a[0]))
        except ValueError as ex:
            raise py_exc(ValueError, *ex.args)
    B.prog.externals["builtins.int"] = to_int
    leid0 = B.choice("none", "str", label="last-event-id")
    self = B.obj(ES, hint="source", raw=B.buf(hint="raw"), events=B.ext(ev), leid=None if leid0 == "none" else B.of("str", "leid0"), retry=None)
    B.prog.type_makers["datalines"] = lambda c, hint: BI.wseq_fresh(c, ("str",), "parts", "list")
    head = {}

    def at_head(c, fr):
        st = c.st(fr.locals["parts"])
        head.update(eid=fr.locals["eid"], ename=fr.locals["ename"], edata=fr.locals["edata"],
                    parts=(st["arrs"][0], st["lo"], st["hi"]), leid=c.st(self)["leid"], retry=c.st(self)["retry"], nev=len(ev.appended))
        marks["yields"] = 0
        marks.pop("line", None)
        joined.clear()
        jsonval.clear()

    def havoc(interp, fr):
        ctx.st(self)["leid"] = fr.locals["eid"]        # (the pending id is the last event id: the code keeps them equal)
        ctx.st(self)["retry"] = ctx.fresh("int", "retry*") if ctx.fork(2, "retry-set") else None
        ctx.st(self)["closed"] = ctx.fresh("bool", "closed*")

    def parts_now(fr):
        st = ctx.st(fr["parts"])
        return st["arrs"][0], st["lo"], st["hi"]

    def analyse(c, eid, ename, edata, parts):
        """clauses of a turn that went round the loop (wait, dispatch while open, comment, or field line)"""
        out = {}
        A0, lo0, hi0 = head["parts"]
        ps = c.st(parts)
        if parts.kind == "wseq":
            A1, lo1, hi1 = ps["arrs"][0], ps["lo"], ps["hi"]
            same_parts = z3.And(A1 == A0, lo1 == lo0, hi1 == hi0)
        else:       # `parts = []` after a dispatch: a fresh concrete list
            items = list(ps["v"])
            A1, lo1, hi1 = A0, z3.IntVal(0), z3.IntVal(len(items))
            same_parts = z3.And(z3.BoolVal(not items), hi0 == lo0)
            if items:
                raise Undecided("a non-empty literal list of data lines")
        line = marks.get("line", "absent")
        st = c.st(self)
        new_events = ev.appended[head["nev"]:]

        def same(a, b):
            if a is None or b is None:
                return z3.BoolVal(a is None and b is None)
            v = E.values_equal(c, a, b)
            return z3.BoolVal(v) if isinstance(v, bool) else v
        keep_all = z3.And(same(eid, head["eid"]), same(ename, head["ename"]), same(edata, head["edata"]), same_parts)
        if line is None:
            out["wait"] = z3.And(keep_all, z3.BoolVal(not new_events and marks["yields"] == 1))
            return out
        out["wait"] = z3.BoolVal(marks["yields"] == 0)
        lz = z(line)
        closed = z(st["closed"])
        colon = z3.IndexOf(lz, z3.StringVal(":"), 0)
        # dispatch turn (only reachable here when not closed: a closed dispatch ends the run)
        is_dispatch = z3.Length(lz) == 0
        had_lines = hi0 > lo0
        data0 = joined["text"].t if "text" in joined else z(head["edata"])
        want_event = z3.Length(data0) > 0
        out["dispatch"] = z3.Implies(is_dispatch, z3.And(z3.BoolVal("text" in joined) == had_lines, want_event == z3.BoolVal(len(new_events) == 1),
                                                         z3.BoolVal(len(new_events) <= 1), same(eid, head["eid"]), z(ename) == z3.StringVal(""),
                                                         z(edata) == z3.StringVal(""), hi1 == lo1))
        if new_events:
            d = {conc(k_): v_ for k_, v_ in c.st(new_events[0])["v"].values()}
            okd = z3.And(same(d.get("id"), head["eid"]), same(d.get("name"), head["ename"]))
            if "v" in jsonval:
                okd = z3.And(okd, z3.BoolVal(d.get("data") is jsonval["v"]), z(st["dictable"]))
            else:
                okd = z3.And(okd, z(d.get("data")) == data0)
            out["event"] = z3.And(is_dispatch, okd, z3.BoolVal(set(d) == {"id", "name", "data"}))
            if "of" in joined:
                out["event"] = z3.And(out["event"], joined["of"][0] == A0, joined["of"][1] == lo0, joined["of"][2] == hi0)
        else:
            out["event"] = z3.BoolVal(True)
        # comment / field turns
        field_b = z3.If(colon >= 0, z3.SubString(lz, 0, colon), lz)
        value_b = z3.If(colon >= 0, z3.SubString(lz, colon + 1, z3.Length(lz) - colon - 1), z3.StringVal(""))
        value_b = z3.If(z3.PrefixOf(z3.StringVal(" "), value_b), z3.SubString(value_b, 1, z3.Length(value_b) - 1), value_b)
        fld, val = UTF8(field_b), UTF8(value_b)
        is_comment = z3.And(z3.Not(is_dispatch), colon == 0)
        out["comment"] = z3.Implies(is_comment, z3.And(keep_all, z3.BoolVal(not new_events)))
        is_field = z3.And(z3.Not(is_dispatch), colon != 0)
        F = lambda nm: fld == z3.StringVal(nm)      # noqa
        out["f_event"] = z3.Implies(z3.And(is_field, F("event")), z3.And(z(ename) == val, same(eid, head["eid"]), same_parts))
        out["f_data"] = z3.Implies(z3.And(is_field, F("data")), z3.And(A1 == z3.Store(A0, hi0, val), lo1 == lo0, hi1 == hi0 + 1, same(ename, head["ename"]), same(eid, head["eid"])))
        out["f_id"] = z3.Implies(z3.And(is_field, F("id")), z3.And(same(eid, SV(val, "str")), same(st["leid"], eid), same_parts, same(ename, head["ename"])))
        other = z3.And(is_field, z3.Not(z3.Or(F("event"), F("data"), F("id"))))
        out["f_other"] = z3.Implies(other, z3.And(keep_all, same(st["leid"], head["leid"])))
        out["f_retry"] = z3.Implies(z3.And(is_field, z3.Not(F("retry"))), same(st["retry"], head["retry"]))
        out["no_event_without_dispatch"] = z3.Implies(z3.Not(is_dispatch), z3.BoolVal(not new_events))
        out["edata_only_by_dispatch"] = z3.Implies(z3.Not(is_dispatch), same(edata, head["edata"]))
        return out
    CL = [("wait", "no-line-yet: yields None once and changes nothing (a complete line: no yield)"),
          ("dispatch", "empty-line: joins the data lines iff any, one event iff data non-empty, then name and data reset, id kept"),
          ("event", "the event carries the pending id and name and the joined data (or its parsed JSON when dictable)"),
          ("comment", "comment-line changes nothing"), ("f_event", "event-field sets the name only"),
          ("f_data", "data-field appends the value as the LAST data line"), ("f_id", "id-field sets id and last event id"),
          ("f_other", "unknown-field changes nothing"), ("f_retry", "retry-untouched-by-other-fields"),
          ("no_event_without_dispatch", "no event is queued except by a dispatch"), ("edata_only_by_dispatch", "data text only changes at a dispatch")]
    for key, label in CL:
        B.prog.spec_env["turn_" + key] = ModelFn((lambda key: lambda c, a, k: mk(analyse(c, *a).get(key, z3.BoolVal(True)), "bool"))(key), "spec:" + label)
    B.loop(ES + ".parseEvents", 0, invariant=[], modifies=[havoc], head=at_head,
           types={"eid": "opt[str]", "ename": "str", "edata": "str", "parts": "datalines", "ejson": "none"},
           body_ensures=[(label, "turn_%s(eid, ename, edata, parts)" % key) for key, label in CL])

    def on_yield(interp, fr, e, v):
        if v is None:
            marks["yields"] = marks.get("yields", 0) + 1
            return None
        raise Suspend(v, e)
    B.call(self, qual=ES + ".parseEvents", yield_handler=on_yield)
    B.no_other_exception()
    B.prove("event-lines-end-with-CRLF-LF-or-CR", len(gens) == 1 and tuple(conc(x) for x in gens[0].eols) == (b"\r\n", b"\n", b"\r"), top=True)
    if not head:
        B.prove("unreachable: the loop is always entered", False, top=True)
        return
    if B.outcome and B.outcome[0] == "yield":
        st = ctx.st(self)
        out = B.outcome[1]
        B.prove("the-run-ends-only-after-a-dispatch-on-a-closed-connection", z3.And(z(st["closed"]), z3.BoolVal(isinstance(out, tuple) and len(out) == 3 and gens[0].closed)), top=True)
        new_events = ev.appended[head["nev"]:]
        data0 = joined["text"].t if "text" in joined else z(head["edata"])
        B.prove("final-dispatch-queues-one-event-iff-there-is-data", (z3.Length(data0) > 0) == z3.BoolVal(len(new_events) == 1), top=True)

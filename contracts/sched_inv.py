"""Scheduler contracts, UNBOUNDED tier: the loops of Doist/DoDoer exit (and further functions as they are added) are cut by
invariants over a deque of arbitrary symbolic length (window encoding: SMT arrays + bounds), so the result holds for any number
of doers.  Dogs and doers are values of uninterpreted sorts; a dog's enter ordinal is the injective ghost function rank.

exit():   requires  every non-marker deed holds a distinct alive dog, deeds sorted by rank (enter order)
          ensures   deeds empty; every such dog closed exactly once; closes in strictly decreasing rank (reverse enter order);
                    nothing else is closed, started or sent to
"""
import z3
from .common import *
from .sched import DOIST, DODOER
from pyvc import builtins as BI
from pyvc.engine import usort, ufunc, truthy_u

DOG, DOER_ = usort("Dog"), usort("Doer")
rank = ufunc("rank", DOG, z3.IntSort())
NODOG = z3.Const("none!Dog", DOG)        # what the engine stores for a python None in a Dog slot (the marker deed)
NODOER = z3.Const("none!Doer", DOER_)


def axioms(ctx):
    d1, d2 = z3.Consts("d1!ax d2!ax", DOG)
    ctx.assume(z3.ForAll([d1, d2], z3.Implies(rank(d1) == rank(d2), d1 == d2)))                 # rank is injective
    ctx.assume(z3.ForAll([d1], ufunc("truthy_Dog", DOG, z3.BoolSort())(d1) == (d1 != NODOG)))   # only the marker's dog is falsy


class DogModel:
    def __init__(self, B):
        self.B = B

    def getattr(self, ctx, sv, name):
        g = ctx.ghost
        if name == "close":
            def close(c, a, k):
                c.prove(self.B.name + "/dog-protocol/close-alive", z3.Select(g["alive"], sv.t), kind="call-requires",
                        detail="close() only on a started, unfinished dog (hence at most once)", top=True)
                c.prove(self.B.name + "/close-order/reverse-enter-order", rank(sv.t) < z(g["last_rank"], "int"), kind="call-requires",
                        detail="each forced exit has a smaller enter ordinal than the previous one", top=True)
                g["alive"] = z3.Store(g["alive"], sv.t, False)
                g["last_rank"] = mk(rank(sv.t), "int")
                g["nclose"] = g["nclose"] + 1
                return None          # A-312
            return ModelFn(close, "dog.close")
        if name in ("send", "__next__"):
            def nope(c, a, k):
                c.prove(self.B.name + "/dog-protocol/no-send-in-exit", False, kind="call-requires", detail="exit() never resumes a dog", top=True)
            return ModelFn(nope, "dog.send")
        raise Undecided("dog attribute " + name)


class DoerModel:
    def __init__(self, B):
        self.B = B

    def getattr(self, ctx, sv, name):
        if name == "done":
            return SV(z3.Select(ctx.ghost["done"], sv.t), "u:Done")
        raise Undecided("doer attribute " + name)

    def setattr(self, ctx, sv, name, v):
        if name == "done":
            ctx.ghost["done"] = z3.Store(ctx.ghost["done"], sv.t, v.t)
            return
        raise Undecided("doer attribute write " + name)


def exit_contract(B, cls):
    ctx = B.ctx
    g = ctx.ghost
    axioms(ctx)
    B.prog.usort_models["Dog"] = DogModel(B)
    B.prog.usort_models["Doer"] = DoerModel(B)
    deeds = BI.wseq_fresh(ctx, ("u:Dog", "real", "u:Doer"), "deeds", "deque")
    st = ctx.st(deeds)
    A, lo0, hi0 = st["arrs"][0], st["lo"], st["hi"]
    alive0 = z3.Const("alive0", z3.ArraySort(DOG, z3.BoolSort()))
    done0 = z3.Const("done0", z3.ArraySort(DOER_, usort("Done")))
    g.update(alive=alive0, done=done0, nclose=0, last_rank=B.int("last_rank0"))
    i, j = z3.Ints("i!q j!q")
    inwin = lambda k: z3.And(lo0 <= k, k < hi0)        # noqa
    dog = lambda k: z3.Select(A, k)                    # noqa
    # ---- precondition (what enter/recur/extend/remove establish): distinct alive dogs in enter order
    ctx.assume(z3.ForAll([i], z3.Implies(z3.And(inwin(i), dog(i) != NODOG), z3.Select(alive0, dog(i)))))
    ctx.assume(z3.ForAll([i, j], z3.Implies(z3.And(inwin(i), inwin(j), i < j, dog(i) != NODOG, dog(j) != NODOG), rank(dog(i)) < rank(dog(j)))))
    ctx.assume(z3.ForAll([i], z3.Implies(z3.And(inwin(i), dog(i) != NODOG), rank(dog(i)) < z(g["last_rank"], "int"))))
    if cls == DOIST:
        self = B.obj(DOIST, hint="doist", deeds=deeds, doers=B.list([]), _tyme=B.real("tyme"), _tock=B.real("tock"))
    else:
        self = B.obj(DODOER, hint="dodoer", _deeds=deeds, _doers=B.list([]), _tock=B.real("tock"), _tymth=None)

    def cur():
        s = ctx.st(deeds)
        return s["lo"], s["hi"], s["arrs"][0]

    def inv_bounds(c, *a):
        lo, hi, arr = cur()
        return mk(z3.And(lo == lo0, lo0 <= hi, hi <= hi0, arr == A), "bool")

    def inv_alive(c, *a):
        lo, hi, arr = cur()
        return mk(z3.And(z3.ForAll([i], z3.Implies(z3.And(lo0 <= i, i < hi, dog(i) != NODOG), z3.Select(g["alive"], dog(i)))),
                         z3.ForAll([i], z3.Implies(z3.And(hi <= i, i < hi0, dog(i) != NODOG), z3.Not(z3.Select(g["alive"], dog(i)))))), "bool")

    def inv_rank(c, *a):
        lo, hi, arr = cur()
        return mk(z3.ForAll([i], z3.Implies(z3.And(lo0 <= i, i < hi, dog(i) != NODOG), rank(dog(i)) < z(g["last_rank"], "int"))), "bool")

    def inv_frame(c, *a):
        d = z3.Const("d!fr", DOG)
        k = z3.Int("k!fr")
        return mk(z3.ForAll([d], z3.Implies(z3.Not(z3.Exists([k], z3.And(inwin(k), dog(k) == d))), z3.Select(g["alive"], d) == z3.Select(alive0, d))), "bool")
    for nm, fn in (("inv_bounds", inv_bounds), ("inv_alive", inv_alive), ("inv_rank", inv_rank), ("inv_frame", inv_frame)):
        B.prog.spec_env[nm] = ModelFn(lambda c, a, k, fn=fn: fn(c, *a), "spec:" + nm)

    def havoc(interp, fr):
        s = ctx.st(deeds)
        s["hi"] = ctx.fresh("int", "hi").t
        g["alive"] = z3.Const("alive!%d" % ctx.nfresh, z3.ArraySort(DOG, z3.BoolSort()))
        g["last_rank"] = ctx.fresh("int", "last_rank")
        g["done"] = z3.Const("done!%d" % ctx.nfresh, z3.ArraySort(DOER_, usort("Done")))
        g["nclose"] = ctx.fresh("int", "nclose")
    B.loop(cls + ".exit", 0, invariant=["inv_bounds()", "inv_alive()", "inv_rank()", "inv_frame()"], modifies=[havoc], top=(1, 2))
    B.call(self, qual=cls + ".exit")
    lo, hi, arr = cur()
    B.prove("deeds-emptied", hi == lo, top=True)
    B.prove("every-alive-dog-in-deeds-closed", z3.ForAll([i], z3.Implies(z3.And(inwin(i), dog(i) != NODOG), z3.Not(z3.Select(g["alive"], dog(i))))), top=True)
    d = z3.Const("d!post", DOG)
    k = z3.Int("k!post")
    B.prove("nothing-else-closed", z3.ForAll([d], z3.Implies(z3.Not(z3.Exists([k], z3.And(inwin(k), dog(k) == d))), z3.Select(g["alive"], d) == z3.Select(alive0, d))), top=True)
    B.no_other_exception()


@contract(DOIST + ".exit", props=["C02", "C01"], name=DOIST + ".exit[unbounded]")
def doist_exit_inv(B):
    exit_contract(B, DOIST)


@contract(DODOER + ".exit", props=["C02", "C01", "C04"], name=DODOER + ".exit[unbounded]")
def dodoer_exit_inv(B):
    exit_contract(B, DODOER)


# ------------------------------------------------------------------------------------------ recur (unbounded, no re-entrancy)

DONE = usort("Done")
DTRUE, DFALSE = z3.Const("DoneTrue", DONE), z3.Const("DoneFalse", DONE)


class CycleDog:
    """dog protocol for one cycle of recur(): send(tyme) on an alive dog that was not yet sent to in this cycle"""

    def __init__(self, B, tyme0):
        self.B = B
        self.tyme0 = tyme0

    def getattr(self, ctx, sv, name):
        g = ctx.ghost
        nm = self.B.name
        if name == "send":
            def send(c, a, k):
                c.prove(nm + "/dog-protocol/send-alive", z3.Select(g["alive"], sv.t), kind="call-requires", detail="send only to a started, unfinished dog", top=True)
                c.prove(nm + "/sends/at-most-once-per-cycle", z3.Not(z3.Select(g["sent"], sv.t)), kind="call-requires", detail="a doer runs at most once per cycle", top=True)
                c.prove(nm + "/sends/value-is-current-tyme", E.values_equal(c, a[0], self.tyme0), kind="call-requires", detail="the doer observes the scheduler's current tyme", top=True)
                g["sent"] = z3.Store(g["sent"], sv.t, True)
                kk = c.fork(3, "dog-outcome")
                if kk == 0:
                    t = [None, 0.0, None][c.fork(3, "tock-kind")] if False else None
                    j = c.fork(3, "tock-kind")
                    if j == 0:
                        t = None
                    elif j == 1:
                        t = 0.0
                    else:
                        t = c.fresh("real", "ytock")
                        c.assume(t.t > 0)
                    g["last_tock"] = t
                    g["yielded"] = True
                    return t
                g["alive"] = z3.Store(g["alive"], sv.t, False)
                g["yielded"] = False
                if kk == 1:
                    v = [None, True, False][c.fork(3, "ret-kind")]
                    g["returned"] = v
                    raise PyExc(ExcVal(StopIteration, (v,)))
                ex = ExcVal(None, (), upper=Exception)
                ex.excluded = [StopIteration]
                g["raised"] = True
                raise PyExc(ex)
            return ModelFn(send, "dog.send")
        if name == "close":
            def nope(c, a, k):
                c.prove(nm + "/dog-protocol/no-close-in-recur", False, kind="call-requires", detail="recur() never closes a dog", top=True)
            return ModelFn(nope, "dog.close")
        raise Undecided("dog attribute " + name)


class CycleDoer(DoerModel):
    def setattr(self, ctx, sv, name, v):
        if name == "done":
            t = DTRUE if v is True else (DFALSE if v is False else (v.t if isinstance(v, SV) else None))
            if t is None:
                raise Undecided("doer.done = %r" % (v,))
            ctx.ghost["done"] = z3.Store(ctx.ghost["done"], sv.t, t)
            ctx.ghost["done_writes"].append((sv, v))
            return
        raise Undecided("doer attribute write " + name)


def recur_contract(B, cls):
    ctx = B.ctx
    g = ctx.ghost
    axioms(ctx)
    deeds = BI.wseq_fresh(ctx, ("u:Dog", "real", "u:Doer"), "deeds", "deque")
    st = ctx.st(deeds)
    (D0, R0, O0), lo0, hi0 = st["arrs"], st["lo"], st["hi"]
    m = hi0                                     # index where recur() stores its once-through marker
    alive0 = z3.Const("alive0", z3.ArraySort(DOG, z3.BoolSort()))
    sent0 = z3.K(DOG, z3.BoolVal(False))
    done0 = z3.Const("done0", z3.ArraySort(DOER_, DONE))
    tyme0 = B.real("tyme")
    tock0 = B.real("tock")
    ctx.assume(tock0.t > 0 if cls == DOIST else tock0.t >= 0)
    g.update(alive=alive0, sent=sent0, done=done0, last_tock=None, yielded=None, returned=None, raised=False, done_writes=[])
    B.prog.usort_models["Dog"] = CycleDog(B, tyme0)
    B.prog.usort_models["Doer"] = CycleDoer(B)
    i, j, j2 = z3.Ints("i!q j!q j2!q")
    inwin0 = lambda k: z3.And(lo0 <= k, k < hi0)        # noqa
    # ---- precondition: distinct alive dogs in enter order, no marker
    ctx.assume(z3.ForAll([i], z3.Implies(inwin0(i), z3.And(z3.Select(D0, i) != NODOG, z3.Select(alive0, z3.Select(D0, i))))))
    ctx.assume(z3.ForAll([i, j], z3.Implies(z3.And(inwin0(i), inwin0(j), i < j), rank(z3.Select(D0, i)) < rank(z3.Select(D0, j)))))
    if cls == DOIST:
        self = B.obj(DOIST, hint="doist", deeds=deeds, doers=B.list([]), _tyme=tyme0, _tock=tock0)
    else:
        B.ghost("tyme", tyme0)
        self = B.obj(DODOER, hint="dodoer", _deeds=deeds, _doers=B.list([]), _tock=tock0, _tymth=B.model(lambda c, a, k: c.ghost["tyme"], "tymth"))

    def cur():
        s_ = ctx.st(deeds)
        return s_["lo"], s_["hi"], s_["arrs"]

    # ---- local obligation at every append of a real deed: it is the deed just popped, with the retyme rule of the statement
    def on_store(c, idx, vals):
        if vals[0] is None:
            return                              # the marker
        lo, hi, (D, R, O) = cur()
        prev = lo - 1
        nm = B.name
        c.prove(nm + "/reappend/same-dog-and-doer", z3.And(z(vals[0]) == z3.Select(D, prev), z(vals[2]) == z3.Select(O, prev)), kind="call-requires",
                detail="the deed re-appended is the deed just popped", top=True)
        r_old = z3.Select(R, prev)
        if g["yielded"] is True:
            t = g["last_tock"]
            if t is None or (isinstance(t, float) and t == 0.0):
                c.prove(nm + "/retyme/asap-next-cycle", z(vals[1], "real") == z(tyme0) + z(tock0), kind="call-requires", detail="0/None: due again in the next cycle", top=True)
            else:
                c.prove(nm + "/retyme/cumulative-no-drift", z(vals[1], "real") == r_old + z(t), kind="call-requires", detail="t > 0: previous due tyme + t", top=True)
            g["yielded"] = None
        else:
            c.prove(nm + "/retyme/not-due-unchanged", z3.And(z(vals[1], "real") == r_old, z3.Not(r_old <= z(tyme0))), kind="call-requires", detail="a deed that is not due is re-appended unchanged", top=True)
    st["on_store"] = on_store

    def inv_bounds(c, *a):
        lo, hi, (D, R, O) = cur()
        return mk(z3.And(lo0 <= lo, lo <= m, m < hi, z3.Select(D, m) == NODOG,
                         z3.ForAll([i], z3.Implies(z3.And(lo <= i, i < m), z3.And(z3.Select(D, i) == z3.Select(D0, i), z3.Select(R, i) == z3.Select(R0, i), z3.Select(O, i) == z3.Select(O0, i))))), "bool")

    def inv_sets(c, *a):
        lo, hi, (D, R, O) = cur()
        return mk(z3.And(z3.ForAll([j], z3.Implies(z3.And(m < j, j < hi), z3.And(z3.Select(D, j) != NODOG, z3.Select(g["alive"], z3.Select(D, j))))),
                         z3.ForAll([i], z3.Implies(z3.And(lo <= i, i < m), z3.And(z3.Select(g["alive"], z3.Select(D0, i)), z3.Not(z3.Select(g["sent"], z3.Select(D0, i))))))), "bool")

    def inv_order(c, *a):
        lo, hi, (D, R, O) = cur()
        return mk(z3.And(z3.ForAll([j, j2], z3.Implies(z3.And(m < j, j < j2, j2 < hi), rank(z3.Select(D, j)) < rank(z3.Select(D, j2)))),
                         z3.ForAll([j, i], z3.Implies(z3.And(m < j, j < hi, lo <= i, i < m), rank(z3.Select(D, j)) < rank(z3.Select(D0, i))))), "bool")

    def inv_sent(c, *a):
        lo, hi, (D, R, O) = cur()
        return mk(z3.ForAll([i], z3.Implies(z3.And(lo0 <= i, i < lo), (z3.Select(R0, i) <= z(tyme0)) == z3.Select(g["sent"], z3.Select(D0, i)))), "bool")

    def inv_tyme(c, *a):
        return mk(E.values_equal(c, (ctx.st(self)["_tyme"] if cls == DOIST else g["tyme"]), tyme0), "bool") if True else True
    for nm_, fn in (("inv_bounds", inv_bounds), ("inv_sets", inv_sets), ("inv_order", inv_order), ("inv_sent", inv_sent), ("inv_tyme", inv_tyme)):
        B.prog.spec_env[nm_] = ModelFn(lambda c, a, k, fn=fn: (lambda r: r if not isinstance(r, bool) else r)(fn(c, *a)), "spec:" + nm_)

    def havoc(interp, fr):
        s_ = ctx.st(deeds)
        n = ctx.nfresh = ctx.nfresh + 1
        s_["lo"] = z3.Int("lo!%d" % n)
        s_["hi"] = z3.Int("hi!%d" % n)
        s_["arrs"] = [z3.Const("D!%d" % n, D0.sort()), z3.Const("R!%d" % n, R0.sort()), z3.Const("O!%d" % n, O0.sort())]
        g["alive"] = z3.Const("alive!%d" % n, alive0.sort())
        g["sent"] = z3.Const("sent!%d" % n, alive0.sort())
        g["done"] = z3.Const("done!%d" % n, done0.sort())
        g["yielded"] = None
    B.loop(cls + ".recur", 0, invariant=["inv_bounds()", "inv_sets()", "inv_order()", "inv_sent()", "inv_tyme()"], modifies=[havoc], top=(2, 3))
    if cls == DOIST:
        B.call(self, qual=DOIST + ".recur")
    else:
        B.call(self, tyme0, qual=DODOER + ".recur")
    lo, hi, (D, R, O) = cur()
    if B.returned():
        B.prove("no-marker-left", z3.ForAll([j], z3.Implies(z3.And(lo <= j, j < hi), z3.Select(D, j) != NODOG)), top=True)
        B.prove("deeds-are-alive-and-in-enter-order", z3.And(z3.ForAll([j], z3.Implies(z3.And(lo <= j, j < hi), z3.Select(g["alive"], z3.Select(D, j)))),
                                                            z3.ForAll([j, j2], z3.Implies(z3.And(lo <= j, j < j2, j2 < hi), rank(z3.Select(D, j)) < rank(z3.Select(D, j2))))), top=True)
        B.prove("every-due-deed-sent-exactly-once-others-not", z3.ForAll([i], z3.Implies(inwin0(i), (z3.Select(R0, i) <= z(tyme0)) == z3.Select(g["sent"], z3.Select(D0, i)))), top=True)
        if cls == DOIST:
            B.prove("tyme-advances-one-tock", z(ctx.st(self)["_tyme"], "real") == z(tyme0) + z(tock0), top=True)
        else:
            B.prove("result-is-deeds-empty", E.values_equal(ctx, B.env["result"], mk(hi == lo, "bool")), top=True)
    else:
        B.handled = True
        B.prove("raises-only-a-doers-exception", g["raised"] is True, top=True)
        nonm = lambda k: z3.And(lo <= k, k < hi, z3.Select(D, k) != NODOG)      # noqa
        B.prove("exception/alive-dogs-still-in-deeds", z3.ForAll([j], z3.Implies(nonm(j), z3.Select(g["alive"], z3.Select(D, j)))), top=True, props=["C01"])
        # (C02's clause "what is left is still in enter order" is FALSE on this tree: recorded finding; it is stated and refuted with a
        #  concrete countermodel in the bounded tier (sched_bounded.py) -- quantified refutation here comes back `unknown`)
    B.no_other_exception()


@contract(DOIST + ".recur", props=["C03", "C02", "C01"], name=DOIST + ".recur[unbounded, no re-entrancy]")
def doist_recur_inv(B):
    recur_contract(B, DOIST)


@contract(DODOER + ".recur", props=["C03", "C02", "C01", "C04"], name=DODOER + ".recur[unbounded, no re-entrancy]")
def dodoer_recur_inv(B):
    recur_contract(B, DODOER)


# ------------------------------------------------------------------------------------------ enter (unbounded number of doers)

tock_of = ufunc("tock_of", DOER_, z3.RealSort())


class EnterDoer(CycleDoer):
    """a Doist-compatible doer seen by enter(): callable (returns a brand-new dog), has .tock, may lack .temp/.opts"""

    def getattr(self, ctx, sv, name):
        if name == "tock":
            return mk(tock_of(sv.t), "real")
        if name == "temp":
            return None
        if name == "opts":
            return ctx.alloc("dict", init={"v": {}})
        return super().getattr(ctx, sv, name)

    def call(self, ctx, sv, args, kwargs):
        g = ctx.ghost
        nm = self.B.name
        ctx.prove(nm + "/call doer/injects-doers-own-tock", E.values_equal(ctx, kwargs.get("tock"), mk(tock_of(sv.t), "real")), kind="call-requires",
                  detail="the scheduler injects the doer's own tock", top=True)
        ctx.prove(nm + "/call doer/injects-a-tymth", kwargs.get("tymth") is not None, kind="call-requires", detail="the scheduler injects its tymth", top=True)
        d = ctx.fresh("u:Dog", "dog")
        # a brand-new generator: distinct from every dog seen so far, not alive, next enter ordinal
        ctx.assume(z3.And(d.t != NODOG, z3.Not(z3.Select(g["alive"], d.t)), z3.Not(z3.Select(g["started"], d.t)), rank(d.t) > z(g["next_rank"], "int")))
        g["next_rank"] = mk(rank(d.t), "int")
        g["cur_dog"] = d
        g["cur_doer"] = sv
        return d


class EnterDog:
    def __init__(self, B):
        self.B = B

    def getattr(self, ctx, sv, name):
        g = ctx.ghost
        nm = self.B.name
        if name in ("send", "__next__"):
            def start(c, a, k):
                c.prove(nm + "/dog-protocol/start-fresh", z3.Not(z3.Select(g["started"], sv.t)), kind="call-requires", detail="next()/send(None) only on a fresh dog", top=True)
                if name == "send":
                    c.prove(nm + "/dog-protocol/start-with-None", a[0] is None, kind="call-requires", detail="a fresh generator is started with None", top=True)
                g["started"] = z3.Store(g["started"], sv.t, True)
                kk = c.fork(3, "start-outcome")
                if kk == 0:
                    g["alive"] = z3.Store(g["alive"], sv.t, True)
                    g["n_alive_new"] = g["n_alive_new"] + 1
                    return c.fresh("real", "enter_tock")
                if kk == 1:
                    v = [None, True, False][c.fork(3, "ret-kind")]
                    raise PyExc(ExcVal(StopIteration, (v,)))
                ex = ExcVal(None, (), upper=Exception)
                ex.excluded = [StopIteration]
                g["raised"] = True
                raise PyExc(ex)
            return ModelFn(start, "dog.start")
        raise Undecided("dog attribute " + name)


def enter_contract(B, cls, own):
    """own=True: enter() fills self.deeds from self.doers (as do() uses it); own=False: enter(doers=...) as extend() uses it"""
    ctx = B.ctx
    g = ctx.ghost
    axioms(ctx)
    deeds = BI.wseq_fresh(ctx, ("u:Dog", "real", "u:Doer"), "deeds", "deque")
    doers = BI.wseq_fresh(ctx, ("u:Doer",), "doers", "list")
    st = ctx.st(deeds)
    (D0, R0, O0), lo0, hi0 = st["arrs"], st["lo"], st["hi"]
    dst = ctx.st(doers)
    alive0 = z3.Const("alive0", z3.ArraySort(DOG, z3.BoolSort()))
    started0 = z3.Const("started0", z3.ArraySort(DOG, z3.BoolSort()))
    done0 = z3.Const("done0", z3.ArraySort(DOER_, DONE))
    tyme0 = B.real("tyme")
    tock0 = B.real("tock")
    nr0 = B.int("next_rank0")
    g.update(alive=alive0, started=started0, done=done0, next_rank=nr0, n_alive_new=0, raised=False, cur_dog=None, cur_doer=None, done_writes=[])
    B.prog.usort_models["Dog"] = EnterDog(B)
    B.prog.usort_models["Doer"] = EnterDoer(B)
    i, j, j2 = z3.Ints("i!q j!q j2!q")
    # existing deeds (extend() case / re-entrant enter): alive, started, ranks at most next_rank0, in enter order; markers allowed
    ctx.assume(z3.ForAll([i], z3.Implies(z3.And(lo0 <= i, i < hi0, z3.Select(D0, i) != NODOG),
                                         z3.And(z3.Select(alive0, z3.Select(D0, i)), rank(z3.Select(D0, i)) <= nr0.t))))
    ctx.assume(z3.ForAll([i, j], z3.Implies(z3.And(lo0 <= i, i < j, j < hi0, z3.Select(D0, i) != NODOG, z3.Select(D0, j) != NODOG), rank(z3.Select(D0, i)) < rank(z3.Select(D0, j)))))
    d_ = z3.Const("d!al", DOG)
    ctx.assume(z3.ForAll([d_], z3.Implies(z3.Select(alive0, d_), z3.Select(started0, d_))))
    if cls == DOIST:
        self = B.obj(DOIST, hint="doist", deeds=deeds, doers=doers, _tyme=tyme0, _tock=tock0, temp=False)
    else:
        B.ghost("tyme", tyme0)
        self = B.obj(DODOER, hint="dodoer", _deeds=deeds, _doers=doers, _tock=tock0, _tymth=B.model(lambda c, a, k: c.ghost["tyme"], "tymth"), temp=False)
    target = {"ref": deeds}

    def cur():
        s_ = ctx.st(target["ref"])
        return s_["lo"], s_["hi"], s_["arrs"]

    def on_store(c, idx, vals):
        nm = B.name
        c.prove(nm + "/append/is-the-dog-just-started-with-its-doer", z3.And(z(vals[0]) == g["cur_dog"].t, z(vals[2]) == g["cur_doer"].t), kind="call-requires",
                detail="the deed appended is (dog just started, ., its doer)", top=True)
        c.prove(nm + "/append/first-due-tyme-is-tyme-at-enter", z(vals[1], "real") == z(tyme0), kind="call-requires", detail="first recur is due at the tyme of enter", top=True)
        c.prove(nm + "/append/only-suspended-dogs", z3.Select(g["alive"], z(vals[0])), kind="call-requires", detail="only a dog that suspended (is alive) gets a deed", top=True)
    if own:
        st["on_store"] = on_store
        base_lo, base_hi, (BD, BR, BO) = lo0, hi0, (D0, R0, O0)
    else:
        base_lo = base_hi = None

    def inv_deeds(c, *a):
        lo, hi, (D, R, O) = cur()
        blo, bhi = (lo0, hi0) if own else (ctx.ghost["new_lo"], ctx.ghost["new_lo"])
        olds = z3.ForAll([i], z3.Implies(z3.And(lo0 <= i, i < hi0), z3.And(z3.Select(D, i) == z3.Select(D0, i), z3.Select(R, i) == z3.Select(R0, i), z3.Select(O, i) == z3.Select(O0, i)))) if own else z3.BoolVal(True)
        return mk(z3.And(lo == blo, bhi <= hi, olds,
                         z3.ForAll([j], z3.Implies(z3.And(bhi <= j, j < hi), z3.And(z3.Select(D, j) != NODOG, z3.Select(g["alive"], z3.Select(D, j)), z3.Select(R, j) == z(tyme0),
                                                                                    rank(z3.Select(D, j)) > nr0.t, rank(z3.Select(D, j)) <= z(g["next_rank"], "int")))),
                         z3.ForAll([j, j2], z3.Implies(z3.And(bhi <= j, j < j2, j2 < hi), rank(z3.Select(D, j)) < rank(z3.Select(D, j2)))),
                         z(g["n_alive_new"], "int") == hi - bhi, z(g["next_rank"], "int") >= nr0.t), "bool")

    def inv_frame(c, *a):
        d = z3.Const("d!fr", DOG)
        return mk(z3.And(z3.ForAll([d], z3.Implies(rank(d) <= nr0.t, z3.And(z3.Select(g["alive"], d) == z3.Select(alive0, d), z3.Select(g["started"], d) == z3.Select(started0, d)))),
                         z3.ForAll([d], z3.Implies(z3.Select(g["alive"], d), z3.Select(g["started"], d))),
                         z3.ForAll([d], z3.Implies(z3.And(rank(d) > z(g["next_rank"], "int")), z3.And(z3.Not(z3.Select(g["alive"], d)) == z3.Not(z3.Select(alive0, d)), z3.Select(g["started"], d) == z3.Select(started0, d))))), "bool")

    def inv_idx(c, *a):
        return mk(z3.And(dst["lo"] <= z(c.interp_frame.locals["_idx"], "int") if False else True), "bool") if False else True
    B.prog.spec_env["inv_deeds"] = ModelFn(lambda c, a, k: inv_deeds(c), "spec:inv_deeds")
    B.prog.spec_env["inv_frame"] = ModelFn(lambda c, a, k: inv_frame(c), "spec:inv_frame")

    def havoc(interp, fr):
        n = ctx.nfresh = ctx.nfresh + 1
        s_ = ctx.st(target["ref"])
        s_["hi"] = z3.Int("hi!%d" % n)
        s_["arrs"] = [z3.Const("D!%d" % n, D0.sort()), z3.Const("R!%d" % n, R0.sort()), z3.Const("O!%d" % n, O0.sort())]
        g["alive"] = z3.Const("alive!%d" % n, alive0.sort())
        g["started"] = z3.Const("started!%d" % n, alive0.sort())
        g["done"] = z3.Const("done!%d" % n, done0.sort())
        g["next_rank"] = ctx.fresh("int", "next_rank")
        g["n_alive_new"] = ctx.fresh("int", "n_alive_new")
        g["cur_dog"] = None

    def head(c, fr):
        if not own and "deeds" in fr.locals and fr.locals["deeds"] is not target["ref"]:
            pass
    if not own:
        # enter(doers=...) builds a fresh local deque: a concrete empty deque in the engine; give it the window encoding at the loop
        raise Undecided("enter(doers=...) with a local deque is covered by the bounded tier (extend contracts)")
    B.loop(cls + ".enter", 0, invariant=["inv_deeds()", "inv_frame()"], modifies=[havoc], top=(0,))
    r = B.call(self, qual=cls + ".enter")
    lo, hi, (D, R, O) = cur()
    B.prove("alive-new-dogs-are-exactly-the-appended-deeds(count)", z(g["n_alive_new"], "int") == hi - hi0, top=True, props=["C01", "C02"])
    B.prove("old-deeds-untouched-new-deeds-alive-in-enter-order-due-now", inv_deeds(ctx).t, top=True)
    if B.returned():
        B.prove("returns-its-deeds", isinstance(r, Ref) and r == deeds, top=False)
    else:
        B.handled = True
        B.prove("raises-only-a-doers-exception", g["raised"] is True, top=True)
    B.no_other_exception()


@contract(DOIST + ".enter", props=["C01", "C02", "C03"], name=DOIST + ".enter[unbounded]")
def doist_enter_inv(B):
    enter_contract(B, DOIST, True)


@contract(DODOER + ".enter", props=["C01", "C02", "C03", "C04"], name=DODOER + ".enter[unbounded]")
def dodoer_enter_inv(B):
    enter_contract(B, DODOER, True)

"""C20 / C22 -- the receive side of Memoer: what is stored, what is fused, what is delivered.

Interpreted from /repo/src/hio/core/memo/memoing.py:

Memoer.fuse(grams, cnt)          UNBOUNDED in cnt and in the number of stored grams (grams: symbolic dict int -> bytes)
        ensures   a non-None result implies every gram number 0 <= i < cnt is present (a memo missing any gram is never fused);
                  when all are present (and len(grams) >= cnt) the result is the decoding of  grams[0] ++ ... ++ grams[cnt-1]
                  in numeric order, whatever the arrival order and whatever other gram numbers (>= cnt) are stored;
                  MemoerError only for bytes that do not decode
Memoer._serviceOneReceived()     bounded-symbolic: <= 2 memo ids already known, each with <= 2 stored grams; everything else symbolic
        ensures   nothing received -> False, no table touched;  pick() raising MemoerError/ValueError/LookupError -> True, no table
                  touched (invalid grams are dropped); a valid gram is stored under (mid, gn) ONLY if that slot is empty; count,
                  signer id and source of a memo id are set only if absent (first-only, so a later gram cannot re-bind them);
                  no other memo's tables change
Memoer._serviceOnceRxGrams()     bounded-symbolic: <= 2 memo ids
        ensures   per memo id, in one pass: no count yet or fuse() None -> untouched; fuse() raises MemoerError -> all four
                  tables forget the id, nothing delivered; fuse() returns a memo -> exactly one (memo, source, signer) appended to
                  .rxms with the STORED source and signer of that id, and all four tables forget the id (so it cannot be
                  delivered twice from these grams)

EXT: receive() returns any (gram, src); pick(gram) returns any (mid, vid, gn, gc) or raises one of the three exception kinds
(its parsing of the header bytes is covered natively, harness/memo_native.py); bytes.decode either raises UnicodeDecodeError or
returns DEC(bytes) (uninterpreted).
"""
import z3
from .common import *
from pyvc import builtins as BI
from pyvc.engine import usort, ufunc

MEMOER = "hio.core.memo.memoing:Memoer"
MEMOERR = "hio.hioing:MemoerError"
I, S = z3.IntSort(), z3.StringSort()
DEC = ufunc("utf8_decode", S, S)
FIELD_TYPES.setdefault(MEMOER, {}).update({"opened": "bool"})


# ------------------------------------------------------------------------------------------------ fuse

@contract(MEMOER + ".fuse", props=["C20", "C22"], name=MEMOER + ".fuse[any gram count, any stored grams]", z3_ms=4000)
def memoer_fuse(B):
    ctx = B.ctx
    g = ctx.ghost
    grams = B.sdict("int", "bytes", "grams")
    gs = ctx.st(grams)
    dom, mp, n = gs["dom"], gs["map"], gs["n"]
    cnt = B.int("cnt")
    CAT = ufunc("CAT", I, S)                 # CAT(k) = grams[0] ++ ... ++ grams[k-1]
    ctx.assume(CAT(0) == z3.StringVal(""))
    j = z3.Int("j!q")
    self = B.obj(MEMOER, hint="memoer")
    g["decode_failed"] = False

    def decode(c, s, a, k):
        if c.fork(2, "decode-outcome") == 1:
            g["decode_failed"] = True
            raise py_exc(UnicodeDecodeError, "utf-8", b"", 0, 1, "invalid start byte")
        return SV(DEC(z(s)), "str")
    B.prog.text_models["decode"] = decode

    def inv(c, memo, idx):
        k = z(idx, "int")
        m = z(BI.as_text(c, memo))
        return mk(z3.And(0 <= k, z3.Or(k == 0, k <= cnt.t), m == CAT(k),
                         z3.ForAll([j], z3.Implies(z3.And(0 <= j, j < k), z3.Select(dom, j)))), "bool")
    B.prog.spec_env["inv_fuse"] = ModelFn(lambda c, a, k: inv(c, *a), "spec:inv_fuse")

    def head(c, fr):
        k = z(fr.locals["_idx"], "int")
        c.assume(CAT(k + 1) == z3.Concat(CAT(k), z3.Select(mp, k)))       # definitional instance of CAT at the arbitrary iteration

    def havoc(interp, fr):
        memo = fr.locals["memo"]
        ctx.st(memo)["v"] = ctx.fresh("bytes", "memo")
    B.loop(MEMOER + ".fuse", 0, invariant=["inv_fuse(memo, _idx)"], modifies=[havoc], head=head)
    r = B.call(self, grams, cnt, qual=MEMOER + ".fuse")
    allpresent = z3.ForAll([j], z3.Implies(z3.And(0 <= j, j < cnt.t), z3.Select(dom, j)))
    if B.raised():
        B.handled = True
        memoerr = source_class(MEMOERR)
        B.prove("raises-only-MemoerError", bool(B.raised(memoerr)), top=True)
        B.prove("MemoerError-only-for-undecodable-bytes", g["decode_failed"] is True, top=True)
        B.prove("raises-only-when-every-gram-is-present", allpresent, top=True, props=["C20"])
        B.no_other_exception()
        return
    B.no_other_exception()
    if r is None:
        B.prove("None-only-when-a-gram-is-missing-or-too-few-stored", z3.Or(z3.Not(allpresent), n < cnt.t), top=True)
    else:
        B.prove("a-memo-missing-any-gram-is-never-fused", allpresent, top=True)
        B.prove("memo-is-the-grams-in-numeric-order-decoded", z3.Or(z(r) == DEC(CAT(cnt.t)), z3.And(cnt.t <= 0, z(r) == DEC(z3.StringVal("")))), top=True, props=["C20"])
    B.prove("stored-grams-untouched", z3.And(gs["dom"] == dom, gs["map"] == mp, gs["n"] == n), top=True)


def source_class(qual):
    from pyvc import source
    return source.class_by_qual(qual)


# ------------------------------------------------------------------------------------------------ _serviceOneReceived

MID, VID, SRC = usort("Mid"), usort("Vid"), usort("Src")


def tables(B, nmid):
    """rxgs / counts / vids / sources with nmid known memo ids (distinct), each with 1..2 stored grams; counts may be absent"""
    ctx = B.ctx
    mids = [B.uid("Mid", "mid%d" % i) for i in range(nmid)]
    if nmid == 2:
        ctx.assume(mids[0].t != mids[1].t)
    rxgs, counts, vids, sources = {}, {}, {}, {}
    snap = {}
    for i, m in enumerate(mids):
        k = B.choice(1, 2, label="stored-grams-%d" % i)
        gns = [B.int("gn%d_%d" % (i, x)) for x in range(k)]
        if k == 2:
            ctx.assume(gns[0].t != gns[1].t)
        bodies = [B.buf(B.bytes("body%d_%d" % (i, x))) for x in range(k)]
        inner = B.dict({gn: b for gn, b in zip(gns, bodies)})
        rxgs[m] = inner
        has_count = B.choice(False, True, label="has-count-%d" % i)
        if has_count:
            counts[m] = B.int("count%d" % i)
        vids[m] = B.uid("Vid", "vid%d" % i)
        sources[m] = B.uid("Src", "src%d" % i)
        snap[i] = dict(mid=m, gns=gns, bodies=bodies, inner=inner, count=counts.get(m), vid=vids[m], src=sources[m])
    return mids, B.dict(rxgs), B.dict(counts), B.dict(vids), B.dict(sources), snap


def items(ctx, ref):
    return list(ctx.st(ref)["v"].values())


def lookup(ctx, ref, key):
    """value stored under a key that is the SAME z3 term (table keys here are distinct constants)"""
    for k, v in items(ctx, ref):
        if isinstance(k, SV) and isinstance(key, SV) and z3.eq(k.t, key.t):
            return v
    return None


@contract(MEMOER + "._serviceOneReceived", props=["C20", "C22"], name=MEMOER + "._serviceOneReceived[<=2 known memo ids]")
def memoer_one_received(B):
    ctx = B.ctx
    g = ctx.ghost
    nmid = B.choice(0, 1, 2, label="known-mids")
    mids, rxgs, counts, vids, sources, snap = tables(B, nmid)
    self = B.obj(MEMOER, hint="memoer", rxgs=rxgs, counts=counts, vids=vids, sources=sources)
    outcome = B.choice("nothing", "invalid", "valid", label="datagram")
    gram = b"" if outcome == "nothing" else B.bytes("gram")
    if outcome != "nothing":
        ctx.assume(z3.Length(gram.t) > 0)
    src = None if outcome == "nothing" else B.uid("Src", "src")
    B.virtual(self, "receive", lambda c, a, k: (gram, src))
    mid, vid, gn = B.uid("Mid", "mid"), B.uid("Vid", "vid"), B.int("gn")
    zeroth = B.choice(False, True, label="zeroth-gram") if outcome == "valid" else False
    gc = B.int("gc") if zeroth else None
    picked = {}

    def pick(c, a, k):
        picked["buf"] = a[0]
        if outcome == "invalid":
            kind = c.fork(3, "pick-error")
            raise PyExc(ExcVal([source_class(MEMOERR), ValueError, KeyError][kind], ("bad gram",)))
        return (mid, vid, gn, gc)
    B.virtual(self, "pick", pick)
    r = B.call(self, qual=MEMOER + "._serviceOneReceived")
    B.no_other_exception()
    if not B.returned():
        return
    st = ctx.st(self)
    B.prove("result-tells-whether-a-datagram-arrived", (r is True) == (outcome != "nothing") and r in (True, False), top=True)

    def unchanged(i):
        s = snap[i]
        inner = lookup(ctx, st["rxgs"], s["mid"])
        ok = inner is not None and inner.oid == s["inner"].oid
        same_items = ok and [(k, v) for k, v in items(ctx, inner)][:len(s["gns"])] == list(zip(s["gns"], s["bodies"]))
        meta = lookup(ctx, st["vids"], s["mid"]) is s["vid"] and lookup(ctx, st["sources"], s["mid"]) is s["src"]
        return bool(ok and same_items and meta)
    if outcome != "valid":
        B.prove("no-table-touched-without-a-valid-gram", all(unchanged(i) for i in range(nmid)) and
                all(len(items(ctx, st[t])) == len(items(ctx, ref)) for t, ref in (("rxgs", rxgs), ("counts", counts), ("vids", vids), ("sources", sources))) and
                all(len(items(ctx, lookup(ctx, st["rxgs"], snap[i]["mid"]))) == len(snap[i]["gns"]) for i in range(nmid)), top=True, props=["C22"])
        return
    # a valid gram: which known memo id does it belong to on this path (the engine case-split on key equality)?
    owner = None
    for i in range(nmid):
        if ctx.branch(mid.t == snap[i]["mid"].t, "gram-of-known-mid-%d" % i):
            owner = i
            break
    for i in range(nmid):
        s = snap[i]
        B.prove("stored-grams-never-overwritten#%d" % i, unchanged(i), top=True)
        if i != owner:
            B.prove("other-memo-untouched#%d" % i, len(items(ctx, lookup(ctx, st["rxgs"], s["mid"]))) == len(s["gns"]) and
                    (lookup(ctx, st["counts"], s["mid"]) is s["count"]), top=True)
    if owner is None:
        inner = [v for k, v in items(ctx, st["rxgs"]) if isinstance(k, SV) and z3.eq(k.t, mid.t)]
        B.prove("new-memo-id-gets-its-own-tables", len(inner) == 1 and len(items(ctx, st["rxgs"])) == nmid + 1, top=True)
        if len(inner) == 1:
            its = items(ctx, inner[0])
            B.prove("gram-stored-under-its-number", len(its) == 1 and its[0][0] is gn and its[0][1] is picked.get("buf"), top=True)
        B.prove("signer-and-source-recorded-for-a-new-memo-id", lookup(ctx, st["vids"], mid) is vid and lookup(ctx, st["sources"], mid) is src, top=True)
        B.prove("count-recorded-iff-zeroth-gram", (lookup(ctx, st["counts"], mid) is gc) if zeroth else lookup(ctx, st["counts"], mid) is None, top=True)
    else:
        s = snap[owner]
        inner = lookup(ctx, st["rxgs"], s["mid"])
        its = items(ctx, inner)
        dup = len(its) == len(s["gns"])
        # stored iff its number is new for this memo id
        isnew = z3.And(*[gn.t != x.t for x in s["gns"]])
        # authenticity at MEMO level: pick() verified the gram for the signer `vid` it names (contracts/c22_pick.py); the memo is
        # delivered under the signer recorded with its FIRST gram, so a gram verified for anybody else must not be fused into it
        same_signer = vid.t == s["vid"].t
        B.prove("a-gram-is-fused-only-if-it-verified-for-the-memos-recorded-signer", z3.Implies(z3.BoolVal(not dup), same_signer), top=True, props=["C22"])
        B.prove("gram-stored-iff-its-number-is-new-and-its-signer-is-the-memos(first-only)", z3.And(isnew, same_signer) == (not dup), top=True, props=["C20", "C22"])
        if not dup:
            B.prove("new-gram-stored-under-its-number", len(its) == len(s["gns"]) + 1 and its[-1][0] is gn and its[-1][1] is picked.get("buf"), top=True)
        B.prove("signer-and-source-first-only", lookup(ctx, st["vids"], s["mid"]) is s["vid"] and lookup(ctx, st["sources"], s["mid"]) is s["src"], top=True, props=["C22", "C20"])
        c1 = lookup(ctx, st["counts"], s["mid"])
        if c1 is None:
            c1 = lookup(ctx, st["counts"], mid)      # stored under the equal key object of the arriving gram
        if s["count"] is not None:
            B.prove("count-first-only", c1 is s["count"], top=True)
        else:
            B.prove("count-recorded-iff-zeroth-gram-of-the-memos-signer",
                    z3.If(same_signer, z3.BoolVal((c1 is gc) if zeroth else c1 is None), z3.BoolVal(c1 is None)), top=True)
    B.prove("canary:always-a-new-memo-id", owner is None)        # must FAIL (vacuity guard); last


# ------------------------------------------------------------------------------------------------ _serviceOnceRxGrams

@contract(MEMOER + "._serviceOnceRxGrams", props=["C20", "C22"], name=MEMOER + "._serviceOnceRxGrams[<=2 memo ids]")
def memoer_once_rx_grams(B):
    ctx = B.ctx
    nmid = B.choice(0, 1, 2, label="known-mids")
    mids, rxgs, counts, vids, sources, snap = tables(B, nmid)
    rxms = B.deque([])
    self = B.obj(MEMOER, hint="memoer", rxgs=rxgs, counts=counts, vids=vids, sources=sources, rxms=rxms)
    calls = []

    def fuse(c, a, k):
        inner, cnt = a
        who = [i for i in range(nmid) if snap[i]["inner"].oid == inner.oid]
        kind = ("none", "memo", "error")[c.fork(3, "fuse-outcome")]
        calls.append((who[0] if who else None, cnt, kind))
        if kind == "error":
            raise PyExc(ExcVal(source_class(MEMOERR), ("Invalid memo encoding",)))
        if kind == "none":
            return None
        m = c.fresh("str", "memo%d" % (who[0] if who else 9))
        calls[-1] = calls[-1] + (m,)
        return m
    B.virtual(self, "fuse", fuse)
    B.call(self, qual=MEMOER + "._serviceOnceRxGrams")
    B.no_other_exception()
    if not B.returned():
        return
    st = ctx.st(self)
    delivered = list(ctx.st(rxms)["v"])
    expect = []
    for i in range(nmid):
        s = snap[i]
        mine = [c for c in calls if c[0] == i]
        B.prove("fused-at-most-once-per-pass#%d" % i, len(mine) <= 1, top=True)
        B.prove("fused-iff-the-count-is-known#%d" % i, (len(mine) == 1) == (s["count"] is not None), top=True)
        if mine:
            B.prove("fused-with-its-own-grams-and-count#%d" % i, mine[0][1] is s["count"], top=True)
        kind = mine[0][2] if mine else "skip"
        present = [lookup(ctx, st[t], s["mid"]) is not None for t in ("rxgs", "counts", "sources", "vids")]
        if kind in ("memo", "error"):
            B.prove("memo-id-forgotten-by-all-four-tables#%d" % i, not any(present), top=True)
        else:
            B.prove("incomplete-memo-kept-untouched#%d" % i, lookup(ctx, st["rxgs"], s["mid"]) is not None and
                    lookup(ctx, st["rxgs"], s["mid"]).oid == s["inner"].oid and lookup(ctx, st["vids"], s["mid"]) is s["vid"] and
                    lookup(ctx, st["sources"], s["mid"]) is s["src"] and lookup(ctx, st["counts"], s["mid"]) is s["count"], top=True)
        if kind == "memo":
            expect.append((mine[0][3], s["src"], s["vid"]))
    B.prove("delivers-exactly-the-fused-memos-once-each-with-their-stored-source-and-signer",
            len(delivered) == len(expect) and all(isinstance(d, tuple) and len(d) == 3 and d[0] is e[0] and d[1] is e[1] and d[2] is e[2]
                                                   for d, e in zip(delivered, expect)), top=True)
    B.prove("canary:never-delivers", len(delivered) == 0)        # must FAIL (vacuity guard); last

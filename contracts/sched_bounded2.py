"""Scheduler contracts, bounded tier, part 2: extend / remove (C06, C01, C02) and re-entrant use from inside
a running doer.  Same bounds and conventions as sched_bounded.py.
"""
import z3
from .common import *
from .sched import *
from .sched_bounded import setup_running, alive_dog, NMAX


def names(w, refs):
    out = []
    for r in refs:
        for d in w.doers:
            if d.ref == r:
                out.append(d.name)
    return out


# ---------------------------------------------------------------------------------------- extend

def extend_contract(B, cls):
    """extend(new) on a scheduler with n0 running doers (marker possibly present: called from inside a cycle)"""
    n0 = B.choice(0, 1, 2, label="nrunning")
    marker = B.choice(*([None] + list(range(n0 + 1))), label="marker-at")
    w, sched, doers, dogs, retymes = setup_running(B, cls, n0, None, marker)
    ctx = B.ctx
    k = B.choice(0, 1, 2, label="nnew")
    new = [w.doer("x%d" % i) for i in range(k)]
    arg = [d.ref for d in new]
    # duplicates: a doer already present, and the same new doer listed twice
    dup = B.choice("none", "present", "twice", label="dups")
    if dup == "present" and n0 >= 1:
        arg = [doers[0].ref] + arg
    elif dup == "twice" and k >= 1:
        arg = arg + [new[0].ref]
    elif dup != "none":
        raise PathEnd()
    tyme0 = sched_tyme(B, sched)
    deeds0 = deeds_of(B, sched)
    doers0 = doers_of(B, sched)
    _st = ctx.st(sched)
    deque0, list0 = _st.get("deeds") or _st.get("_deeds"), _st.get("doers") or _st.get("_doers")
    B.call(sched, B.list(arg), qual=cls + ".extend")
    # frame: extend() may be called by a doer WHILE recur is walking .deeds -- recur holds that deque object, so the new deeds must
    # go into the SAME object (a rebound .deeds would leave the pass in progress working on a stale one)
    B.prove("deeds-and-doers-are-extended-in-place (the same objects)", (ctx.st(sched).get("deeds") or ctx.st(sched).get("_deeds")) is deque0 and (ctx.st(sched).get("doers") or ctx.st(sched).get("_doers")) is list0, top=True, props=["C06", "C05", "C01"])
    tr = w.trace
    deeds = deeds_of(B, sched)
    dl = doers_of(B, sched)
    starts = [e[1] for e in tr.kinds("START")]
    B.prove("old-deeds-untouched-as-prefix", len(deeds) >= len(deeds0) and all(a[0] == b[0] and a[2] == b[2] for a, b in zip(deeds0, deeds)), top=True)
    B.prove("present-doer-not-reentered", all(s.startswith("x") for s in starts), top=True)
    B.prove("each-new-doer-entered-at-most-once", len(starts) == len(set(starts)), top=True, props=["C06"])
    alive = w.alive()
    nonmarker = [x for x in deeds if not is_marker(x)]
    B.prove("alive-dogs-all-in-deeds-once", sorted(x[0].oid for x in nonmarker) == sorted(g.ref.oid for g in alive), top=True, props=["C01", "C02"])
    if B.returned():
        B.prove("all-new-entered-immediately-in-order", starts == [d.name for d in new], top=True)
        B.prove("doers-list-is-old-plus-new-in-order", names(w, dl) == names(w, doers0) + [d.name for d in new], top=True)
        newdeeds = deeds[len(deeds0):]
        B.prove("new-deeds-appended-after-everything-incl-marker", [x[0].oid for x in newdeeds] == [g.ref.oid for d in new for g in d.dogs if g.state == "alive"], top=True)
        for x in newdeeds:
            B.prove("new-deed-due-now", z(x[1]) == z(tyme0), top=True)
    else:
        B.handled = True
        B.prove("raises-only-a-doers-exception", bool(tr.kinds("RAISE")), top=True)
    B.no_other_exception()


@contract(DOIST + ".extend", props=["C06", "C01", "C02", "C05"], name=DOIST + ".extend[bounded]")
def doist_extend(B):
    extend_contract(B, DOIST)


@contract(DODOER + ".extend", props=["C06", "C01", "C02", "C05"], name=DODOER + ".extend[bounded]")
def dodoer_extend(B):
    extend_contract(B, DODOER)


# ---------------------------------------------------------------------------------------- remove

def remove_contract(B, cls):
    n = B.choice(1, 2, 3, label="nrunning")
    marker = B.choice(*([None] + list(range(n + 1))), label="marker-at")
    w, sched, doers, dogs, retymes = setup_running(B, cls, n, None, marker)
    ctx = B.ctx
    # one doer may be the currently running one (self-removal / removal by a sibling while it runs): its deed is
    # not in deeds (recur popped it)
    running = B.choice(*([None] + list(range(n))), label="running")
    if running is not None:
        dogs[running].state = "running"
        dq = ctx.st(ctx.st(sched).get("deeds") or ctx.st(sched).get("_deeds"))
        dq["v"] = [x for x in dq["v"] if is_marker(x) or x[0] != dogs[running].ref]
    # which doers to remove: any subset, plus optionally a stranger (never added) and a finished one
    mask = B.choice(*range(1, 2 ** n), label="subset")
    rem = [doers[i] for i in range(n) if mask >> i & 1]
    stranger = w.doer("s0")
    arg = [d.ref for d in rem]
    if B.choice(0, 1, label="with-stranger"):
        arg.append(stranger.ref)
    order = B.choice("fwd", "rev", label="arg-order")
    if order == "rev":
        arg = list(reversed(arg))
    deeds0 = deeds_of(B, sched)
    B.call(sched, B.list(arg), qual=cls + ".remove")
    tr = w.trace
    deeds = deeds_of(B, sched)
    dl = doers_of(B, sched)
    closes = [e[1] for e in tr.kinds("CLOSE")]
    remnames = [d.name for d in rem]
    expect_closed = [d.name for i, d in enumerate(doers) if d in rem and i != running]
    B.prove("removed-doers-force-closed-before-return", sorted(closes) == sorted(expect_closed), top=True)
    # C02: forced exits in reverse enter order
    B.prove("closes-in-reverse-enter-order", closes == sorted(closes, key=lambda s: -int(s[1:])), top=True)
    B.prove("doers-list-is-old-minus-removed-in-order", names(w, dl) == [d.name for d in doers if d.name not in remnames], top=True)
    kept = [x for x in deeds0 if is_marker(x) or names(w, [x[2]])[0] not in remnames]
    B.prove("kept-deeds-and-marker-keep-relative-order", [(x[0].oid if x[0] is not None else None) for x in deeds] ==
            [(x[0].oid if x[0] is not None else None) for x in kept], top=True)
    for a, b in zip(deeds, kept):
        if not is_marker(a):
            B.prove("kept-deeds-retyme-unchanged", z(a[1]) == z(b[1]))
    B.prove("running-dog-left-alone", running is None or dogs[running].state == "running", top=True)
    B.no_other_exception()


@contract(DOIST + ".remove", props=["C06", "C01", "C02"], name=DOIST + ".remove[bounded]")
def doist_remove(B):
    remove_contract(B, DOIST)


@contract(DODOER + ".remove", props=["C06", "C01", "C02"], name=DODOER + ".remove[bounded]")
def dodoer_remove(B):
    remove_contract(B, DODOER)


# ---------------------------------------------------------------------------------------- re-entrant use during a cycle

def reentrant_recur(B, cls):
    """one cycle of recur() over 3 running doers where ONE of them, while it runs, calls extend([x]) or
    remove([...]) on the scheduler (the real extend/remove are interpreted re-entrantly)."""
    n = 3
    w, sched, doers, dogs, retymes = setup_running(B, cls, n)
    ctx = B.ctx
    tyme0 = sched_tyme(B, sched)
    for rt in retymes:
        ctx.assume(z(rt) <= z(tyme0))     # all due, so each runs this cycle
    actor = B.choice(0, 1, 2, label="actor")
    op = B.choice("extend", "remove-self", "remove-earlier", "remove-later", label="op")
    newd = w.doer("x0")
    target = None
    if op == "remove-earlier":
        if actor == 0:
            raise PathEnd()
        target = doers[actor - 1]
    elif op == "remove-later":
        if actor == 2:
            raise PathEnd()
        target = doers[actor + 1]
    elif op == "remove-self":
        target = doers[actor]
    done = {"did": False}

    def reentry(c, dog):
        if dog.doer is doers[actor] and not done["did"]:
            done["did"] = True
            done["target_alive"] = target is not None and any(g.state == "alive" for g in target.dogs)
            interp = c.interp
            if op == "extend":
                fn = interp.getattr(sched, "extend")
                interp.call_value(fn, [B.list([newd.ref])], {})
            else:
                fn = interp.getattr(sched, "remove")
                interp.call_value(fn, [B.list([target.ref])], {})
            w.trace.add("REENTRY-DONE", op)
    w.reentry = reentry
    if cls == DOIST:
        B.call(sched, qual=DOIST + ".recur")
    else:
        B.call(sched, tyme0, qual=DODOER + ".recur")
    tr = w.trace
    deeds = deeds_of(B, sched)
    nonmarker = [x for x in deeds if not is_marker(x)]
    alive = w.alive()
    B.prove("alive-dogs-all-in-deeds-once", sorted(x[0].oid for x in nonmarker) == sorted(g.ref.oid for g in alive), top=True)
    sends = [e[1] for e in tr.kinds("SEND")]
    B.prove("each-doer-runs-at-most-once-this-cycle", len(sends) == len(set(sends)), top=True)
    if op == "extend":
        B.prove("added-doer-entered-immediately", "x0" in [e[1] for e in tr.kinds("START")] or not done["did"], top=True)
        B.prove("added-doer-first-recur-next-cycle", "x0" not in sends, top=True)
    else:
        after = tr.ev[[i for i, e in enumerate(tr.ev) if e[0] == "REENTRY-DONE"][0]:] if done["did"] else []
        if op != "remove-self":
            B.prove("removed-doer-closed-before-remove-returns", (not done["did"]) or (not done["target_alive"]) or
                    ("CLOSE", target.name) in [e[:2] for e in tr.ev if e[0] == "CLOSE"], top=True)
            B.prove("removed-doer-never-recurs-again", not [e for e in after if e[0] == "SEND" and e[1] == target.name], top=True)
        else:
            B.prove("self-removal-keeps-running", not [e for e in tr.kinds("CLOSE") if e[1] == target.name], top=True)
    if B.returned():
        B.prove("no-marker-left", len(nonmarker) == len(deeds), top=True)
        if cls == DODOER:
            # C05: a DoDoer reports done exactly when no deed is left, also counting deeds added during this pass
            B.prove("result-is-deeds-empty", E.values_equal(ctx, B.env["result"], len(deeds) == 0), top=True, props=["C05", "C06"])
        # C02 precondition of a later exit(): what is left is in enter order (x0 entered last)
        rank = {d.name: i for i, d in enumerate(doers)}
        rank["x0"] = 99
        got = [rank[names(w, [x[2]])[0]] for x in nonmarker]
        B.prove("deeds-in-enter-order-after-cycle", got == sorted(got), top=True, props=["C02"])
    else:
        B.handled = True
    B.no_other_exception()


@contract(DOIST + ".recur", props=["C06", "C01", "C02"], name=DOIST + ".recur[re-entrant extend/remove, bounded]")
def doist_reentrant(B):
    reentrant_recur(B, DOIST)


@contract(DODOER + ".recur", props=["C06", "C01", "C02", "C05"], name=DODOER + ".recur[re-entrant extend/remove, bounded]")
def dodoer_reentrant(B):
    reentrant_recur(B, DODOER)

"""C12 (http level) -- the idle-close decision of the HTTP servers.

hio.core.http.serving:Server.serviceConnects / closeConnection and BareServer.serviceConnects / closeConnection are interpreted from
/repo/src, together with the real tcp Server.removeIx.  Bounded in the number of accepted connections (<= 2, each with symbolic
cutoff flag, symbolic tymeout, symbolic timer state, present/absent requestant and responder); everything else symbolic.

Per connection ca, after serviceConnects():
    Server      closed  <=>  ix.cutoff  or  (ix.tymeout > 0 and ix.tymer.expired)
    BareServer  closed  <=>  ix.tymeout > 0 and ix.tymer.expired
    closed  =>  the tcp connection is closed exactly once and removed from servant.ixes, its requestant / responder (steward)
                is closed and removed, final bytes of a pending response are flushed first
    kept    =>  a requestant (steward) bound to the connection's receive buffer exists; nothing of it is closed
    the other connection is decided independently (same clauses hold for it in the same pass)

With Tymer.expired <=> tyme >= start + duration (C08, PROVED), Remoter.send/receive restarting the idle timer at the current
tyme exactly when bytes moved (contracts/tcp.py, PROVED) and Server.serviceAxes giving every Remoter the server's tymeout
(PROVED, bounded in #accepted), the statement follows: a connection whose last traffic was at tyme t is closed by the first
serviceConnects() at tyme >= t + tymeout, and a connection with traffic in every window is never expired when it is examined.
EXT: tcp Server.serviceConnects (accepting) is summarised as a no-op here (its own contract is in contracts/tcp.py).
"""
import z3
from .common import *
from pyvc import builtins as BI

HSERVER = "hio.core.http.serving:Server"
BARE = "hio.core.http.serving:BareServer"
TSERVER = "hio.core.tcp.serving:Server"


class Ix:
    def __init__(self, ctx, name, log):
        self.name, self.log = name, log
        self.cutoff = ctx.fresh("bool", name + ".cutoff")
        self.tymeout = ctx.fresh("real", name + ".tymeout")
        self.expired = ctx.fresh("bool", name + ".expired")
        self.rxbs = ctx.alloc("buf", init={"v": ctx.fresh("bytes", name + ".rxbs")})
        self.closed = 0

    def truth(self, ctx, r):
        return True

    def attr_cutoff(self, ctx, r):
        return self.cutoff

    def attr_tymeout(self, ctx, r):
        return self.tymeout

    def attr_rxbs(self, ctx, r):
        return self.rxbs

    def attr_tymer(self, ctx, r):
        ix = self

        class T:
            def attr_expired(self_, c, rr):
                return ix.expired
        return ctx.alloc("ext", init={"model": T()})

    def m_close(self, ctx, r, a, k):
        self.closed += 1
        self.log.append(("ix.close", self.name))

    def m_serviceSends(self, ctx, r, a, k):
        self.log.append(("ix.serviceSends", self.name))


class Part:
    """a Requestant / Responder / Steward known by what the server does with it"""

    def __init__(self, kind, name, log, **kw):
        self.kind, self.name, self.log, self.kw = kind, name, log, kw
        self.closed = 0

    def truth(self, ctx, r):
        return True

    def attr_persisted(self, ctx, r):
        # whether the last request on the connection was persistent: arbitrary (the idle close must not depend on it)
        if not hasattr(self, "_persisted"):
            self._persisted = ctx.fresh("bool", self.name + ".persisted")
        return self._persisted

    def m_close(self, ctx, r, a, k):
        self.closed += 1
        self.log.append((self.kind + ".close", self.name))


def setup(B, cls):
    ctx = B.ctx
    log = ctx.ghost["log"] = []
    n = B.choice(0, 1, 2, label="connections")
    cas = [("10.0.0.%d" % (i + 1), 4000 + i) for i in range(n)]
    ixs = [Ix(ctx, "ix%d" % i, log) for i in range(n)]
    refs = [B.ext(x) for x in ixs]
    servant = B.obj(TSERVER, hint="servant", ixes=B.dict({ca: r for ca, r in zip(cas, refs)}))
    B.virtual(servant, "serviceConnects", lambda c, a, k: log.append(("servant.serviceConnects",)))
    made = []

    def mk_part(kind):
        def maker(interp, cls_, a, k):
            p = Part(kind, "new%d" % len(made), log, **k)
            made.append(p)
            return ctx.alloc("ext", init={"model": p})
        return maker
    B.prog.class_models["hio.core.http.serving:Requestant"] = mk_part("requestant")
    B.prog.class_models["hio.core.http.serving:Steward"] = mk_part("steward")
    parts = {}
    if cls == HSERVER:
        reqs, reps = {}, {}
        for i, ca in enumerate(cas):
            if B.choice(False, True, label="has-requestant-%d" % i):
                parts[("req", i)] = Part("requestant", "req%d" % i, log)
                reqs[ca] = B.ext(parts[("req", i)])
            if B.choice(False, True, label="has-responder-%d" % i):
                parts[("rep", i)] = Part("responder", "rep%d" % i, log)
                reps[ca] = B.ext(parts[("rep", i)])
        self = B.obj(HSERVER, hint="server", servant=servant, reqs=B.dict(reqs), reps=B.dict(reps))
    else:
        stewards = {}
        for i, ca in enumerate(cas):
            if B.choice(False, True, label="has-steward-%d" % i):
                parts[("stw", i)] = Part("steward", "stw%d" % i, log)
                stewards[ca] = B.ext(parts[("stw", i)])
        self = B.obj(BARE, hint="server", servant=servant, stewards=B.dict(stewards), dictable=False)
    return self, servant, cas, ixs, refs, parts, made, log


def keys_of(ctx, ref):
    return [k for k, _ in ctx.st(ref)["v"].values()]


def service_connects(B, cls):
    ctx = B.ctx
    self, servant, cas, ixs, refs, parts, made, log = setup(B, cls)
    B.call(self, qual=cls + ".serviceConnects")
    B.no_other_exception()
    if not B.returned():
        return
    st = ctx.st(self)
    left = keys_of(ctx, ctx.st(servant)["ixes"])
    B.prove("accepting-serviced-first", bool(log) and log[0] == ("servant.serviceConnects",), top=True)
    for i, (ca, ix) in enumerate(zip(cas, ixs)):
        idle = z3.And(z(ix.tymeout, "real") > 0, z(ix.expired))
        must_close = z3.Or(z(ix.cutoff), idle) if cls == HSERVER else idle
        closed = ix.closed >= 1
        B.prove("closed-iff-cutoff-or-idle-expired#%d" % i if cls == HSERVER else "closed-iff-idle-expired#%d" % i, must_close == closed, top=True)
        B.prove("closed-at-most-once#%d" % i, ix.closed <= 1, top=True)
        if closed:
            B.prove("closed-connection-removed-from-servant#%d" % i, ca not in left, top=True)
            if cls == HSERVER:
                B.prove("closed-connection-has-no-requestant-or-responder-left#%d" % i,
                        ca not in keys_of(ctx, st["reqs"]) and ca not in keys_of(ctx, st["reps"]), top=True)
                for kind in ("req", "rep"):
                    p = parts.get((kind, i))
                    if p is not None:
                        B.prove("its-%s-closed-once#%d" % ("requestant" if kind == "req" else "responder", i), p.closed == 1, top=True)
                if ("rep", i) in parts:
                    B.prove("pending-response-flushed-before-the-socket-closes#%d" % i,
                            ("ix.serviceSends", ix.name) in log and log.index(("ix.serviceSends", ix.name)) < log.index(("ix.close", ix.name)), top=True)
            else:
                B.prove("closed-connection-has-no-steward-left#%d" % i, ca not in keys_of(ctx, st["stewards"]), top=True)
        else:
            B.prove("kept-connection-stays-with-servant#%d" % i, ca in left, top=True)
            table = st["reqs"] if cls == HSERVER else st["stewards"]
            B.prove("kept-connection-has-a-%s#%d" % ("requestant" if cls == HSERVER else "steward", i), ca in keys_of(ctx, table), top=True)
            for (kind, j), p in parts.items():
                if j == i:
                    B.prove("nothing-of-a-kept-connection-closed#%d" % i, p.closed == 0, top=True)
    for p in made:
        if p.kind == "requestant":
            B.prove("new-requestant-reads-the-connections-receive-buffer", any(p.kw.get("msg") is ix.rxbs and p.kw.get("remoter") is r
                                                                               for ix, r in zip(ixs, refs)), top=True)
        else:
            B.prove("new-steward-serves-the-connection", any(p.kw.get("remoter") is r for r in refs), top=True)
    B.prove("canary:nothing-ever-closed", all(ix.closed == 0 for ix in ixs))       # must FAIL (vacuity guard); last


@contract(HSERVER + ".serviceConnects", props=["C12"], name=HSERVER + ".serviceConnects[<=2 connections]")
def http_server_service_connects(B):
    service_connects(B, HSERVER)


@contract(BARE + ".serviceConnects", props=["C12"], name=BARE + ".serviceConnects[<=2 connections]")
def bare_server_service_connects(B):
    service_connects(B, BARE)

"""C23 -- Dusq: the in-memory insertion-ordered set and its durable copy get the same abstract operations.

hio.base.hier.dusqing:Dusq.push / pull / remove / clear / update / sync / pin are interpreted from /repo/src.  Both the in-memory
OrderedSet and the store entry are values of ONE abstract data type OSet (uninterpreted sort) with the operations
    ADD(S, v)  REM(S, v)  EMPTY  FIRST(S)  LEN(S)  IN(S, v)
EXT (assumed): ordered_set.OrderedSet implements this type (add appends iff absent; remove raises KeyError iff absent; [0] is
FIRST and raises IndexError iff LEN = 0; len; clear; update(vals) = ADD in order; iteration in insertion order) and the store
entry of an IoSetSuber implements the SAME type (add(val) -> whether it was absent; put(vals) -> ADD in order, True;
pop() -> FIRST and removes it, None when empty; rem(val) -> whether it was present; rem() -> whether non-empty, empties;
cnt; getIter in order; pin(vals) replaces).  That the real store does so is C24's subject (native tier, real LMDB).
Facts about the type used as axioms: LEN >= 0; LEN(ADD(S,v)) = LEN(S) + (0 if IN(S,v) else 1); ADD(S,v) = S if IN(S,v);
LEN(EMPTY) = 0; LEN(S) = 0 => S = EMPTY; LEN(S) > 0 => IN(S, FIRST(S)); IN(S,v) => LEN(REM(S,v)) = LEN(S) - 1.

Class invariant SYNC (when durable): memory == durable copy (as OSet values: same members in the same order).
Every mutator, from a SYNC state: applies the SAME abstract operation to both (so SYNC is kept and the set / FIFO behaviour of
the durable copy is that of the in-memory ordered set), returns what the statement says (push of a new or known value: True and
the set gains it iff it was absent; pull: FIRST, FIFO; remove: True iff present; clear), and never raises the
"Mismatch between cache and durable" HierError.  sync() from arbitrary contents: memory becomes the durable copy when that is
non-empty, else the durable copy becomes memory.  A non-durable set never touches the store.
"""
import z3
from .common import *
from pyvc import builtins as BI
from pyvc.engine import usort, ufunc

DUSQ = "hio.base.hier.dusqing:Dusq"
DOM, OS = usort("Dom"), usort("OSet")
ADD = ufunc("OS_ADD", OS, DOM, OS)
REM = ufunc("OS_REM", OS, DOM, OS)
FIRST = ufunc("OS_FIRST", OS, DOM)
LEN = ufunc("OS_LEN", OS, z3.IntSort())
IN = ufunc("OS_IN", OS, DOM, z3.BoolSort())
EMPTY = z3.Const("OS_EMPTY", OS)


def axioms(ctx):
    S = z3.Const("S!ax", OS)
    v = z3.Const("v!ax", DOM)
    # explicit triggers: each axiom fires only on terms of the operation it describes (no matching loop REM -> FIRST -> REM ...)
    ctx.assume(z3.ForAll([S], LEN(S) >= 0, patterns=[LEN(S)]))
    ctx.assume(z3.ForAll([S, v], z3.And(LEN(ADD(S, v)) == LEN(S) + z3.If(IN(S, v), 0, 1), z3.Implies(IN(S, v), ADD(S, v) == S), IN(ADD(S, v), v)),
                         patterns=[ADD(S, v)]))
    ctx.assume(LEN(EMPTY) == 0)
    ctx.assume(z3.ForAll([S], z3.Implies(LEN(S) == 0, S == EMPTY), patterns=[LEN(S)]))
    ctx.assume(z3.ForAll([S], z3.Implies(LEN(S) > 0, IN(S, FIRST(S))), patterns=[FIRST(S)]))
    ctx.assume(z3.ForAll([S, v], z3.Implies(IN(S, v), LEN(REM(S, v)) == LEN(S) - 1), patterns=[REM(S, v)]))
    ctx.assume(z3.ForAll([v], z3.Not(IN(EMPTY, v)), patterns=[IN(EMPTY, v)]))
    ctx.assume(z3.ForAll([v], ufunc("truthy_Dom", DOM, z3.BoolSort())(v), patterns=[ufunc("truthy_Dom", DOM, z3.BoolSort())(v)]))


class DomModel:
    def isinstance(self, ctx, v, tt):
        return True

    def getattr(self, ctx, sv, name):
        if name == "__dataclass_params__":
            class P:
                def attr_frozen(self_, c, r):
                    return SV(ufunc("frozen", DOM, z3.BoolSort())(sv.t), "bool")
            return ctx.alloc("ext", init={"model": P()})
        raise Undecided("Dom attribute " + name)


class View:
    """what iterating an OSet yields, handed to another OSet operation (update / pin)"""

    def __init__(self, s):
        self.s = s


class OSet:
    """a mutable holder of an abstract OSet value; used for the in-memory set and inside the store model"""

    def __init__(self, s, log, name):
        self.s, self.log, self.name = s, log, name

    def truth(self, ctx, r):
        return mk(LEN(self.s) > 0, "bool")

    def length(self, ctx, r):
        return mk(LEN(self.s), "int")

    def getitem(self, ctx, r, idx):
        if conc(idx) != 0:
            raise Undecided("OrderedSet index other than 0")
        if not ctx.branch(LEN(self.s) > 0, self.name + "-nonempty"):
            raise py_exc(IndexError, "index out of range")
        return SV(FIRST(self.s), "u:Dom")

    def m_add(self, ctx, r, a, k):
        self.log.append((self.name, "add", a[0]))
        self.s = ADD(self.s, z(a[0]))

    def m_update(self, ctx, r, a, k):
        src = a[0]
        if isinstance(src, Ref) and src.kind == "ext" and isinstance(ctx.st(src)["model"], View):
            other = ctx.st(src)["model"].s
            self.log.append((self.name, "update-from", other))
            if not z3.eq(z3.simplify(self.s), EMPTY):
                raise Undecided("update of a non-empty set by a whole set")
            self.s = other                       # EXT: adding all items of T, in order, to the empty set gives T
            return None
        for v in BI.concrete_iter(ctx, src, must=True):
            self.log.append((self.name, "add", v))
            self.s = ADD(self.s, z(v))

    def m_remove(self, ctx, r, a, k):
        if not ctx.branch(IN(self.s, z(a[0])), self.name + "-has-value"):
            raise py_exc(KeyError, "value not in set")
        self.log.append((self.name, "remove", a[0]))
        self.s = REM(self.s, z(a[0]))

    def m_clear(self, ctx, r, a, k):
        self.log.append((self.name, "clear"))
        self.s = EMPTY

    def listcomp(self, interp, e, fr, it):
        return interp.ctx.alloc("ext", init={"model": View(self.s)})


class Store:
    def __init__(self, ctx, s, log):
        self.o = OSet(s, log, "store")
        self.log = log
        self.opened = ctx.fresh("bool", "sdb.opened")

    def truth(self, ctx, r):
        return True

    def attr_db(self, ctx, r):
        st = self

        class Db:
            def truth(self_, c, rr):
                return True

            def attr_opened(self_, c, rr):
                return st.opened
        return ctx.alloc("ext", init={"model": Db()})

    def m_add(self, ctx, r, a, k):
        v = k.get("val")
        was_in = IN(self.o.s, z(v))
        self.o.m_add(ctx, r, [v], {})
        return SV(z3.Not(was_in), "bool")

    def m_put(self, ctx, r, a, k):
        self.o.m_update(ctx, r, [k.get("vals")], {})
        return True

    def m_pop(self, ctx, r, a, k):
        if not ctx.branch(LEN(self.o.s) > 0, "store-nonempty"):
            self.log.append(("store", "pop-empty"))
            return None
        v = SV(FIRST(self.o.s), "u:Dom")
        self.log.append(("store", "remove", v))
        self.o.s = REM(self.o.s, v.t)
        return v

    def m_rem(self, ctx, r, a, k):
        v = k.get("val")
        if v is None:
            had = ctx.branch(LEN(self.o.s) > 0, "store-nonempty")
            self.o.m_clear(ctx, r, [], {})
            return bool(had)
        if not ctx.branch(IN(self.o.s, z(v)), "store-has-value"):
            self.log.append(("store", "rem-absent", v))
            return False
        self.log.append(("store", "remove", v))
        self.o.s = REM(self.o.s, z(v))
        return True

    def m_cnt(self, ctx, r, a, k):
        return mk(LEN(self.o.s), "int")

    def m_getIter(self, ctx, r, a, k):
        return ctx.alloc("ext", init={"model": View(self.o.s)})

    def m_pin(self, ctx, r, a, k):
        vals = a[1] if len(a) > 1 else k.get("vals")
        if isinstance(vals, Ref) and vals.kind == "ext" and isinstance(ctx.st(vals)["model"], View):
            self.log.append(("store", "pin", ctx.st(vals)["model"].s))
            self.o.s = ctx.st(vals)["model"].s
            return True
        raise Undecided("pin of %r" % (vals,))


def setup(B, sync=True):
    ctx = B.ctx
    axioms(ctx)
    B.prog.usort_models["Dom"] = DomModel()
    B.prog.externals["copy.deepcopy"] = lambda c, a, k: a[0]         # EXT: a deep copy is an equal value
    log = ctx.ghost["log"] = []
    m0 = z3.Const("mem0", OS)
    s0 = m0 if sync else z3.Const("store0", OS)
    mem = OSet(m0, log, "memory")
    how = B.choice("durable", "no-store", "no-key", label="durability")
    store = Store(ctx, s0, log)
    self = B.obj(DUSQ, hint="dusq", _oset=B.ext(mem), _sdb=B.ext(store) if how != "no-store" else None, _key="q" if how != "no-key" else None,
                 _stale=B.bool("stale"))
    durable = z3.And(z3.BoolVal(how == "durable"), z(store.opened))
    return self, dict(mem=mem, store=store, m0=m0, s0=s0, durable=durable, log=log)


def common(B, m):
    B.no_other_exception()
    B.prove("no-cache-durable-mismatch-from-a-synced-state", not B.raised(), top=True)
    B.prove("store-never-touched-when-not-durable", z3.Implies(z3.Not(m["durable"]), z3.BoolVal(not [e for e in m["log"] if e[0] == "store"])), top=True)
    if B.returned():
        B.prove("memory-and-durable-copy-still-equal", z3.Implies(m["durable"], m["mem"].s == m["store"].o.s), top=True)


@contract(DUSQ + ".push", props=["C23"], name=DUSQ + ".push", z3_ms=1200)
def dusq_push(B):
    self, m = setup(B)
    none = B.choice(False, True, label="val-is-None")
    val = None if none else B.uid("Dom", "val")
    r = B.call(self, val, qual=DUSQ + ".push")
    common(B, m)
    if not B.returned():
        return
    if none:
        B.prove("None-is-ignored", r is False and m["mem"].s is m["m0"] and not m["log"], top=True)
    else:
        B.prove("reports-True", r is True, top=True)
        B.prove("set-gains-the-value-at-the-end-iff-absent", m["mem"].s == ADD(m["m0"], val.t), top=True)


@contract(DUSQ + ".pull", props=["C23"], name=DUSQ + ".pull", z3_ms=1200)
def dusq_pull(B):
    self, m = setup(B)
    emptive = B.choice(True, False, label="emptive")
    r = B.call(self, emptive, qual=DUSQ + ".pull")
    empty = LEN(m["m0"]) == 0
    if B.raised(IndexError):
        B.handled = True
        B.prove("IndexError-only-when-empty-and-not-emptive", z3.And(empty, z3.BoolVal(not emptive)), top=True)
        B.prove("memory-unchanged", m["mem"].s == m["m0"], top=True)
        B.no_other_exception()
        return
    common(B, m)
    if not B.returned():
        return
    if r is None:
        B.prove("None-only-when-empty", empty, top=True)
        B.prove("memory-unchanged", m["mem"].s == m["m0"], top=True)
    else:
        B.prove("returns-the-first-inserted-value-FIFO", z3.And(z3.Not(empty), z(r) == FIRST(m["m0"])), top=True)
        B.prove("that-value-leaves-the-set", m["mem"].s == REM(m["m0"], FIRST(m["m0"])), top=True)


@contract(DUSQ + ".remove", props=["C23"], name=DUSQ + ".remove", z3_ms=1200)
def dusq_remove(B):
    self, m = setup(B)
    val = B.uid("Dom", "val")
    r = B.call(self, val, qual=DUSQ + ".remove")
    common(B, m)
    if not B.returned():
        return
    B.prove("True-iff-the-value-was-present", z3.BoolVal(r is True) == IN(m["m0"], val.t), top=True)
    B.prove("result-is-a-bool", r in (True, False), top=True)
    B.prove("present-value-removed-absent-value-changes-nothing", m["mem"].s == z3.If(IN(m["m0"], val.t), REM(m["m0"], val.t), m["m0"]), top=True)


@contract(DUSQ + ".clear", props=["C23"], name=DUSQ + ".clear", z3_ms=1200)
def dusq_clear(B):
    self, m = setup(B)
    r = B.call(self, qual=DUSQ + ".clear")
    common(B, m)
    if not B.returned():
        return
    B.prove("memory-emptied", m["mem"].s == EMPTY, top=True)
    B.prove("reports-whether-anything-was-there", z3.BoolVal(r is True) == (LEN(m["m0"]) > 0), top=True)


@contract(DUSQ + ".update", props=["C23"], name=DUSQ + ".update[<=2 values]", z3_ms=1200)
def dusq_update(B):
    self, m = setup(B)
    n = B.choice(0, 1, 2, label="values")
    vals = [B.uid("Dom", "v%d" % i) for i in range(n)]
    r = B.call(self, B.list(vals), qual=DUSQ + ".update")
    common(B, m)
    if not B.returned():
        return
    want = m["m0"]
    for v in vals:
        want = ADD(want, v.t)
    B.prove("values-added-in-order-each-iff-absent", m["mem"].s == want, top=True)
    B.prove("reports-whether-the-set-grew", z3.BoolVal(r is True) == (LEN(want) > LEN(m["m0"])), top=True)


@contract(DUSQ + ".sync", props=["C23"], name=DUSQ + ".sync[any memory, any durable copy]", z3_ms=1200)
def dusq_sync(B):
    self, m = setup(B, sync=False)
    ctx = B.ctx
    force = B.choice(False, True, label="force")
    stale = z(ctx.st(self)["_stale"])
    r = B.call(self, force, qual=DUSQ + ".sync")
    B.no_other_exception()
    if not B.returned():
        return
    act = z3.And(m["durable"], z3.Or(stale, z3.BoolVal(force)))
    mem, st = m["mem"].s, m["store"].o.s
    B.prove("does-nothing-unless-durable-and-stale-or-forced", z3.Implies(z3.Not(act), z3.And(mem == m["m0"], st == m["s0"], z3.BoolVal(r is None))), top=True)
    B.prove("durable-copy-non-empty: memory becomes exactly the durable copy", z3.Implies(z3.And(act, LEN(m["s0"]) > 0), z3.And(mem == m["s0"], st == m["s0"])), top=True)
    B.prove("durable-copy-empty: the durable copy becomes exactly memory", z3.Implies(z3.And(act, LEN(m["s0"]) == 0), z3.And(st == m["m0"], mem == m["m0"])), top=True)
    B.prove("synced-and-fresh-afterwards", z3.Implies(act, z3.And(mem == st, z3.Not(z(ctx.st(self)["_stale"])))), top=True)
    B.prove("store-never-touched-when-not-durable", z3.Implies(z3.Not(m["durable"]), z3.BoolVal(not [e for e in m["log"] if e[0] == "store"])), top=True)

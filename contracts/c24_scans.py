"""C24 -- the cursor scans of the insertion-ordered store touch the entries of THEIR key only.

hio.base.during:Duror.getIoValFirst / getIoVals / popIoVal / remIoVals / addIoVal / putIoVals are interpreted from /repo/src on a sub-database holding
<= 3 entries with ARBITRARY io-keys and values (bounded in the number of entries, symbolic in their content; every relationship
between the keys is covered, including a key that is a prefix of another or contains the separator).  LMDB is EXT: a transaction
is a context manager handing out a cursor; set_range(k) puts the cursor on ANY entry or past the end (no ordering is assumed: the
clauses are relative to where the cursor starts, which over-approximates LMDB); item / key / iternext / delete as documented by
py-lmdb (delete moves to the next entry; key() past the end is b'').  Duror.suffix / unsuffix are used by their contract
(contracts/c24_suffix.py): SUF(key, ion) and (UKEY(iokey), UION(iokey)), uninterpreted.  Stored io-keys are non-empty.

With s the start position and RUN the maximal run of consecutive entries from s whose UKEY is the requested key:
    getIoValFirst   returns the value at s when UKEY(K[s]) = key, else None; nothing is deleted
    getIoVals       returns exactly the values of RUN, in order; nothing is deleted
    popIoVal        returns and deletes the entry at s when UKEY(K[s]) = key; else returns None and deletes nothing
    remIoVals       deletes exactly RUN -- NO ENTRY OF ANOTHER KEY IS EVER DELETED -- and returns whether RUN is non-empty
    addIoVal        writes exactly one entry: the value at SUF(key, UION(last entry of RUN) + 1), or at SUF(key, 0) for an empty RUN
    putIoVals       writes the <= 2 given values in order at consecutive ordinals from there; both delete nothing
    pinIoVals       first remIoVals (its own contract) for the same sub-database, key and separator, then the values at ordinals 0, 1, ..
    remIoSetVal     deletes the FIRST entry of RUN whose value is the given one, and nothing else; True iff it deleted
    addIoSetVal / putIoSetVals / pinIoSetVals   as the list versions, but only values RUN does not hold yet, each once, in order,
                    never overwriting (pin: after remIoVals, the values without repeats); ordered_set.OrderedSet is modelled as a
                    list of pairwise different values (membership by symbolic equality)
so an operation on one key never changes what another key returns (the statement's second sentence), for any keys.
"""
import z3
from .common import *
from pyvc import builtins as BI
from pyvc.engine import ufunc
from .http_responder import Stub

DUROR = "hio.base.during:Duror"
S, I = z3.StringSort(), z3.IntSort()
SUF = ufunc("suffix", S, I, S)
UKEY = ufunc("unsuffix_key", S, S)
UION = ufunc("unsuffix_ion", S, I)


class Store:
    def __init__(self, ctx, n):
        self.K = [ctx.fresh("bytes", "iokey%d" % i) for i in range(n)]
        self.V = [ctx.fresh("bytes", "val%d" % i) for i in range(n)]
        for k in self.K:
            ctx.assume(z3.Length(k.t) > 0)
        self.deleted = []
        self.puts = []
        self.start = None
        self.set_range_arg = None


class Cursor:
    def __init__(self, store):
        self.s = store
        self.p = None

    def m_set_range(self, ctx, r, a, k):
        self.s.set_range_arg = a[0]
        self.p = ctx.fork(len(self.s.K) + 1, "cursor-lands-on")
        self.s.start = self.p
        return self.p < len(self.s.K)

    def _live(self):
        return self.p is not None and self.p < len(self.s.K)

    def m_key(self, ctx, r, a, k):
        return self.s.K[self.p] if self._live() else b""

    def m_item(self, ctx, r, a, k):
        return (self.s.K[self.p], self.s.V[self.p]) if self._live() else (b"", b"")

    def m_iternext(self, ctx, r, a, k):
        return ctx.alloc("ext", init={"model": IterNext(self, conc(k.get("values", True)) is False)})

    def m_put(self, ctx, r, a, k):
        self.s.puts.append((a[0], a[1], dict(k)))
        return ctx.fresh("bool", "put-result")

    def m_delete(self, ctx, r, a, k):
        if not self._live():
            return False
        self.s.deleted.append(self.p)
        self.p += 1            # (ghost indexing keeps the original positions: the cursor is on the next entry)
        return True


class IterNext:
    """cursor.iternext(): yields the entries from the cursor's position on, the cursor sitting ON the entry being yielded (so a
    delete() inside the loop body deletes that entry)"""

    def __init__(self, cursor, keys_only):
        self.c, self.keys_only = cursor, keys_only

    def iterate(self, ctx, r):
        c = self.c
        i = c.p if c._live() else len(c.s.K)
        while i < len(c.s.K):
            c.p = i
            yield c.s.K[i] if self.keys_only else (c.s.K[i], c.s.V[i])
            i += 1
        c.p = len(c.s.K)


class OSet:
    """ordered_set.OrderedSet over byte values compared by (symbolic) equality: membership forks, so on every path the set holds
    pairwise different values in insertion order"""

    def __init__(self, ctx=None, items=()):
        self.items = []
        for x in items:
            self._add(ctx, x)

    def _has(self, ctx, item):
        t = z(BI.as_text(ctx, item))
        return z3.Or(*[z(BI.as_text(ctx, x)) == t for x in self.items]) if self.items else z3.BoolVal(False)

    def _add(self, ctx, item):
        if not self.items or not ctx.branch(self._has(ctx, item), "oset-already-holds"):
            self.items.append(item)

    def contains(self, ctx, r, item):
        return self._has(ctx, item)

    def truth(self, ctx, r):
        return bool(self.items)

    def length(self, ctx, r):
        return len(self.items)

    def m_add(self, ctx, r, a, k):
        self._add(ctx, a[0])

    def iterate(self, ctx, r):
        return iter(list(self.items))

    def binop(self, ctx, op, a, b):
        import ast
        ma, mb = ctx.st(a)["model"], ctx.st(b)["model"]
        if isinstance(op, ast.Sub) and isinstance(ma, OSet) and isinstance(mb, OSet):
            out = OSet()
            out.items = [x for x in ma.items if not (mb.items and ctx.branch(mb._has(ctx, x), "oset-difference-drops"))]
            return ctx.alloc("ext", init={"model": out})
        raise Undecided("ordered set operation")


class Txn:
    def __init__(self, store, log):
        self.s, self.log = store, log

    def m___enter__(self, ctx, r, a, k):
        self.log.append("enter")
        return r

    def m___exit__(self, ctx, r, a, k):
        self.log.append("exit")
        return None

    def m_cursor(self, ctx, r, a, k):
        return ctx.alloc("ext", init={"model": Cursor(self.s)})

    def m_put(self, ctx, r, a, k):
        self.s.puts.append((a[0], a[1], dict(k)))
        return ctx.fresh("bool", "put-result")


class Env:
    def __init__(self, store, log):
        self.s, self.log = store, log
        self.begun = []

    def m_begin(self, ctx, r, a, k):
        self.begun.append(dict(k))
        return ctx.alloc("ext", init={"model": Txn(self.s, self.log)})


def scan_contract(B, meth):
    ctx = B.ctx
    n = B.choice(0, 1, 2, 3, label="entries")
    store = Store(ctx, n)
    log = []
    env = Env(store, log)
    key = B.bytes("key")
    sep = B.bytes("sep")
    sdb = B.uid("Sdb", "sdb")
    B.prog.modular[DUROR + ".suffix"] = Stub(lambda c, a, k: SV(SUF(z(BI.as_text(c, a[0])), z(a[1] if len(a) > 1 else k.get("ion"), "int")), "bytes"))
    B.prog.modular[DUROR + ".unsuffix"] = Stub(lambda c, a, k: (SV(UKEY(z(BI.as_text(c, a[0]))), "bytes"), SV(UION(z(BI.as_text(c, a[0]))), "int")))
    B.prog.externals["builtins.bytes"] = lambda c, a, k: BI.as_text(c, a[0]) if a else b""
    B.prog.externals["ordered_set.OrderedSet"] = lambda c, a, k: c.alloc("ext", init={"model": OSet(c, BI.concrete_iter(c, a[0], must=True) if a else ())})
    B.prog.externals["ordered_set.ordered_set.OrderedSet"] = B.prog.externals["ordered_set.OrderedSet"]
    self = B.obj(DUROR, hint="duror", env=B.ext(env), MaxSuffix=(1 << 128) - 1)
    kw = dict(sdb=sdb, key=key, sep=sep)
    newvals = []
    if meth in ("addIoVal", "addIoSetVal"):
        newvals = [B.bytes("newval")]
        kw["val"] = newvals[0]
    elif meth in ("putIoVals", "pinIoVals", "putIoSetVals", "pinIoSetVals"):
        newvals = [B.bytes("newval%d" % i) for i in range(B.choice(0, 1, 2, label="values-to-put"))]
        kw["vals"] = B.list(list(newvals))
    elif meth == "remIoSetVal":
        newvals = [B.bytes("val")]
        kw["val"] = newvals[0]
    rems = []
    if meth in ("pinIoVals", "pinIoSetVals"):
        # (remIoVals has its own contract above: here only that it is called first, once, for the same sub-database, key and separator)
        B.virtual(self, "remIoVals", lambda c, a, k: rems.append((dict(k), len(store.puts), len(env.begun))) or c.fresh("bool", "removed"))
    r = B.call(self, qual=DUROR + "." + meth, **kw)
    B.no_other_exception()
    if not B.returned():
        return
    def written_is(dup, first):
        """the entries written are exactly the given values that are not repeats (dup[j] says whether value j is one), in order,
        at consecutive ordinals from `first`: a case split over which values are repeats (the code forked on the same facts)"""
        import itertools
        cases = []
        for combo in itertools.product([False, True], repeat=len(newvals)):
            want = [v.t for v, c_ in zip(newvals, combo) if not c_]
            if len(want) != len(store.puts):
                continue
            cases.append(z3.And(*[d_ == z3.BoolVal(c_) for d_, c_ in zip(dup, combo)],
                                *[z3.And(z(BI.as_text(ctx, pk)) == SUF(key.t, first + jj), z(BI.as_text(ctx, pv)) == want[jj]) for jj, (pk, pv, _) in enumerate(store.puts)]))
        return z3.Or(z3.BoolVal(False), *cases)

    def repeats(held):
        """value j repeats iff `held` (pairs (condition, value)) holds it or an earlier given value equals it"""
        return [z3.Or(z3.BoolVal(False), *[z3.And(c_, w == v.t) for c_, w in held], *[w.t == v.t for w in newvals[:jj]]) for jj, v in enumerate(newvals)]
    if meth in ("pinIoVals", "pinIoSetVals"):
        B.prove("erases-the-keys-entries-first: remIoVals-once-for-the-same-sub-database-key-and-separator-before-any-write",
                len(rems) == 1 and rems[0][0].get("sdb") is sdb and rems[0][0].get("key") is key and rems[0][0].get("sep") is sep and rems[0][1] == 0 and rems[0][2] == 0, top=True)
        B.prove("then-writes-the-values-(set: without repeats)-in-order-at-ordinals-0-1-..",
                written_is(repeats([]) if meth == "pinIoSetVals" else [z3.BoolVal(False)] * len(newvals), z3.IntVal(0)), top=True)
        B.prove("one-write-transaction-on-the-given-sub-database", len(env.begun) == 1 and env.begun[0].get("db") is sdb and conc(env.begun[0].get("write")) is True and log == ["enter", "exit"], top=True)
        return
    B.prove("one-transaction-on-the-given-sub-database-entered-and-left", len(env.begun) == 1 and env.begun[0].get("db") is sdb and log == ["enter", "exit"], top=True)
    B.prove("write-transaction-iff-the-operation-changes-the-store", bool(env.begun and conc(env.begun[0].get("write")) is (meth in ("popIoVal", "remIoVals", "addIoVal", "putIoVals", "remIoSetVal", "addIoSetVal", "putIoSetVals"))), top=True)
    if meth not in ("addIoVal", "putIoVals", "addIoSetVal", "putIoSetVals"):
        B.prove("nothing-written", not store.puts, top=True)
    B.prove("scan-starts-at-the-zeroth-ordinal-of-the-key", z(BI.as_text(ctx, store.set_range_arg)) == SUF(key.t, z3.IntVal(0)) if store.set_range_arg is not None else False, top=True)
    s = store.start if store.start is not None else n
    mine = [UKEY(k.t) == key.t for k in store.K]
    # RUN: positions s.. while the entry belongs to the key
    in_run = []
    acc = z3.BoolVal(True)
    for i in range(s, n):
        acc = z3.And(acc, mine[i])
        in_run.append((i, acc))
    if meth in ("getIoValFirst", "getIoVals"):
        B.prove("nothing-deleted", not store.deleted, top=True)
    if meth == "getIoValFirst":
        if s < n:
            B.prove("first-value-iff-the-entry-at-the-cursor-belongs-to-the-key",
                    z3.If(mine[s], z3.BoolVal(r is not None) if r is None else z(r) == store.V[s].t, z3.BoolVal(r is None)), top=True)
        else:
            B.prove("none-past-the-end", r is None, top=True)
    elif meth == "getIoVals":
        ok = isinstance(r, Ref) and r.kind == "list"
        B.prove("returns-a-list", ok, top=True)
        if ok:
            vals = ctx.st(r)["v"]
            m = len(vals)
            B.prove("values-are-exactly-the-run-of-the-keys-entries-from-the-cursor-in-order",
                    z3.And(z3.BoolVal(m <= n - s), *[z(vals[j]) == store.V[s + j].t for j in range(min(m, n - s))],
                           *[acc for i, acc in in_run[:m]], *([z3.Not(in_run[m][1])] if m < len(in_run) else [])), top=True)
    elif meth == "popIoVal":
        if s < n:
            B.prove("pops-the-entry-at-the-cursor-iff-it-belongs-to-the-key",
                    z3.If(mine[s], z3.And(z3.BoolVal(store.deleted == [s] and r is not None), z(r) == store.V[s].t if r is not None else False),
                          z3.BoolVal(r is None and not store.deleted)), top=True)
        else:
            B.prove("none-and-nothing-deleted-past-the-end", r is None and not store.deleted, top=True)
    elif meth == "remIoVals":
        d = store.deleted
        B.prove("deleted-entries-are-consecutive-from-the-cursor", d == list(range(s, s + len(d))), top=True)
        B.prove("NO-ENTRY-OF-ANOTHER-KEY-IS-DELETED", z3.And(*[mine[i] for i in d]) if d else True, top=True)
        B.prove("the-whole-run-is-deleted: the-scan-stops-only-at-another-keys-entry-or-the-end",
                (z3.Not(mine[s + len(d)]) if s + len(d) < n else True), top=True)
        B.prove("returns-whether-anything-was-deleted", conc(r) is bool(d) if isinstance(conc(r), bool) else False, top=True)
    elif meth in ("addIoVal", "putIoVals"):
        # next ordinal: one after the ordinal of the LAST entry of the run of the key's own entries from the cursor, 0 for an empty run
        nxt = z3.IntVal(0)
        for i, acc_i in in_run:
            nxt = z3.If(acc_i, UION(store.K[i].t) + 1, nxt)
        B.prove("nothing-deleted", not store.deleted, top=True)
        B.prove("one-entry-written-per-value", len(store.puts) == len(newvals), top=True)
        for j, (pk, pv, pkw) in enumerate(store.puts[:len(newvals)]):
            B.prove("written-at-the-keys-own-next-ordinal-with-the-given-value-in-order#%d" % j,
                    z3.And(z(BI.as_text(ctx, pk)) == SUF(key.t, nxt + j), z(BI.as_text(ctx, pv)) == newvals[j].t), top=True)
    elif meth in ("addIoSetVal", "putIoSetVals"):
        nxt = z3.IntVal(0)
        for i, acc_i in in_run:
            nxt = z3.If(acc_i, UION(store.K[i].t) + 1, nxt)
        B.prove("nothing-deleted", not store.deleted, top=True)
        B.prove("written: exactly-the-values-the-keys-own-run-does-not-hold-yet-without-repeats-in-order-from-the-next-ordinal",
                written_is(repeats([(acc_i, store.V[i].t) for i, acc_i in in_run]), nxt), top=True)
        B.prove("never-overwrites", all(conc(kw_.get("overwrite")) is False for _, _, kw_ in store.puts), top=True)
        if meth == "addIoSetVal" and not store.puts:
            B.prove("false-when-the-value-is-already-there", conc(r) is False, top=True)
    elif meth == "remIoSetVal":
        d = store.deleted
        val = newvals[0].t
        B.prove("nothing-written-and-at-most-one-entry-deleted", not store.puts and len(d) <= 1, top=True)
        # first position of the run holding the value
        hit = [z3.And(acc_i, store.V[i].t == val) for i, acc_i in in_run]
        if d:
            j = d[0] - s
            B.prove("the-deleted-entry-is-the-FIRST-entry-of-the-keys-own-run-holding-the-value",
                    z3.And(hit[j], *[z3.Not(h) for h in hit[:j]]) if 0 <= j < len(hit) else False, top=True)
            B.prove("returns-true-when-it-deleted", conc(r) is True, top=True)
        else:
            B.prove("nothing-deleted-only-when-the-keys-run-does-not-hold-the-value", z3.Not(z3.Or(*hit)) if hit else True, top=True)
            B.prove("returns-false-when-nothing-was-deleted", conc(r) is False, top=True)
    B.prove("canary:never-finds-an-entry", s >= n)     # must FAIL on some path (vacuity guard); last


for _m in ("getIoValFirst", "getIoVals", "popIoVal", "remIoVals", "addIoVal", "putIoVals", "pinIoVals", "remIoSetVal", "addIoSetVal", "putIoSetVals", "pinIoSetVals"):
    def _mk(m=_m):
        @contract(DUROR + "." + m, props=["C24", "C23"], name=DUROR + "." + m + "[bounded <=3 entries; symbolic io-keys, values and key]", z3_ms=3000)
        def _c(B):
            scan_contract(B, m)
    _mk()

"""C24 -- the cursor scans of the insertion-ordered store touch the entries of THEIR key only.

hio.base.during:Duror.getIoValFirst / getIoVals / popIoVal / remIoVals / addIoVal / putIoVals are interpreted from /repo/src on a sub-database holding
<= 3 entries with ARBITRARY io-keys and values (bounded in the number of entries, symbolic in their content; every relationship
between the keys is covered, including a key that is a prefix of another or contains the separator).  LMDB is EXT: a transaction
is a context manager handing out a cursor; set_range(k) puts the cursor on ANY entry or past the end (no ordering is assumed: the
clauses are relative to where the cursor starts, which over-approximates LMDB); item / key / iternext / delete as documented by
py-lmdb (delete moves to the next entry; key() past the end is b'').  Duror.suffix / unsuffix are used by their contract
(contracts/c24_suffix.py): SUF(key, ion) and (UKEY(iokey), UION(iokey)), uninterpreted.  Stored io-keys are non-empty.

With s the start position and RUN the maximal run of consecutive entries from s whose UKEY is the requested key:
    getIoValFirst   returns the value at s when UKEY(K[s]) = key, else None; nothing is deleted
    getIoVals       returns exactly the values of RUN, in order; nothing is deleted
    popIoVal        returns and deletes the entry at s when UKEY(K[s]) = key; else returns None and deletes nothing
    remIoVals       deletes exactly RUN -- NO ENTRY OF ANOTHER KEY IS EVER DELETED -- and returns whether RUN is non-empty
    addIoVal        writes exactly one entry: the value at SUF(key, UION(last entry of RUN) + 1), or at SUF(key, 0) for an empty RUN
    putIoVals       writes the <= 2 given values in order at consecutive ordinals from there; both delete nothing
so an operation on one key never changes what another key returns (the statement's second sentence), for any keys.
"""
import z3
from .common import *
from pyvc import builtins as BI
from pyvc.engine import ufunc
from .http_responder import Stub

DUROR = "hio.base.during:Duror"
S, I = z3.StringSort(), z3.IntSort()
SUF = ufunc("suffix", S, I, S)
UKEY = ufunc("unsuffix_key", S, S)
UION = ufunc("unsuffix_ion", S, I)


class Store:
    def __init__(self, ctx, n):
        self.K = [ctx.fresh("bytes", "iokey%d" % i) for i in range(n)]
        self.V = [ctx.fresh("bytes", "val%d" % i) for i in range(n)]
        for k in self.K:
            ctx.assume(z3.Length(k.t) > 0)
        self.deleted = []
        self.puts = []
        self.start = None
        self.set_range_arg = None


class Cursor:
    def __init__(self, store):
        self.s = store
        self.p = None

    def m_set_range(self, ctx, r, a, k):
        self.s.set_range_arg = a[0]
        self.p = ctx.fork(len(self.s.K) + 1, "cursor-lands-on")
        self.s.start = self.p
        return self.p < len(self.s.K)

    def _live(self):
        return self.p is not None and self.p < len(self.s.K)

    def m_key(self, ctx, r, a, k):
        return self.s.K[self.p] if self._live() else b""

    def m_item(self, ctx, r, a, k):
        return (self.s.K[self.p], self.s.V[self.p]) if self._live() else (b"", b"")

    def m_iternext(self, ctx, r, a, k):
        keys_only = conc(k.get("values", True)) is False
        items = [(self.s.K[i] if keys_only else (self.s.K[i], self.s.V[i])) for i in range(self.p, len(self.s.K))] if self._live() else []
        return ctx.alloc("list", init={"v": items})

    def m_put(self, ctx, r, a, k):
        self.s.puts.append((a[0], a[1], dict(k)))
        return ctx.fresh("bool", "put-result")

    def m_delete(self, ctx, r, a, k):
        if not self._live():
            return False
        self.s.deleted.append(self.p)
        self.p += 1            # (ghost indexing keeps the original positions: the cursor is on the next entry)
        return True


class Txn:
    def __init__(self, store, log):
        self.s, self.log = store, log

    def m___enter__(self, ctx, r, a, k):
        self.log.append("enter")
        return r

    def m___exit__(self, ctx, r, a, k):
        self.log.append("exit")
        return None

    def m_cursor(self, ctx, r, a, k):
        return ctx.alloc("ext", init={"model": Cursor(self.s)})


class Env:
    def __init__(self, store, log):
        self.s, self.log = store, log
        self.begun = []

    def m_begin(self, ctx, r, a, k):
        self.begun.append(dict(k))
        return ctx.alloc("ext", init={"model": Txn(self.s, self.log)})


def scan_contract(B, meth):
    ctx = B.ctx
    n = B.choice(0, 1, 2, 3, label="entries")
    store = Store(ctx, n)
    log = []
    env = Env(store, log)
    key = B.bytes("key")
    sep = B.bytes("sep")
    sdb = B.uid("Sdb", "sdb")
    B.prog.modular[DUROR + ".suffix"] = Stub(lambda c, a, k: SV(SUF(z(BI.as_text(c, a[0])), z(a[1] if len(a) > 1 else k.get("ion"), "int")), "bytes"))
    B.prog.modular[DUROR + ".unsuffix"] = Stub(lambda c, a, k: (SV(UKEY(z(BI.as_text(c, a[0]))), "bytes"), SV(UION(z(BI.as_text(c, a[0]))), "int")))
    B.prog.externals["builtins.bytes"] = lambda c, a, k: BI.as_text(c, a[0]) if a else b""
    self = B.obj(DUROR, hint="duror", env=B.ext(env), MaxSuffix=(1 << 128) - 1)
    kw = dict(sdb=sdb, key=key, sep=sep)
    newvals = []
    if meth == "addIoVal":
        newvals = [B.bytes("newval")]
        kw["val"] = newvals[0]
    elif meth == "putIoVals":
        newvals = [B.bytes("newval%d" % i) for i in range(B.choice(0, 1, 2, label="values-to-put"))]
        kw["vals"] = B.list(list(newvals))
    r = B.call(self, qual=DUROR + "." + meth, **kw)
    B.no_other_exception()
    if not B.returned():
        return
    B.prove("one-transaction-on-the-given-sub-database-entered-and-left", len(env.begun) == 1 and env.begun[0].get("db") is sdb and log == ["enter", "exit"], top=True)
    B.prove("write-transaction-iff-the-operation-changes-the-store", bool(env.begun and conc(env.begun[0].get("write")) is (meth in ("popIoVal", "remIoVals", "addIoVal", "putIoVals"))), top=True)
    if meth not in ("addIoVal", "putIoVals"):
        B.prove("nothing-written", not store.puts, top=True)
    B.prove("scan-starts-at-the-zeroth-ordinal-of-the-key", z(BI.as_text(ctx, store.set_range_arg)) == SUF(key.t, z3.IntVal(0)) if store.set_range_arg is not None else False, top=True)
    s = store.start if store.start is not None else n
    mine = [UKEY(k.t) == key.t for k in store.K]
    # RUN: positions s.. while the entry belongs to the key
    in_run = []
    acc = z3.BoolVal(True)
    for i in range(s, n):
        acc = z3.And(acc, mine[i])
        in_run.append((i, acc))
    if meth in ("getIoValFirst", "getIoVals"):
        B.prove("nothing-deleted", not store.deleted, top=True)
    if meth == "getIoValFirst":
        if s < n:
            B.prove("first-value-iff-the-entry-at-the-cursor-belongs-to-the-key",
                    z3.If(mine[s], z3.BoolVal(r is not None) if r is None else z(r) == store.V[s].t, z3.BoolVal(r is None)), top=True)
        else:
            B.prove("none-past-the-end", r is None, top=True)
    elif meth == "getIoVals":
        ok = isinstance(r, Ref) and r.kind == "list"
        B.prove("returns-a-list", ok, top=True)
        if ok:
            vals = ctx.st(r)["v"]
            m = len(vals)
            B.prove("values-are-exactly-the-run-of-the-keys-entries-from-the-cursor-in-order",
                    z3.And(z3.BoolVal(m <= n - s), *[z(vals[j]) == store.V[s + j].t for j in range(min(m, n - s))],
                           *[acc for i, acc in in_run[:m]], *([z3.Not(in_run[m][1])] if m < len(in_run) else [])), top=True)
    elif meth == "popIoVal":
        if s < n:
            B.prove("pops-the-entry-at-the-cursor-iff-it-belongs-to-the-key",
                    z3.If(mine[s], z3.And(z3.BoolVal(store.deleted == [s] and r is not None), z(r) == store.V[s].t if r is not None else False),
                          z3.BoolVal(r is None and not store.deleted)), top=True)
        else:
            B.prove("none-and-nothing-deleted-past-the-end", r is None and not store.deleted, top=True)
    elif meth == "remIoVals":
        d = store.deleted
        B.prove("deleted-entries-are-consecutive-from-the-cursor", d == list(range(s, s + len(d))), top=True)
        B.prove("NO-ENTRY-OF-ANOTHER-KEY-IS-DELETED", z3.And(*[mine[i] for i in d]) if d else True, top=True)
        B.prove("the-whole-run-is-deleted: the-scan-stops-only-at-another-keys-entry-or-the-end",
                (z3.Not(mine[s + len(d)]) if s + len(d) < n else True), top=True)
        B.prove("returns-whether-anything-was-deleted", conc(r) is bool(d) if isinstance(conc(r), bool) else False, top=True)
    elif meth in ("addIoVal", "putIoVals"):
        # next ordinal: one after the ordinal of the LAST entry of the run of the key's own entries from the cursor, 0 for an empty run
        nxt = z3.IntVal(0)
        for i, acc_i in in_run:
            nxt = z3.If(acc_i, UION(store.K[i].t) + 1, nxt)
        B.prove("nothing-deleted", not store.deleted, top=True)
        B.prove("one-entry-written-per-value", len(store.puts) == len(newvals), top=True)
        for j, (pk, pv, pkw) in enumerate(store.puts[:len(newvals)]):
            B.prove("written-at-the-keys-own-next-ordinal-with-the-given-value-in-order#%d" % j,
                    z3.And(z(BI.as_text(ctx, pk)) == SUF(key.t, nxt + j), z(BI.as_text(ctx, pv)) == newvals[j].t), top=True)
    B.prove("canary:never-finds-an-entry", s >= n)     # must FAIL on some path (vacuity guard); last


for _m in ("getIoValFirst", "getIoVals", "popIoVal", "remIoVals", "addIoVal", "putIoVals"):
    def _mk(m=_m):
        @contract(DUROR + "." + m, props=["C24"], name=DUROR + "." + m + "[bounded <=3 entries; symbolic io-keys, values and key]", z3_ms=3000)
        def _c(B):
            scan_contract(B, m)
    _mk()

"""HTTP incremental parsers: step contracts for parseLine (C13, C15, C17), chunk-size language (C17), and the
exception contracts of the parse layer (C16).

A *step* is one activation of the generator: from its (re-)entry point until it suspends at a yield, returns or raises.
L-FRAG (lemmas/LFrag.lean) lifts two per-step facts to any fragmentation:
   idle-stutter      a step that ends in `yield None` changed neither the buffer nor the parser state
   prefix-stability  a step that makes progress on buffer b makes the SAME progress on b ++ e and leaves rest ++ e
"""
import z3
from .common import *
from pyvc.engine import Suspend
from pyvc import builtins as BI

HTTPING = "hio.core.http.httping"
CRLF, LF, CR = b"\r\n", b"\n", b"\r"
EOLSETS = {"crlf": (CRLF,), "crlf_lf": (CRLF, LF), "crlf_lf_cr": (CRLF, LF, CR)}


def suspend_handler(interp, fr, node, value):
    raise Suspend(value, node)


def run_step(B, raw, eols, label):
    """one activation of parseLine from its entry on buffer `raw`; returns (kind, line, rest)"""
    buf = B.buf(raw, hint="raw_" + label)
    B.outcome = None
    B.call(buf, eols=eols, qual=HTTPING + ":parseLine", yield_handler=suspend_handler)
    rest = B.ctx.st(buf)["v"]
    o = B.outcome
    if o[0] == "yield":
        return ("wait" if o[1] is None else "line"), o[1], rest
    if o[0] == "raise":
        return "raise:" + getattr(o[1].cls, "name", getattr(o[1].cls, "__name__", "?")), None, rest
    return "return", None, rest


def earliest(b, eols):
    """spec: position K of the earliest terminator occurrence in b and the length N of the terminator there (longest match)"""
    bz = z(b)
    idx = [(z3.IndexOf(bz, z3.StringVal(BI.b2s(e)), 0), len(e)) for e in eols]
    found = z3.Or(*[i >= 0 for i, _ in idx])
    K = None
    for i, _ in idx:
        cand = z3.If(i >= 0, i, z3.Length(bz) + 1)
        K = cand if K is None else z3.If(cand < K, cand, K)
    N = z3.IntVal(0)
    for i, n in sorted(idx, key=lambda t: t[1]):       # longer terminators override shorter ones at the same position
        N = z3.If(i == K, z3.IntVal(n), N)
    return found, K, N


def parse_line_step(B, which):
    eols = EOLSETS[which]
    b = B.bytes("b")
    kind, line, rest = run_step(B, b, eols, "a")
    ctx = B.ctx
    bz = z(b)
    found, K, N = earliest(b, eols)
    MAX = 65536
    props13 = ["C13", "C17"] if which == "crlf" else (["C13"] if which == "crlf_lf" else ["C15"])
    if kind == "wait":
        # idle-stutter
        B.prove("wait/buffer-untouched", z(rest) == bz, top=True, props=props13 + ["C16"])
        B.prove("wait/only-when-no-terminator", z3.Not(found), top=True, props=props13)
    elif kind == "line":
        B.prove("line/only-when-a-terminator-is-present", found, top=True, props=props13)
        # TOP (whole-stream semantics): the line ends at the EARLIEST terminator in the buffer
        B.prove("line/is-up-to-earliest-terminator", z3.And(z(line) == z3.SubString(bz, 0, K), z(rest) == z3.SubString(bz, K + N, z3.Length(bz) - K - N)),
                top=True, props=props13)
        B.prove("line/consumed-exactly-line-plus-terminator", z3.Length(z(line)) + z3.Length(z(rest)) < z3.Length(bz), props=props13)
        B.prove("line/within-limit", z3.Length(z(line)) <= MAX, props=["C16"] + props13)
    elif kind.startswith("raise:"):
        B.handled = True
        B.prove("raise/only-LineTooLong", kind == "raise:LineTooLong", top=True, props=["C16"] + props13)
        B.prove("raise/only-beyond-limit", z3.Length(bz) > MAX, top=True, props=["C16"] + props13)
    else:
        B.prove("never-returns", False, props=props13)
    B.no_other_exception()


def parse_line_prefix_stable(B, which):
    """relational: the same step on b and on b ++ e"""
    eols = EOLSETS[which]
    b, e = B.bytes("b"), B.bytes("e")
    be = E.binop(B.ctx, __import__("ast").Add(), b, e)
    k1, l1, r1 = run_step(B, b, eols, "a")
    k2, l2, r2 = run_step(B, be, eols, "b")
    props = ["C13", "C17"] if which == "crlf" else (["C13"] if which == "crlf_lf" else ["C15"])
    if k1 == "line":
        B.prove("progress-is-stable-under-more-bytes", k2 == "line" and True, top=True, props=props)
        if k2 == "line":
            B.prove("same-line", z(l2) == z(l1), top=True, props=props)
            B.prove("rest-is-rest-plus-new-bytes", z(r2) == z3.Concat(z(r1), z(e)), top=True, props=props)
    elif k1.startswith("raise:"):
        B.prove("error-is-stable-under-more-bytes", k2 == k1, top=True, props=props + ["C16"])
    else:
        B.prove("wait-case-needs-no-claim", True, props=props)
    B.handled = True
    B.no_other_exception()


for _w in EOLSETS:
    def _mk(w=_w):
        @contract(HTTPING + ":parseLine", props={"crlf": ["C13", "C17", "C16"], "crlf_lf": ["C13", "C16"], "crlf_lf_cr": ["C15", "C16"]}[w], name=HTTPING + ":parseLine[step, eols=%s]" % w, z3_ms=1500)
        def _a(B):
            parse_line_step(B, w)

        @contract(HTTPING + ":parseLine", props={"crlf": ["C13", "C17"], "crlf_lf": ["C13"], "crlf_lf_cr": ["C15"]}[w], name=HTTPING + ":parseLine[prefix-stability, eols=%s]" % w, z3_ms=1500)
        def _b(B):
            parse_line_prefix_stable(B, w)
    _mk()


# ------------------------------------------------------------------ resumption: state carried across a wait must not matter

def parse_line_resume(B, which):
    """additivity of one wait: running on b, waiting, receiving e, resuming  ==  one fresh activation on b ++ e.
    (Catches parser state that survives a `yield None`, e.g. a remembered search offset.)"""
    eols = EOLSETS[which]
    b, e = B.bytes("b"), B.bytes("e")
    be = E.binop(B.ctx, __import__("ast").Add(), b, e)
    buf = B.buf(b, hint="raw_two_step")
    waits = {"n": 0}

    def handler(interp, fr, node, value):
        if value is None and waits["n"] == 0:
            waits["n"] += 1
            # environment step while suspended: the transport appends e to the shared buffer
            st = interp.ctx.st(buf)
            st["v"] = E.binop(interp.ctx, __import__("ast").Add(), st["v"], e)
            return None                      # resumed (next()/send(None))
        raise Suspend(value, node)
    B.outcome = None
    B.call(buf, eols=eols, qual=HTTPING + ":parseLine", yield_handler=handler)
    o2 = B.outcome
    rest2 = B.ctx.st(buf)["v"]
    if waits["n"] == 0:
        B.handled = True
        return                               # first activation already made progress: covered by the step contract
    k1, l1, r1 = run_step(B, be, eols, "fresh")
    props = {"crlf": ["C13", "C17", "C15"], "crlf_lf": ["C13"], "crlf_lf_cr": ["C15"]}[which]
    if k1 == "line":
        B.prove("resumed-parser-finds-the-same-line", o2[0] == "yield" and o2[1] is not None, top=True, props=props)
        if o2[0] == "yield" and o2[1] is not None:
            B.prove("same-line-as-a-fresh-parser", z(o2[1]) == z(l1), top=True, props=props)
            B.prove("same-rest-as-a-fresh-parser", z(rest2) == z(r1), top=True, props=props)
    elif k1 == "wait":
        B.prove("resumed-parser-also-waits", o2[0] == "yield" and o2[1] is None, top=True, props=props)
        B.prove("buffer-untouched", z(rest2) == z(be), top=True, props=props)
    else:
        B.prove("same-error-as-a-fresh-parser", o2[0] == "raise", top=True, props=props + ["C16"])
    B.handled = True
    B.no_other_exception()


for _w in EOLSETS:
    def _mk2(w=_w):
        @contract(HTTPING + ":parseLine", props={"crlf": ["C13", "C17", "C15"], "crlf_lf": ["C13"], "crlf_lf_cr": ["C15"]}[w],
                  name=HTTPING + ":parseLine[resume after wait, eols=%s]" % w, z3_ms=1500)
        def _c(B):
            parse_line_resume(B, w)
    _mk2()

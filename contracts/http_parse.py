"""HTTP incremental parsers: step contracts for parseLine (C13, C15, C17), chunk-size language (C17), and the
exception contracts of the parse layer (C16).

A *step* is one activation of the generator: from its (re-)entry point until it suspends at a yield, returns or raises.
L-FRAG (lemmas/LFrag.lean) lifts two per-step facts to any fragmentation:
   idle-stutter      a step that ends in `yield None` changed neither the buffer nor the parser state
   prefix-stability  a step that makes progress on buffer b makes the SAME progress on b ++ e and leaves rest ++ e
"""
import z3
from .common import *
from pyvc.engine import Suspend
from pyvc import builtins as BI

HTTPING = "hio.core.http.httping"
CRLF, LF, CR = b"\r\n", b"\n", b"\r"
EOLSETS = {"crlf": (CRLF,), "crlf_lf": (CRLF, LF), "crlf_lf_cr": (CRLF, LF, CR)}


def suspend_handler(interp, fr, node, value):
    raise Suspend(value, node)


def run_step(B, raw, eols, label):
    """one activation of parseLine from its entry on buffer `raw`; returns (kind, line, rest)"""
    buf = B.buf(raw, hint="raw_" + label)
    B.outcome = None
    B.call(buf, eols=eols, qual=HTTPING + ":parseLine", yield_handler=suspend_handler)
    rest = B.ctx.st(buf)["v"]
    o = B.outcome
    if o[0] == "yield":
        return ("wait" if o[1] is None else "line"), o[1], rest
    if o[0] == "raise":
        return "raise:" + getattr(o[1].cls, "name", getattr(o[1].cls, "__name__", "?")), None, rest
    return "return", None, rest


def earliest(b, eols):
    """spec: position K of the earliest terminator occurrence in b and the length N of the terminator there (longest match)"""
    bz = z(b)
    idx = [(z3.IndexOf(bz, z3.StringVal(BI.b2s(e)), 0), len(e)) for e in eols]
    found = z3.Or(*[i >= 0 for i, _ in idx])
    K = None
    for i, _ in idx:
        cand = z3.If(i >= 0, i, z3.Length(bz) + 1)
        K = cand if K is None else z3.If(cand < K, cand, K)
    N = z3.IntVal(0)
    for i, n in sorted(idx, key=lambda t: t[1]):       # longer terminators override shorter ones at the same position
        N = z3.If(i == K, z3.IntVal(n), N)
    return found, K, N


def parse_line_step(B, which):
    eols = EOLSETS[which]
    b = B.bytes("b")
    kind, line, rest = run_step(B, b, eols, "a")
    ctx = B.ctx
    bz = z(b)
    found, K, N = earliest(b, eols)
    MAX = 65536
    props13 = ["C13", "C17"] if which == "crlf" else (["C13"] if which == "crlf_lf" else ["C15"])
    if kind == "wait":
        # idle-stutter
        B.prove("wait/buffer-untouched", z(rest) == bz, top=True, props=props13 + ["C16"])
        B.prove("wait/only-when-no-terminator", z3.Not(found), top=True, props=props13)
    elif kind == "line":
        B.prove("line/only-when-a-terminator-is-present", found, top=True, props=props13)
        # TOP (whole-stream semantics): the line ends at the EARLIEST terminator in the buffer
        B.prove("line/is-up-to-earliest-terminator", z3.And(z(line) == z3.SubString(bz, 0, K), z(rest) == z3.SubString(bz, K + N, z3.Length(bz) - K - N)),
                top=True, props=props13)
        B.prove("line/consumed-exactly-line-plus-terminator", z3.Length(z(line)) + z3.Length(z(rest)) < z3.Length(bz), props=props13)
        B.prove("line/within-limit", z3.Length(z(line)) <= MAX, props=["C16"] + props13)
    elif kind.startswith("raise:"):
        B.handled = True
        B.prove("raise/only-LineTooLong", kind == "raise:LineTooLong", top=True, props=["C16"] + props13)
        B.prove("raise/only-beyond-limit", z3.Length(bz) > MAX, top=True, props=["C16"] + props13)
    else:
        B.prove("never-returns", False, props=props13)
    B.no_other_exception()


def parse_line_prefix_stable(B, which):
    """relational: the same step on b and on b ++ e"""
    eols = EOLSETS[which]
    b, e = B.bytes("b"), B.bytes("e")
    be = E.binop(B.ctx, __import__("ast").Add(), b, e)
    k1, l1, r1 = run_step(B, b, eols, "a")
    k2, l2, r2 = run_step(B, be, eols, "b")
    props = ["C13", "C17"] if which == "crlf" else (["C13"] if which == "crlf_lf" else ["C15"])
    if k1 == "line":
        B.prove("progress-is-stable-under-more-bytes", k2 == "line" and True, top=True, props=props)
        if k2 == "line":
            B.prove("same-line", z(l2) == z(l1), top=True, props=props)
            B.prove("rest-is-rest-plus-new-bytes", z(r2) == z3.Concat(z(r1), z(e)), top=True, props=props)
    elif k1.startswith("raise:"):
        B.prove("error-is-stable-under-more-bytes", k2 == k1, top=True, props=props + ["C16"])
    else:
        B.prove("wait-case-needs-no-claim", True, props=props)
    B.handled = True
    B.no_other_exception()


for _w in EOLSETS:
    def _mk(w=_w):
        @contract(HTTPING + ":parseLine", props={"crlf": ["C13", "C17", "C16"], "crlf_lf": ["C13", "C16"], "crlf_lf_cr": ["C15", "C16"]}[w], name=HTTPING + ":parseLine[step, eols=%s]" % w, z3_ms=1500)
        def _a(B):
            parse_line_step(B, w)

        if w != "crlf_lf_cr":
            # (for three terminator kinds a step from the ENTRY state is not prefix-stable by the nature of the protocol -- a CR that
            #  ends a read cannot be told from half a CRLF without lookahead -- which is why the parser carries `tail`: the arbitrary-turn
            #  contract below states and proves that mechanism.  Restricted to buffers not ending in CR the relational obligation is
            #  beyond both solvers (min over three IndexOf terms in two runs); the native tier samples it.)
            @contract(HTTPING + ":parseLine", props={"crlf": ["C13", "C17"], "crlf_lf": ["C13"]}[w], name=HTTPING + ":parseLine[prefix-stability, eols=%s]" % w, z3_ms=1500, cvc5_ms=60000)
            def _b(B):
                parse_line_prefix_stable(B, w)
    _mk()


# ------------------------------------------------------------------ one ARBITRARY turn of parseLine's loop (any history)

def parse_line_turn(B, which):
    """parseLine's `while True` loop cut by an invariant: the buffer is arbitrary at the head of a turn and the only state a turn
    inherits is `tail`, the rest of a terminator that was split across reads (LF when a CR that could have been half a CRLF ended
    the buffer), invariant: tail is b'' or such a remainder.  With b the buffer and t the tail at the head of the turn:
        b' = b without its leading t when t and b are non-empty and b starts with t, else b   (the split terminator is ONE terminator)
        no terminator in b', len(b') <= MAX + S -> yields None with the buffer holding exactly b'; t survives only while b is empty
        no terminator in b', len(b') >  MAX + S -> LineTooLong   (S = longest terminator - 1: the buffer may end in half a terminator,
                                                  so the verdict is the same however the line is fragmented: prefix-stability below)
        else, K the EARLIEST terminator position in b' and N its length (longest at K): K > MAX -> LineTooLong, otherwise yields
        b'[:K], leaves b'[K+N:], and the new tail is the remainder r of the one eol that extends the matched one when the match
        ended the buffer (K+N = len b'), else b''.
    Exactly one yield per turn; nothing else raises; the loop never ends."""
    eols = EOLSETS[which]
    ctx = B.ctx
    raw = B.buf(hint="raw")
    rem = {x: [e[len(x):] for e in eols if len(e) > len(x) and e.startswith(x)] for x in eols}
    B.prove("table/at-most-one-longer-terminator-extends-each-terminator", all(len(v) <= 1 for v in rem.values()), props=["C15", "C13"])
    cands = [b""] + sorted({v[0] for v in rem.values() if v})
    marks = {}
    MAX = 65536
    SLACK = max(len(e) for e in eols) - 1        # a buffer without a terminator may end in all but one byte of the longest one
    sval = lambda t: z3.StringVal(BI.b2s(bytes(t)))
    zz = lambda v: sval(v) if isinstance(v, (bytes, bytearray)) else z(BI.as_text(ctx, v) if isinstance(v, Ref) else v)

    def tail_ok(c, tail):
        if isinstance(tail, (bytes, bytearray)):
            return bytes(tail) in cands
        return mk(z3.Or(*[zz(tail) == sval(t) for t in cands]), "bool")

    def havoc(interp, fr):
        marks["b"] = ctx.fresh("bytes", "b")
        ctx.st(raw)["v"] = marks["b"]
        k = ctx.fork(len(cands), "rest-of-a-split-terminator-pending") if len(cands) > 1 else 0      # (case split licensed by the invariant)
        marks["t"] = cands[k]
        if "tail" in fr.locals:
            fr.locals["tail"] = cands[k]
        marks["ev"] = []

    def on_yield(interp, fr, e, v):
        marks.setdefault("ev", []).append(("wait" if v is None else "line", v, ctx.st(raw)["v"]))
        return None

    def pre_state():
        b, t = z(marks["b"]), marks["t"]
        if t:
            stripped = z3.And(z3.Length(b) > 0, z3.PrefixOf(sval(t), b))
            b1 = z3.If(stripped, z3.SubString(b, len(t), z3.Length(b) - len(t)), b)
            t1 = z3.If(z3.Length(b) == 0, sval(t), sval(b""))
        else:
            b1, t1 = b, sval(b"")
        return b1, t1

    def turn_ok(c, tail):
        b1, t1 = pre_state()
        ev = marks["ev"]
        if len(ev) != 1:
            return False
        kind, val, at = ev[0]
        found, K, N = earliest(SV(b1, "bytes"), eols)
        now = z(at)
        if kind == "wait":
            return mk(z3.And(z3.Not(found), z3.Length(b1) <= MAX + SLACK, now == b1, zz(tail) == t1), "bool")
        want_tail = sval(b"")
        for x in eols:
            if rem[x]:
                want_tail = z3.If(z3.And(z3.IndexOf(b1, sval(x), 0) == K, N == len(x), K + N == z3.Length(b1)), sval(rem[x][0]), want_tail)
        return mk(z3.And(found, K <= MAX, zz(val) == z3.SubString(b1, 0, K), now == z3.SubString(b1, K + N, z3.Length(b1) - K - N),
                         zz(tail) == want_tail), "bool")
    B.prog.spec_env["tail_ok"] = ModelFn(lambda c, a, k: tail_ok(c, *a), "spec:tail_ok")
    B.prog.spec_env["turn_ok"] = ModelFn(lambda c, a, k: turn_ok(c, *a), "spec:turn_ok")
    props = {"crlf": ["C13", "C17", "C15"], "crlf_lf": ["C13"], "crlf_lf_cr": ["C15"]}[which]
    B.loop(HTTPING + ":parseLine", 0, invariant=["tail_ok(tail)"], modifies=[havoc],
           body_ensures=[("a-turn-yields-once: waits-untouched or the-line-up-to-the-earliest-terminator, a-split-terminator-counted-once", "turn_ok(tail)")])
    B.call(raw, eols=eols, qual=HTTPING + ":parseLine", yield_handler=on_yield)
    if "b" not in marks:
        B.prove("unreachable: the loop is always entered", False, top=True, props=props)
        return
    if B.raised():
        B.handled = True
        from pyvc import source
        b1, t1 = pre_state()
        found, K, N = earliest(SV(b1, "bytes"), eols)
        B.prove("raise/only-LineTooLong", bool(B.raised(source.class_by_qual(HTTPING + ":LineTooLong"))), top=True, props=props + ["C16"])
        B.prove("raise/only-beyond-limit-and-before-any-yield", z3.And(z3.BoolVal(not marks["ev"]), z3.Or(z3.And(z3.Not(found), z3.Length(b1) > MAX + SLACK), z3.And(found, K > MAX))),
                top=True, props=props + ["C16"])
        B.no_other_exception()
        return
    B.no_other_exception()
    B.prove("never-returns", False, top=True, props=props)


for _w in EOLSETS:
    def _mk3(w=_w):
        @contract(HTTPING + ":parseLine", props={"crlf": ["C13", "C17", "C15", "C16"], "crlf_lf": ["C13", "C16"], "crlf_lf_cr": ["C15", "C16"]}[w],
                  name=HTTPING + ":parseLine[one arbitrary turn after any history, eols=%s]" % w, z3_ms=1500)
        def _d(B):
            parse_line_turn(B, w)
    _mk3()


# ------------------------------------------------------------------ resumption: state carried across a wait must not matter

def parse_line_resume(B, which):
    """additivity of one wait: running on b, waiting, receiving e, resuming  ==  one fresh activation on b ++ e.
    (Catches parser state that survives a `yield None`, e.g. a remembered search offset.)"""
    eols = EOLSETS[which]
    b, e = B.bytes("b"), B.bytes("e")
    be = E.binop(B.ctx, __import__("ast").Add(), b, e)
    buf = B.buf(b, hint="raw_two_step")
    waits = {"n": 0}

    def handler(interp, fr, node, value):
        if value is None and waits["n"] == 0:
            waits["n"] += 1
            # environment step while suspended: the transport appends e to the shared buffer
            st = interp.ctx.st(buf)
            st["v"] = E.binop(interp.ctx, __import__("ast").Add(), st["v"], e)
            return None                      # resumed (next()/send(None))
        raise Suspend(value, node)
    B.outcome = None
    B.call(buf, eols=eols, qual=HTTPING + ":parseLine", yield_handler=handler)
    o2 = B.outcome
    rest2 = B.ctx.st(buf)["v"]
    if waits["n"] == 0:
        B.handled = True
        return                               # first activation already made progress: covered by the step contract
    k1, l1, r1 = run_step(B, be, eols, "fresh")
    props = {"crlf": ["C13", "C17", "C15"], "crlf_lf": ["C13"], "crlf_lf_cr": ["C15"]}[which]
    if k1 == "line":
        B.prove("resumed-parser-finds-the-same-line", o2[0] == "yield" and o2[1] is not None, top=True, props=props)
        if o2[0] == "yield" and o2[1] is not None:
            B.prove("same-line-as-a-fresh-parser", z(o2[1]) == z(l1), top=True, props=props)
            B.prove("same-rest-as-a-fresh-parser", z(rest2) == z(r1), top=True, props=props)
    elif k1 == "wait":
        B.prove("resumed-parser-also-waits", o2[0] == "yield" and o2[1] is None, top=True, props=props)
        B.prove("buffer-untouched", z(rest2) == z(be), top=True, props=props)
    else:
        B.prove("same-error-as-a-fresh-parser", o2[0] == "raise", top=True, props=props + ["C16"])
    B.handled = True
    B.no_other_exception()


for _w in EOLSETS:
    def _mk2(w=_w):
        @contract(HTTPING + ":parseLine", props={"crlf": ["C13", "C17", "C15"], "crlf_lf": ["C13"], "crlf_lf_cr": ["C15"]}[w],
                  name=HTTPING + ":parseLine[resume after wait, eols=%s]" % w, z3_ms=1500)
        def _c(B):
            parse_line_resume(B, w)
    _mk2()

"""C27 -- the name/address registry of Namer stays a bijection; rejected / no-change operations leave both maps untouched.

Abstract view: A = _addrByName : Name -> Addr, B = _nameByAddr : Addr -> Name  (symbolic maps: SMT arrays + domain arrays;
names and addresses live in uninterpreted sorts because the code only compares them for equality / truthiness).
Class invariant bij(A, B):  forall n in dom A. B[A[n]] == n   and   forall a in dom B. A[B[a]] == a.
Every method: requires bij, ensures bij on normal AND exceptional exit, and states the WHOLE new view.
"""
import z3
from .common import *
from pyvc import builtins as BI
from pyvc import source
from pyvc.engine import usort

NAMER = "hio.help.naming:Namer"
NS, AS = "u:Name", "u:Addr"


def view(ctx, ref):
    s = ctx.st(ref)
    return s["dom"], s["map"]


def bij(ctx, A, B):
    dA, mA = view(ctx, A)
    dB, mB = view(ctx, B)
    n = z3.Const("n!bij", usort("Name"))
    a = z3.Const("a!bij", usort("Addr"))
    return z3.And(z3.ForAll([n], z3.Implies(z3.Select(dA, n), z3.And(z3.Select(dB, z3.Select(mA, n)), z3.Select(mB, z3.Select(mA, n)) == n))),
                  z3.ForAll([a], z3.Implies(z3.Select(dB, a), z3.And(z3.Select(dA, z3.Select(mB, a)), z3.Select(mA, z3.Select(mB, a)) == a))))


def same_view(v1, v2, sort):
    (d1, m1), (d2, m2) = v1, v2
    k = z3.Const("k!eq", sort)
    return z3.And(d1 == d2, z3.ForAll([k], z3.Implies(z3.Select(d1, k), z3.Select(m1, k) == z3.Select(m2, k))))


def namer(B):
    ctx = B.ctx
    A = B.sdict(NS, AS, "A")
    Bm = B.sdict(AS, NS, "B")
    ctx.assume(bij(ctx, A, Bm))
    self = B.obj(NAMER, _addrByName=A, _nameByAddr=Bm)
    B.prog.dict_maker = lambda c: BI.new_sdict(c)
    return self, A, Bm


def views_now(B, self):
    st = B.ctx.st(self)
    return view(B.ctx, st["_addrByName"]), view(B.ctx, st["_nameByAddr"])


def common_post(B, self, old, changed_to=None):
    """bij preserved on every exit; `unchanged` unless a new view is given"""
    ctx = B.ctx
    st = ctx.st(self)
    vA, vB = views_now(B, self)
    B.prove("bijection-preserved", bij(ctx, st["_addrByName"], st["_nameByAddr"]), top=True)
    oA, oB = old
    if changed_to is None:
        B.prove("both-maps-unchanged", z3.And(same_view(vA, oA, usort("Name")), same_view(vB, oB, usort("Addr"))), top=True)
    else:
        nA, nB = changed_to
        B.prove("name-to-addr-map-is-exactly-the-updated-view", same_view(vA, nA, usort("Name")), top=True)
        B.prove("addr-to-name-map-is-exactly-the-updated-view", same_view(vB, nB, usort("Addr")), top=True)


NAMERERROR = None


def namer_error():
    return source.class_by_qual("hio.hioing:NamerError")


def truthy(v):
    return E.truthy_u(v)


@contract(NAMER + ".addNameAddr", props=["C27"])
def add_name_addr(B):
    self, A, Bm = namer(B)
    name, addr = B.uid("Name"), B.uid("Addr")
    old = views_now(B, self)
    (dA, mA), (dB, mB) = old
    r = B.call(self, name=name, addr=addr)
    if B.returned():
        if r is True:
            B.prove("added-only-when-both-fresh-and-nonempty", z3.And(truthy(name), truthy(addr), z3.Not(z3.Select(dA, name.t)), z3.Not(z3.Select(dB, addr.t))), top=True)
            common_post(B, self, old, ((z3.Store(dA, name.t, True), z3.Store(mA, name.t, addr.t)), (z3.Store(dB, addr.t, True), z3.Store(mB, addr.t, name.t))))
        else:
            B.prove("result-is-bool", r is False)
            B.prove("false-means-the-exact-entry-already-exists", z3.And(z3.Select(dA, name.t), z3.Select(mA, name.t) == addr.t), top=True)
            common_post(B, self, old)
    elif B.raised(namer_error()):
        B.handled = True
        common_post(B, self, old)
    B.no_other_exception()


def rem_contract(B, by):
    self, A, Bm = namer(B)
    name = B.uid("Name") if by in ("name", "both") else None
    addr = B.uid("Addr") if by in ("addr", "both") else None
    old = views_now(B, self)
    (dA, mA), (dB, mB) = old
    r = B.call(self, name=name, addr=addr)
    if B.returned():
        if r is True:
            # the removed pair (n, a) was a matching entry
            n = name.t if name is not None and True else None
            if name is not None:
                # python: `if name:` -- a falsy name falls through to the addr branch
                pass
            vA, vB = views_now(B, self)
            rn = z3.Const("rn!rem", usort("Name"))
            ra = z3.Const("ra!rem", usort("Addr"))
            exists_pair = z3.Exists([rn, ra], z3.And(z3.Select(dA, rn), z3.Select(mA, rn) == ra,
                                                     (rn == name.t) if name is not None else z3.BoolVal(True),
                                                     (ra == addr.t) if addr is not None else z3.BoolVal(True),
                                                     same_view(vA, (z3.Store(dA, rn, False), mA), usort("Name")),
                                                     same_view(vB, (z3.Store(dB, ra, False), mB), usort("Addr"))))
            if name is not None and addr is not None:
                # both given: either both match, or (falsy name) removal by addr
                exists_pair = z3.Exists([rn, ra], z3.And(z3.Select(dA, rn), z3.Select(mA, rn) == ra, z3.Or(rn == name.t, ra == addr.t),
                                                         same_view(vA, (z3.Store(dA, rn, False), mA), usort("Name")),
                                                         same_view(vB, (z3.Store(dB, ra, False), mB), usort("Addr"))))
            B.prove("exactly-one-matching-pair-removed", exists_pair, top=True)
            B.prove("bijection-preserved", bij(B.ctx, B.ctx.st(self)["_addrByName"], B.ctx.st(self)["_nameByAddr"]), top=True)
        else:
            B.prove("result-is-bool", r is False)
            common_post(B, self, old)
    elif B.raised():
        # a rejected operation must leave both maps unchanged (and Namer documents no exception here)
        common_post(B, self, old)
    B.no_other_exception(top=True)


for _by in ("name", "addr", "both", "neither"):
    def _mk(by=_by):
        @contract(NAMER + ".remNameAddr", props=["C27"], name=NAMER + ".remNameAddr[by %s]" % by)
        def _r(B):
            rem_contract(B, by)
    _mk()


def change_contract(B, which):
    self, A, Bm = namer(B)
    name, addr = B.uid("Name"), B.uid("Addr")
    old = views_now(B, self)
    (dA, mA), (dB, mB) = old
    r = B.call(self, name=name, addr=addr, qual=NAMER + "." + which)
    if B.returned():
        if r is True:
            if which == "changeAddrAtName":
                oa = z3.Select(mA, name.t)
                B.prove("changed-only-existing-name-to-a-free-address", z3.And(z3.Select(dA, name.t), oa != addr.t, z3.Not(z3.Select(dB, addr.t))), top=True)
                common_post(B, self, old, ((dA, z3.Store(mA, name.t, addr.t)), (z3.Store(z3.Store(dB, oa, False), addr.t, True), z3.Store(mB, addr.t, name.t))))
            else:
                on = z3.Select(mB, addr.t)
                B.prove("changed-only-existing-address-to-a-free-name", z3.And(z3.Select(dB, addr.t), on != name.t, z3.Not(z3.Select(dA, name.t))), top=True)
                common_post(B, self, old, ((z3.Store(z3.Store(dA, on, False), name.t, True), z3.Store(mA, name.t, addr.t)), (dB, z3.Store(mB, addr.t, name.t))))
        else:
            B.prove("result-is-bool", r is False)
            common_post(B, self, old)
    elif B.raised(namer_error()):
        B.handled = True
        common_post(B, self, old)
    B.no_other_exception()


@contract(NAMER + ".changeAddrAtName", props=["C27"])
def change_addr(B):
    change_contract(B, "changeAddrAtName")


@contract(NAMER + ".changeNameAtAddr", props=["C27"])
def change_name(B):
    change_contract(B, "changeNameAtAddr")


@contract(NAMER + ".clearAllNameAddr", props=["C27"])
def clear_all(B):
    self, A, Bm = namer(B)
    B.call(self)
    st = B.ctx.st(self)
    B.prove("both-empty", z3.And(B.ctx.st(st["_addrByName"])["n"] == 0, B.ctx.st(st["_nameByAddr"])["n"] == 0), top=True)
    B.no_other_exception()


@contract(NAMER + ".getAddr", props=["C27"])
def get_addr(B):
    self, A, Bm = namer(B)
    name = B.uid("Name")
    old = views_now(B, self)
    (dA, mA), _ = old
    r = B.call(self, name)
    if r is None:
        B.prove("none-only-when-absent", z3.Not(z3.Select(dA, name.t)), top=True)
    else:
        B.prove("returns-mapped-address", z3.And(z3.Select(dA, name.t), r.t == z3.Select(mA, name.t)), top=True)
    common_post(B, self, old)
    B.no_other_exception()

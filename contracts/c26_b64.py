"""C26 -- intToB64 / b64ToInt are exact inverses (for every non-negative integer and every minimum length >= 1).

Both functions are interpreted from /repo/src/hio/help/helping.py; their loops are cut by invariants, so the result holds for
integers of ANY size and strings of ANY length.

Spec vocabulary (for one call):
    E : int -> str, D : str -> int, VALID : str -> bool    the two lookup tables; the facts used about them
        (v in [0,64) => VALID(E v) and D(E v) = v and |E v| = 1;  VALID c => 0 <= D c < 64 and E(D c) = c;  E 0 = "A")
        are CHECKED EXHAUSTIVELY (64 entries) on the tables built by executing the module-level statements that define them,
        extracted from the real source on every run
    Q(e)    the quotient sequence of the argument: Q(0) = i, Q(e+1) = Q(e) // 64
    W(e)    the value of the e least significant characters of the string: W(0) = 0, W(e+1) = W(e) + D(s[n-1-e]) * 64**e
    pow2(k) 2**k as an uninterpreted function; only instances of pow2(0) = 1, pow2(k) > 0, pow2(k+6) = 64*pow2(k) are used

intToB64(i, l)  requires i >= 0, l >= 1
                ensures  result has n = max(l, k) characters with k >= 1, Q(k) = 0, character n-1-e is E(Q(e) % 64) for e < k
                         and "A" for k <= e < n
b64ToInt(s)     requires s a str
                ensures  ValueError iff s is empty; KeyError only if some character is not in the table; else result == W(n)
LEMMA round trip  from the two postconditions, by induction on e:  i == W(e) + Q(e) * pow2(6e)  for 0 <= e <= n, and Q(e) = 0
                  for e >= k; hence b64ToInt(intToB64(i, l)) == i.  Base and step are separate obligations; the induction
                  principle over the naturals is applied by the generator (stated as trusted in the evidence).

EXT / arithmetic facts used as instances (each schema is itself discharged by z3 in the lemma contract where it is nonlinear):
    x << k == x * pow2(k)  (k >= 0);   0 <= a < pow2(k) and x >= 0  =>  a | (x << k) == a + (x << k);
    0 <= a <= 63 and p > 0 => 0 <= a*p <= 63*p.
l = 0 is outside this contract: intToB64(i, 0) returns '' (recorded finding of the bounded tier).  The bytes flavour of b64ToInt
(s.decode first) and the code <-> binary helpers are covered by the bounded tier only.
"""
import ast
import z3
from .common import *
from pyvc import builtins as BI
from pyvc import source
from pyvc.engine import ufunc

HELP = "hio.help.helping"
I, S = z3.IntSort(), z3.StringSort()
E_ = ufunc("b64chr", I, S)
D_ = ufunc("b64idx", S, I)
VALID = ufunc("b64valid", S, z3.BoolSort())
pow2 = ufunc("pow2", I, I)
Q = ufunc("Q", I, I)
W = ufunc("W", I, I)


# ------------------------------------------------------------------------------------------------ the real tables

def real_tables():
    """execute exactly the module-level statements of helping.py that define or change the two tables"""
    mod = source.load_module(HELP)
    names = {"B64ChrByIdx", "B64IdxByChr"}
    ns = {}
    for node in mod.tree.body:
        touched = set()
        for n in ast.walk(node):
            if isinstance(n, ast.Name) and n.id in names:
                touched.add(n.id)
        if touched and isinstance(node, (ast.Assign, ast.Expr, ast.AugAssign, ast.AnnAssign)):
            exec(compile(ast.Module(body=[node], type_ignores=[]), mod.path, "exec"), ns)
    return ns.get("B64ChrByIdx"), ns.get("B64IdxByChr")


def table_facts(B):
    """the axioms below, checked on all 64 entries of the real tables"""
    c, d = real_tables()
    ok_tables = isinstance(c, dict) and isinstance(d, dict)
    B.prove("table/both-tables-defined", ok_tables, top=True)
    if not ok_tables:
        return
    B.prove("table/index-domain-is-0..63", sorted(c.keys()) == list(range(64)), top=True)
    B.prove("table/each-entry-is-one-character", all(isinstance(v, str) and len(v) == 1 for v in c.values()), top=True)
    B.prove("table/decode-of-encode-is-identity", all(d.get(c.get(v)) == v for v in range(64)), top=True)
    B.prove("table/encode-of-decode-is-identity", all(c.get(d[ch]) == ch and 0 <= d[ch] < 64 for ch in d), top=True)
    B.prove("table/decode-domain-is-encode-range", set(d.keys()) == set(c.values()) and len(d) == 64, top=True)
    B.prove("table/zero-is-A", c.get(0) == "A", top=True)


def table_axioms(ctx):
    v = z3.Int("v!ax")
    c = z3.String("c!ax")
    ctx.assume(z3.ForAll([v], z3.Implies(z3.And(0 <= v, v < 64), z3.And(VALID(E_(v)), D_(E_(v)) == v, z3.Length(E_(v)) == 1))))
    ctx.assume(z3.ForAll([c], z3.Implies(VALID(c), z3.And(0 <= D_(c), D_(c) < 64, E_(D_(c)) == c))))
    ctx.assume(E_(0) == z3.StringVal("A"))
    ctx.assume(pow2(0) == 1)


class ChrByIdx:
    def getitem(self, ctx, r, idx):
        t = z(idx, "int")
        if not ctx.branch(z3.And(0 <= t, t < 64), "index-in-table"):
            raise py_exc(KeyError, "index not in B64ChrByIdx")
        return SV(E_(t), "str")


class IdxByChr:
    def getitem(self, ctx, r, ch):
        t = z(ch)
        if not ctx.branch(VALID(t), "char-in-table"):
            ctx.ghost["bad_char"] = True
            raise py_exc(KeyError, "character not in B64IdxByChr")
        return SV(D_(t), "int")


class SeqStr:
    """a str of arbitrary length as a window of an SMT array of one-character strings"""

    def __init__(self, arr, lo, hi):
        self.arr, self.lo, self.hi = arr, lo, hi

    def truth(self, ctx, r):
        return mk(self.hi > self.lo, "bool")

    def length(self, ctx, r):
        return mk(self.hi - self.lo, "int")

    def getattr(self, ctx, r, name):
        raise py_exc(AttributeError, "'str' object has no attribute '%s'" % name)


class RevView:
    def __init__(self, s):
        self.s = s


class EnumRev:
    """enumerate(reversed(s)): the loop is cut by the invariant; hidden position _idx"""

    def __init__(self, s):
        self.s = s

    def for_loop(self, interp, st, fr, it, spec):
        ctx = interp.ctx
        s = self.s
        fr.locals["_idx"] = 0

        def test():
            return z(fr.locals["_idx"], "int") < s.hi - s.lo

        def pre():
            i = z(fr.locals["_idx"], "int")
            interp.assign(st.target, (mk(i, "int"), SV(z3.Select(s.arr, s.hi - 1 - i), "str")), fr)
            fr.locals["_idx"] = mk(i + 1, "int")
        spec.types.setdefault("_idx", "int")
        return interp.cut_loop(st, fr, spec, test=test, body=st.body, pre=pre, extra_havoc=("_idx",))


class SymRange:
    def __init__(self, n):
        self.n = n

    def for_loop(self, interp, st, fr, it, spec):
        n = self.n
        fr.locals["_idx"] = 0

        def test():
            return z(fr.locals["_idx"], "int") < n

        def pre():
            i = z(fr.locals["_idx"], "int")
            interp.assign(st.target, mk(i, "int"), fr)
            fr.locals["_idx"] = mk(i + 1, "int")
        spec.types.setdefault("_idx", "int")
        return interp.cut_loop(st, fr, spec, test=test, body=st.body, pre=pre, extra_havoc=("_idx",))


def install(B):
    ctx = B.ctx
    g = ctx.ghost
    prog = B.prog
    if not hasattr(prog, "global_models") or prog.global_models is None:
        prog.global_models = {}
    prog.global_models[(HELP, "B64ChrByIdx")] = B.ext(ChrByIdx())
    prog.global_models[(HELP, "B64IdxByChr")] = B.ext(IdxByChr())
    table_axioms(ctx)

    def mk_deque(c, a, k):
        if a:
            raise Undecided("deque(iterable) in the Base64 helpers")
        d = BI.wseq_fresh(c, ("str",), "d", "deque")
        st = c.st(d)
        c.assume(st["lo"] == st["hi"])
        g["d"] = d
        g["hi0"] = st["hi"]
        return d
    prog.externals["collections.deque"] = mk_deque

    def mk_range(c, a, k):
        cs = [conc(x) for x in a]
        if all(isinstance(x, int) for x in cs):
            return range(*cs)
        if len(a) != 1:
            raise Undecided("symbolic range with start/step")
        if "d" in g:
            st = c.st(g["d"])
            g["lo1"], g["arr1"] = st["lo"], st["arrs"][0]
        g["range_n"] = z(a[0], "int")
        return c.alloc("ext", init={"model": SymRange(z(a[0], "int"))})
    prog.externals["builtins.range"] = mk_range

    def mk_reversed(c, a, k):
        if isinstance(a[0], Ref) and a[0].kind == "ext" and isinstance(c.st(a[0])["model"], SeqStr):
            return c.alloc("ext", init={"model": RevView(c.st(a[0])["model"])})
        raise Undecided("reversed() of %r" % (a[0],))
    prog.externals["builtins.reversed"] = mk_reversed

    def mk_enumerate(c, a, k):
        if isinstance(a[0], Ref) and a[0].kind == "ext" and isinstance(c.st(a[0])["model"], RevView) and len(a) == 1 and not k:
            return c.alloc("ext", init={"model": EnumRev(c.st(a[0])["model"].s)})
        raise Undecided("enumerate() of %r" % (a[0],))
    prog.externals["builtins.enumerate"] = mk_enumerate

    def join(c, s, a, k):
        if s == "" and isinstance(a[0], Ref) and a[0].kind == "wseq":
            st = c.st(a[0])
            return c.alloc("ext", init={"model": SeqStr(st["arrs"][0], st["lo"], st["hi"])})
        raise Undecided("str.join in the Base64 helpers")
    prog.text_models["join"] = join

    shl = g["shl"] = {}

    def bitop(c, opa, b, k):
        op, a = opa
        b = b[0]
        if isinstance(op, ast.LShift):
            x, sh = z(a, "int"), z(b, "int")
            # EXT x << k == x * 2**k for k >= 0; instances of 2**k > 0, 2**(k+6) == 64 * 2**k, and of the monotonicity lemma
            c.assume(z3.Implies(sh >= 0, z3.And(pow2(sh) > 0, pow2(sh + 6) == 64 * pow2(sh))))
            if not c.branch(sh >= 0, "shift-count-nonnegative"):
                raise py_exc(ValueError, "negative shift count")
            rv = c.fresh("int", "shl")          # a name for x << k (stable under term simplification)
            r = rv.t
            c.assume(r == x * pow2(sh))
            c.assume(z3.Implies(z3.And(0 <= x, x <= 63), z3.And(0 <= r, r <= 63 * pow2(sh))))
            shl[r.get_id()] = (x, sh)
            return rv
        if isinstance(op, ast.BitOr):
            x, y = z(a, "int"), z(b, "int")
            if y.get_id() in shl:
                v, sh = shl[y.get_id()]
                r = c.fresh("int", "bitor")
                # EXT disjoint-bits lemma: 0 <= x < 2**k and v >= 0  =>  x | (v << k) == x + (v << k)
                c.assume(z3.Implies(z3.And(0 <= x, x < pow2(sh), v >= 0), r.t == x + y))
                return r
        raise Undecided("symbolic bit operation %s" % type(op).__name__)
    prog.text_models["bitop"] = bitop


def spec(B, name, fn):
    B.prog.spec_env[name] = ModelFn(lambda c, a, k, fn=fn: fn(c, *a), "spec:" + name)


# ------------------------------------------------------------------------------------------------ intToB64

def q_axioms(ctx, i0):
    e = z3.Int("e!q")
    ctx.assume(Q(0) == z(i0, "int"))
    ctx.assume(z3.ForAll([e], z3.Implies(e >= 0, Q(e + 1) == Q(e) / 64)))


def encode_post(arr, lo, hi, l, k):
    """the postcondition of intToB64 as a formula over (arr, lo, hi) and the digit count k"""
    e = z3.Int("e!post")
    n = hi - lo
    return z3.And(k >= 1, n == z3.If(l > k, l, k), Q(k) == 0,
                  z3.ForAll([e], z3.Implies(z3.And(0 <= e, e < k), z3.Select(arr, hi - 1 - e) == E_(Q(e) % 64))),
                  z3.ForAll([e], z3.Implies(z3.And(k <= e, e < n), z3.Select(arr, hi - 1 - e) == z3.StringVal("A"))))


@contract(HELP + ":intToB64", props=["C26"], name=HELP + ":intToB64[any integer, any length >= 1]", z3_ms=3000)
def int_to_b64(B):
    ctx = B.ctx
    g = ctx.ghost
    table_facts(B)
    install(B)
    i0, l = B.int("i"), B.int("l")
    ctx.assume(z3.And(i0.t >= 0, l.t >= 1))
    q_axioms(ctx, i0)
    e = z3.Int("e!inv")

    def cur():
        st = ctx.st(g["d"])
        return st["arrs"][0], st["lo"], st["hi"]

    def inv_digits(c, i):
        arr, lo, hi = cur()
        k = g["hi0"] - lo
        return mk(z3.And(hi == g["hi0"], k >= 0, z(i, "int") == Q(k), z(i, "int") >= 0, z3.Or(k == 0, z(i, "int") > 0),
                         z3.ForAll([e], z3.Implies(z3.And(0 <= e, e < k), z3.Select(arr, hi - 1 - e) == E_(Q(e) % 64)))), "bool")
    spec(B, "inv_digits", inv_digits)

    def inv_pad(c, idx):
        arr, lo, hi = cur()
        p = z3.Int("p!inv")
        j = z(idx, "int")
        return mk(z3.And(hi == g["hi0"], lo == g["lo1"] - j, j >= 0, z3.Or(j == 0, j <= g["range_n"]),
                         z3.ForAll([p], z3.Implies(z3.And(lo <= p, p < g["lo1"]), z3.Select(arr, p) == z3.StringVal("A"))),
                         z3.ForAll([p], z3.Implies(z3.And(g["lo1"] <= p, p < hi), z3.Select(arr, p) == z3.Select(g["arr1"], p)))), "bool")
    spec(B, "inv_pad", inv_pad)

    def havoc_d(interp, fr):
        st = ctx.st(g["d"])
        n = ctx.nfresh = ctx.nfresh + 1
        st["lo"] = z3.Int("d.lo!%d" % n)
        st["arrs"] = [z3.Const("d.arr!%d" % n, st["arrs"][0].sort())]
    B.loop(HELP + ":intToB64", 0, invariant=["inv_digits(i)"], modifies=[havoc_d])
    B.loop(HELP + ":intToB64", 1, invariant=["inv_pad(_idx)"], modifies=[havoc_d])
    r = B.call(i0, l, qual=HELP + ":intToB64")
    B.no_other_exception()
    B.prove("returns-normally", B.returned(), top=True)
    if not B.returned():
        return
    ok = isinstance(r, Ref) and r.kind == "ext" and isinstance(ctx.st(r)["model"], SeqStr)
    B.prove("returns-the-joined-characters", ok, top=True)
    if not ok:
        return
    s = ctx.st(r)["model"]
    k = g["hi0"] - g["lo1"] if "lo1" in g else None
    B.prove("pad-loop-reached", k is not None, top=True)
    B.prove("digits-of-i-least-significant-last-then-A-padding-to-l", encode_post(s.arr, s.lo, s.hi, l.t, k), top=True)
    B.prove("at-least-l-characters", s.hi - s.lo >= l.t, top=True)
    B.prove("no-more-than-needed", z3.Or(s.hi - s.lo == l.t, z3.And(s.hi - s.lo == k, z3.Or(k == 1, Q(k - 1) != 0))), top=True)
    B.prove("digit-count-is-minimal (no leading zero digit unless the only one)", z3.Or(k == 1, Q(k - 1) != 0), top=True)


# ------------------------------------------------------------------------------------------------ b64ToInt

@contract(HELP + ":b64ToInt", props=["C26"], name=HELP + ":b64ToInt[str of any length]", z3_ms=3000)
def b64_to_int(B):
    ctx = B.ctx
    g = ctx.ghost
    install(B)
    arr = z3.Const("s.arr", z3.ArraySort(I, S))
    n = B.int("n")
    ctx.assume(n.t >= 0)
    s = SeqStr(arr, z3.IntVal(0), n.t)
    sref = B.ext(s)
    ctx.assume(W(0) == 0)

    def inv_dec(c, i, idx):
        j = z(idx, "int")
        return mk(z3.And(0 <= j, j <= n.t, z(i, "int") == W(j), 0 <= z(i, "int"), z(i, "int") < pow2(6 * j)), "bool")
    spec(B, "inv_dec", inv_dec)

    def head(c, fr):
        j = z(fr.locals["_idx"], "int")
        # definitional instance of W at the arbitrary iteration
        c.assume(W(j + 1) == W(j) + D_(z3.Select(arr, n.t - 1 - j)) * pow2(6 * j))
    B.loop(HELP + ":b64ToInt", 0, invariant=["inv_dec(i, _idx)"], head=head)
    r = B.call(sref, qual=HELP + ":b64ToInt")
    p = z3.Int("p!post")
    allvalid = z3.ForAll([p], z3.Implies(z3.And(0 <= p, p < n.t), VALID(z3.Select(arr, p))))
    if B.raised(ValueError):
        B.handled = True
        B.prove("ValueError-only-for-the-empty-string", n.t == 0, top=True)
    elif B.raised(KeyError):
        B.handled = True
        B.prove("KeyError-only-for-a-character-outside-the-table", z3.Not(allvalid), top=True)
    B.no_other_exception()
    if B.returned():
        B.prove("non-empty", n.t > 0, top=True)
        B.prove("value-of-the-characters", z(r, "int") == W(n.t), top=True)
        B.prove("below-64**n", z3.And(0 <= z(r, "int"), z(r, "int") < pow2(6 * n.t)), top=True)


# ------------------------------------------------------------------------------------------------ lemmas

@contract(HELP + ":b64ToInt", props=["C26"], name="lemma:b64ToInt(intToB64(i, l)) == i", z3_ms=3000)
def roundtrip_lemma(B):
    """pure-spec obligations (no code is interpreted here): the nonlinear fact schemas used as instances above, and the
    induction that turns the two postconditions into the round trip"""
    ctx = B.ctx
    table_axioms(ctx)
    a, p_, x, v = z3.Ints("a p x v")
    # schema 1: monotonicity used for the bound  (nonlinear; z3 nlsat)
    B.prove("schema/0<=a<=63,p>0 => 0<=a*p<=63*p", z3.Implies(z3.And(0 <= a, a <= 63, p_ > 0), z3.And(0 <= a * p_, a * p_ <= 63 * p_)), top=True)
    # the round trip
    i0, l, k = B.int("i"), B.int("l"), B.int("k")
    arr = z3.Const("r.arr", z3.ArraySort(I, S))
    n = B.int("n")
    ctx.assume(z3.And(i0.t >= 0, l.t >= 1))
    q_axioms(ctx, i0)
    ctx.assume(encode_post(arr, z3.IntVal(0), n.t, l.t, k.t))        # intToB64's postcondition (result = arr[0:n])
    e = z3.Int("e")
    # W over THAT result, pow2 facts: definitions
    ctx.assume(W(0) == 0)
    wdef = lambda t: W(t + 1) == W(t) + D_(z3.Select(arr, n.t - 1 - t)) * pow2(6 * t)      # noqa
    pdef = lambda t: z3.And(pow2(6 * t) > 0, pow2(6 * t + 6) == 64 * pow2(6 * t))            # noqa
    # G(e): e >= k => Q(e) == 0
    ee = B.int("e")
    B.prove("G/base: Q(k) == 0", Q(k.t) == 0, top=True)
    with_step = z3.Implies(z3.And(ee.t >= k.t, Q(ee.t) == 0), Q(ee.t + 1) == 0)
    B.prove("G/step: Q(e) == 0 => Q(e+1) == 0", with_step, top=True)
    ctx.assume(z3.ForAll([e], z3.Implies(e >= k.t, Q(e) == 0)))            # by induction from the two obligations above
    # digit fact for every position of the result
    B.prove("digit: D(result[n-1-e]) == Q(e) % 64 for every e < n",
            z3.Implies(z3.And(0 <= ee.t, ee.t < n.t), D_(z3.Select(arr, n.t - 1 - ee.t)) == Q(ee.t) % 64), top=True)
    H = lambda t: z(i0, "int") == W(t) + Q(t) * pow2(6 * t)                # noqa
    B.prove("H/base: i == W(0) + Q(0) * 2**0", H(z3.IntVal(0)), top=True)
    # H/step is the quantifier-free obligation of the contract below (instances: definition of W at e, 2**(6e+6) = 64 * 2**(6e),
    # the digit fact just proved at e, Q(e+1) = Q(e) // 64)
    ctx.assume(z3.ForAll([e], z3.Implies(z3.And(0 <= e, e <= n.t), H(e))))   # by induction from base and step
    B.prove("round-trip: W(n) == i, i.e. b64ToInt(intToB64(i, l)) == i", W(n.t) == z(i0, "int"), top=True)
    B.prove("result-is-accepted-by-b64ToInt: non-empty, every character in the table",
            z3.And(n.t > 0, z3.Implies(z3.And(0 <= ee.t, ee.t < n.t), VALID(z3.Select(arr, n.t - 1 - ee.t)))), top=True)


@contract(HELP + ":b64ToInt", props=["C26"], name="lemma:induction step of the round trip (quantifier free)")
def roundtrip_step(B):
    """H(e) => H(e+1) with every definition instantiated at e: w = W(e), w1 = W(e+1), q = Q(e), q1 = Q(e+1), p = 2**(6e),
    p6 = 2**(6e+6), d = D(result[n-1-e]).  Pure integer arithmetic (nonlinear), no quantifiers."""
    ctx = B.ctx
    i0, w, w1, q, q1, p, p6, d = [B.int(nm).t for nm in ("i", "w", "w1", "q", "q1", "p", "p6", "d")]
    ctx.assume(z3.And(q >= 0, p > 0))
    ctx.assume(w1 == w + d * p)        # definition of W at e
    ctx.assume(p6 == 64 * p)           # 2**(6e+6) == 64 * 2**(6e)
    ctx.assume(d == q % 64)            # digit fact at e
    ctx.assume(q1 == q / 64)           # definition of Q at e
    B.prove("H/step: i == w + q*p  =>  i == w1 + q1*p6", z3.Implies(i0 == w + q * p, i0 == w1 + q1 * p6), top=True)
    # the facts about << and | on non-negative integers that the bit-operation hook uses as instances are Lean theorems
    import os
    import shutil
    import subprocess
    lean = shutil.which("lean")
    path = os.path.join(os.path.dirname(os.path.dirname(os.path.abspath(__file__))), "lean", "BitLemmas.lean")
    if lean is None or not os.path.exists(path):
        raise Undecided("lean or lean/BitLemmas.lean not available")
    cp = subprocess.run([lean, path], capture_output=True, text=True, timeout=300)
    if cp.returncode != 0 and "error" not in (cp.stdout + cp.stderr):
        raise Undecided("lean did not run: " + (cp.stdout + cp.stderr)[:200])
    B.prove("lean: BitLemmas.lean accepted (x<<k = x*2^k; a<2^k => a|(x<<k) = a+(x<<k); 2^(k+6) = 64*2^k; 2^k>0; a<=63 => a*p<=63*p)",
            cp.returncode == 0 and "sorry" not in open(path).read(), top=True)
    B.prove("canary:i == w1", z3.Implies(i0 == w + q * p, i0 == w1))          # must FAIL (vacuity guard); last


# ------------------------------------------------------------------------------------------------ the other direction

T = ufunc("T", I, I)          # value of the characters from position e upwards: T(n) = 0, T(e) = D(s[n-1-e]) + 64 * T(e+1)


@contract(HELP + ":intToB64", props=["C26"], name="lemma:intToB64(b64ToInt(s), len(s)) == s", z3_ms=3000)
def reverse_lemma(B):
    """for every non-empty string s of table characters: encoding its value with minimum length len(s) gives s back.
    From b64ToInt's postcondition (value W(n) over s) and intToB64's postcondition for (i = W(n), l = n).  Inductions:
        H2(e) downwards:  W(n) == W(e) + T(e) * 2**(6e)       (step: quantifier-free obligation of the next contract)
        K(e)  upwards:    Q(e) == T(e)                        (the quotient sequence of W(n) is the tail value)
        G(e)  upwards:    e >= k => Q(e) == 0
    then digit by digit: result[n-1-e] == E(Q(e) % 64) == E(D(s[n-1-e])) == s[n-1-e], padding 'A' == E(0) where the tail is 0."""
    ctx = B.ctx
    table_axioms(ctx)
    n, k, n2 = B.int("n"), B.int("k"), B.int("n2")
    s = z3.Const("s.arr", z3.ArraySort(I, S))
    r = z3.Const("r.arr", z3.ArraySort(I, S))
    e = z3.Int("e")
    ee = B.int("e")
    ctx.assume(n.t >= 1)
    ctx.assume(z3.ForAll([e], z3.Implies(z3.And(0 <= e, e < n.t), VALID(z3.Select(s, e)))))            # b64ToInt returned, so every character is in the table
    d = lambda t: D_(z3.Select(s, n.t - 1 - t))      # noqa
    # definitions
    ctx.assume(W(0) == 0)
    ctx.assume(T(n.t) == 0)
    ctx.assume(z3.ForAll([e], z3.Implies(z3.And(0 <= e, e < n.t), T(e) == d(e) + 64 * T(e + 1))))
    # i = W(n) is the argument of intToB64; its quotient sequence
    ctx.assume(Q(0) == W(n.t))
    ctx.assume(z3.ForAll([e], z3.Implies(e >= 0, Q(e + 1) == Q(e) / 64)))
    # intToB64's postcondition for (W(n), l = n): result r[0:n2]
    ctx.assume(encode_post(r, z3.IntVal(0), n2.t, n.t, k.t))
    ctx.assume(z3.Or(k.t == 1, Q(k.t - 1) != 0))                     # digit-count-is-minimal (proved in the intToB64 contract)
    # H2 (its step is the quantifier-free contract below), concluded by downward induction from e = n
    B.prove("H2/base: W(n) == W(n) + T(n) * 2**(6n)", W(n.t) == W(n.t) + T(n.t) * pow2(6 * n.t), top=True)
    ctx.assume(z3.ForAll([e], z3.Implies(z3.And(0 <= e, e <= n.t), W(n.t) == W(e) + T(e) * pow2(6 * e))))
    B.prove("value-is-the-tail-from-0: W(n) == T(0)", W(n.t) == T(0), top=True)
    # K: Q(e) == T(e)
    B.prove("K/base: Q(0) == T(0)", Q(0) == T(0), top=True)
    B.prove("K/step: Q(e) == T(e) => Q(e+1) == T(e+1)  (0 <= D < 64)",
            z3.Implies(z3.And(0 <= ee.t, ee.t < n.t, Q(ee.t) == T(ee.t)), Q(ee.t + 1) == T(ee.t + 1)), top=True)
    ctx.assume(z3.ForAll([e], z3.Implies(z3.And(0 <= e, e <= n.t), Q(e) == T(e))))
    # G: zero propagates
    B.prove("G/step: Q(e) == 0 => Q(e+1) == 0", z3.Implies(z3.And(ee.t >= 0, Q(ee.t) == 0), Q(ee.t + 1) == 0), top=True)
    B.prove("G/base: Q(n) == 0 and Q(k) == 0", z3.And(Q(n.t) == 0, Q(k.t) == 0), top=True)
    ctx.assume(z3.ForAll([e], z3.Implies(z3.And(e >= n.t), Q(e) == 0)))        # from Q(n) == T(n) == 0 by G
    ctx.assume(z3.ForAll([e], z3.Implies(z3.And(e >= k.t), Q(e) == 0)))        # from Q(k) == 0 by G
    B.prove("no-more-digits-than-characters: k <= n, so the result has exactly n characters", z3.And(k.t <= n.t, n2.t == n.t), top=True)
    # instances, at the arbitrary position ee, of facts assumed or concluded above (sound: each is an instance of a quantified fact)
    x = ee.t
    c = z3.Select(s, n.t - 1 - x)
    ctx.assume(z3.Implies(z3.And(0 <= x, x < n.t), z3.And(VALID(c), 0 <= D_(c), D_(c) < 64, E_(D_(c)) == c,
                                                          T(x) == D_(c) + 64 * T(x + 1), Q(x) == T(x), Q(x + 1) == T(x + 1))))
    ctx.assume(z3.Implies(z3.And(0 <= x, x < k.t), z3.Select(r, n2.t - 1 - x) == E_(Q(x) % 64)))
    ctx.assume(z3.Implies(z3.And(k.t <= x, x < n2.t), z3.And(z3.Select(r, n2.t - 1 - x) == z3.StringVal("A"), Q(x) == 0, Q(x + 1) == 0)))
    B.prove("digit-for-digit: result[n-1-e] == s[n-1-e] for e < k",
            z3.Implies(z3.And(0 <= ee.t, ee.t < k.t), z3.Select(r, n2.t - 1 - ee.t) == z3.Select(s, n.t - 1 - ee.t)), top=True)
    B.prove("padding/the-character-of-s-there-has-index-0", z3.Implies(z3.And(k.t <= ee.t, ee.t < n.t), D_(c) == 0), top=True)
    B.prove("padding/so-it-is-'A'", z3.Implies(z3.And(k.t <= ee.t, ee.t < n.t), c == z3.StringVal("A")), top=True)
    B.prove("padding: result[n-1-e] == 'A' == s[n-1-e] for k <= e < n",
            z3.Implies(z3.And(k.t <= ee.t, ee.t < n.t), z3.And(z3.Select(r, n2.t - 1 - ee.t) == z3.StringVal("A"),
                                                              z3.Select(s, n.t - 1 - ee.t) == z3.StringVal("A"))), top=True)
    B.prove("round-trip: intToB64(b64ToInt(s), len(s)) == s",
            z3.And(n2.t == n.t, z3.Implies(z3.And(0 <= ee.t, ee.t < n.t), z3.Select(r, n2.t - 1 - ee.t) == z3.Select(s, n.t - 1 - ee.t))), top=True)


@contract(HELP + ":intToB64", props=["C26"], name="lemma:downward induction step of the reverse round trip (quantifier free)")
def reverse_step(B):
    """H2(e+1) => H2(e): i = W(n), w = W(e), w1 = W(e+1), t = T(e), t1 = T(e+1), p = 2**(6e), p6 = 2**(6e+6), d = D(s[n-1-e])"""
    ctx = B.ctx
    i0, w, w1, t, t1, p, p6, d = [B.int(nm).t for nm in ("i", "w", "w1", "t", "t1", "p", "p6", "d")]
    ctx.assume(p > 0)
    ctx.assume(w1 == w + d * p)        # definition of W at e
    ctx.assume(p6 == 64 * p)
    ctx.assume(t == d + 64 * t1)       # definition of T at e
    B.prove("H2/step: i == w1 + t1*p6  =>  i == w + t*p", z3.Implies(i0 == w1 + t1 * p6, i0 == w + t * p), top=True)
    B.prove("canary:i == w", z3.Implies(i0 == w1 + t1 * p6, i0 == w))          # must FAIL (vacuity guard); last

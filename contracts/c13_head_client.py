"""C13 / C19 (client side) -- what the response head parser stores.

hio.core.http.clienting:Respondent.parseHead is interpreted from /repo/src as a generator under contract (yield None = waiting,
resumed after the environment appended bytes / closed the connection; the loop over interim `100 Continue` responses is cut, so
ANY number of them is covered).  EXT as in contracts/c14_request.py (parseLine / parseLeader by callee contract,
parseStatusLine splits the status line, Hict, str.lower / strip / rpartition and int(str) uninterpreted or forking).

    every response starts from a FRESH, EMPTY header mapping that then holds exactly the header block of the FINAL (non-100)
    response; status / code = the parsed status, reason stripped, version (1,0) for HTTP/1.0 and 0.9, (1,1) for HTTP/1.x, else
    UnknownProtocol; chunked iff Transfer-Encoding is 'chunked';
    length = the declared non-negative Content-Length when not chunked, else None -- and 0 for 204, 304, 1xx and HEAD;
    redirectant is set exactly for 300/301/302/303/307 WITH a non-empty Location header;
    an event stream (Content-Type text/event-stream) gets an EventSource reading the response body;
    raises only HTTPException subclasses (premature closure, unknown protocol); an already parsed head is not parsed again
"""
import z3
from .common import *
from pyvc import builtins as BI
from pyvc.engine import ufunc, Suspend
from .http_responder import Hict, Stub

RESP = "hio.core.http.clienting:Respondent"
HTTPING = "hio.core.http.httping"
S = z3.StringSort()
LOWER = ufunc("str_lower", S, S)
STRIPS = ufunc("str_strip", S, S)
TOINT = ufunc("int_of_str", S, z3.IntSort())
FIELD_TYPES.setdefault(RESP, {}).update({"headed": "bool", "closed": "bool", "chunked": "bool", "dictable": "bool"})
REDIRECTS = (300, 301, 302, 303, 307)


class EarlierSource:
    """the EventSource of an earlier response on the same Respondent (reconnect)"""

    def truth(self, ctx, r):
        return True

    def setattr(self, ctx, r, name, v):
        pass

    def m_makeParser(self, ctx, r, a, k):
        return None


class Gen:
    MAY_WAIT = True      # waits (and closure while waiting) are explored in the content-type focus only: they do not depend on headers

    def __init__(self, name, value):
        self.name, self.value = name, value
        self.calls = 0
        self.closed = False

    def m___next__(self, ctx, r, a, k):
        if self.closed:
            # next() on a generator that was closed raises StopIteration (inside a generator: RuntimeError for its caller)
            raise PyExc(ExcVal(StopIteration, ()))
        self.calls += 1
        if self.calls == 1 and Gen.MAY_WAIT and ctx.fork(2, self.name + "-ready") == 1:
            return None
        return self.value

    def m_close(self, ctx, r, a, k):
        self.closed = True


def respondent_parse_head(B, focus):
    ctx = B.ctx
    log = ctx.ghost["log"] = []
    made, updates = [], []

    class Headers(Hict):
        def __init__(self_, c, lg):
            super().__init__(c, lg)
            self_.has["location"] = c.fresh("bool", "has.location")
            self_.val["location"] = c.fresh("str", "hdr.location")

        def m_get(self_, c, r, a, k):
            key = conc(a[0]).lower()
            if c.branch(z(self_.has[key]), "has-" + key):
                return self_.val[key]
            return a[1] if len(a) > 1 else None

        def m_update(self_, c, r, a, k):
            updates.append((self_, a[0]))

    # the head rules fall into two independent groups; each path looks at one of them with the other group's headers absent

    def mk_hict(interp, cls, a, k):
        h = Headers(ctx, log)
        if focus == "content-type":
            for kk in ("transfer-encoding", "content-length", "location"):
                h.has[kk] = False
        else:
            h.has["content-type"] = False
        made.append(h)
        return B.ext(h)
    B.prog.class_models["hio.help.hicting:Hict"] = mk_hict
    leaders = []

    def parse_leader(c, a, k):
        g = Gen("leader", c.fresh("u:Headers", "block%d" % len(leaders)))
        g.kind = conc(k.get("kind"))
        leaders.append(g)
        return c.alloc("ext", init={"model": g})
    B.prog.modular[HTTPING + ":parseLine"] = Stub(lambda c, a, k: c.alloc("ext", init={"model": Gen("line", c.fresh("bytes", "statusline"))}))
    B.prog.modular[HTTPING + ":parseLeader"] = Stub(parse_leader)
    statuses = []

    def parse_status(c, a, k):
        st = 100 if c.fork(2, "interim-100") == 1 else c.fresh("int", "status")
        if not isinstance(st, int):
            c.assume(st.t != 100)
            if focus == "content-type":
                c.assume(st.t == 200)
        ver = ("HTTP/1.0", "HTTP/1.1", "HTTP/2.0")[c.fork(3, "version")] if not isinstance(st, int) and focus != "content-type" else "HTTP/1.1"
        statuses.append((ver, st, c.fresh("str", "reason")))
        return statuses[-1]
    B.prog.modular[HTTPING + ":parseStatusLine"] = Stub(parse_status)
    B.prog.text_models["strip"] = lambda c, s, a, k: SV(STRIPS(z(s)), "str")
    B.prog.text_models["lower"] = lambda c, s, a, k: SV(LOWER(z(s)), "str")
    if focus == "content-type":
        # only membership tests are made on the lowered content type: `'text/event-stream' in ct.lower()` is the uninterpreted
        # predicate MENTIONS(ct, 'text/event-stream') (no string solving needed)
        class Lowered:
            def __init__(self_, t):
                self_.t = t

            def contains(self_, c, r, item):
                return ufunc("mentions_" + "".join(ch if ch.isalnum() else "_" for ch in conc(item)), S, z3.BoolSort())(self_.t)
        B.prog.text_models["lower"] = lambda c, s, a, k: c.alloc("ext", init={"model": Lowered(z(s))})
    B.prog.text_models["rpartition"] = lambda c, s, a, k: (c.fresh("str", "rp.head"), a[0], c.fresh("str", "rp.tail"))

    def to_int(c, a, k):
        if isinstance(a[0], SV) and a[0].ty == "str":
            if c.fork(2, "int-parse") == 1:
                raise py_exc(ValueError, "invalid literal for int()")
            return SV(TOINT(z(a[0])), "int")
        return int(conc(a[0]))
    B.prog.externals["builtins.int"] = to_int
    # EventSource is the REAL class (its __init__ / makeParser are interpreted): what matters is which buffer it reads afterwards
    earlier_buf = B.buf(hint="earlier-body")
    evq = B.deque([])
    earlier = B.obj(HTTPING + ":EventSource", hint="earlier-source", raw=earlier_buf, events=evq, dictable=False, parser=None, leid=None, bom=None,
                    retry=None, ended=None, closed=None)
    old_headers = B.ext(Hict(ctx, log))
    head_request = B.choice(False, True, label="HEAD-request")
    body = B.buf(hint="body")
    self = B.obj(RESP, hint="respondent", msg=B.buf(hint="msg"), headers=old_headers, body=body, events=evq, method="HEAD" if head_request else "GET",
                 status=None, code=None, reason=None, version=None, length=None, encoding=None, jsoned=None, evented=None, persisted=None,
                 redirectant=None, eventSource=earlier if (focus == "content-type" and B.choice(False, True, label="event-source-of-an-earlier-response")) else None)
    Gen.MAY_WAIT = focus == "content-type"
    B.virtual(self, "checkPersisted", lambda c, a, k: log.append(("checkPersisted",)))
    headed0 = z(ctx.st(self)["headed"])

    def havoc(interp, fr):
        ctx.st(self)["closed"] = ctx.fresh("bool", "closed*")
    # loop invariant: the status-line parser the next turn will call next() on is OPEN (next() on a closed generator raises
    # StopIteration, which leaves a generator as RuntimeError -- not an HTTPException: it would escape Client.service)
    B.prog.spec_env["line_open"] = ModelFn(lambda c, a, k: not c.st(a[0])["model"].closed, "spec:line_open")
    B.loop(RESP + ".parseHead", 0, invariant=["line_open(lineParser)"], modifies=[havoc])
    yields = []

    def on_yield(interp, fr, e, v):
        yields.append(v)
        if v is True:
            raise Suspend(v, e)
        ctx.st(self)["closed"] = ctx.fresh("bool", "closed'")
        return None
    B.call(self, qual=RESP + ".parseHead", yield_handler=on_yield)
    st = ctx.st(self)
    from pyvc import source
    if B.raised():
        B.handled = True
        B.prove("raises-only-http-exceptions", bool(B.raised(source.class_by_qual(HTTPING + ":HTTPException"))), top=True)
        unknown = bool(statuses) and statuses[-1][0] == "HTTP/2.0" and not isinstance(statuses[-1][1], int)
        B.prove("raises-only-for-a-closed-connection-or-an-unknown-protocol", z3.Or(z(st["closed"]), z3.BoolVal(unknown)), top=True)
        B.no_other_exception()
        return
    B.no_other_exception()
    if B.returned():
        B.prove("returns-without-parsing-only-when-the-head-was-parsed-already", z3.And(headed0, z3.BoolVal(not made)), top=True)
        return
    ver, status, reason = statuses[-1]
    B.prove("ends-with-yield-True-after-only-None-yields", yields[-1] is True and all(y is None for y in yields[:-1]), top=True)
    B.prove("fresh-empty-header-mapping-per-response", len(made) == 1 and st["headers"] is not old_headers and ctx.st(st["headers"])["model"] is made[0], top=True)
    final = [g for g in leaders if g.kind == "leader header line"]
    B.prove("headers-are-exactly-the-final-responses-header-block", len(final) == 1 and len(updates) == 1 and updates[0][0] is made[0] and
            updates[0][1] is final[0].value, top=True)
    B.prove("status-and-code-are-the-final-non-100-status", st["status"] is status and st["code"] is status and not isinstance(status, int), top=True)
    B.prove("reason-stripped", z(st["reason"]) == STRIPS(z(reason)), top=True)
    B.prove("version-mapping", conc(st["version"]) == ((1, 0) if ver in ("HTTP/1.0", "HTTP/0.9") else (1, 1)) and ver != "HTTP/2.0", top=True)
    h = made[0]
    te = z3.And(z(h.has["transfer-encoding"]), z3.Length(z(h.val["transfer-encoding"])) > 0, LOWER(z(h.val["transfer-encoding"])) == z3.StringVal("chunked"))
    B.prove("chunked-iff-transfer-encoding-chunked", z(st["chunked"]) == te, top=True)
    sz = z(status, "int")
    bodiless = z3.Or(sz == 204, sz == 304, z3.And(100 <= sz, sz < 200), z3.BoolVal(head_request))
    cl_ok = z3.And(z(h.has["content-length"]), z3.Length(z(h.val["content-length"])) > 0, z3.Not(te))
    if st["length"] is None:
        B.prove("no-length-only-for-a-bodied-response-without-a-usable-content-length", z3.Not(bodiless), top=True)
    else:
        L = z(st["length"], "int")
        B.prove("length-0-for-bodiless-responses-else-the-declared-non-negative-content-length",
                z3.If(bodiless, L == 0, z3.And(cl_ok, L >= 0, L == TOINT(z(h.val["content-length"])))), top=True)
    want_redirect = z3.And(z3.Or(*[sz == c_ for c_ in REDIRECTS]), z(h.has["location"]), z3.Length(z(h.val["location"])) > 0)
    B.prove("redirectant-exactly-for-a-redirect-status-with-a-location", z3.BoolVal(st["redirectant"] is True) == want_redirect and True, top=True)
    B.prove("redirectant-otherwise-untouched", st["redirectant"] in (True, None), top=True)
    if conc(st["evented"]) is True:
        # (whatever an earlier response left behind: its EventSource may read a buffer that is no longer the response body)
        es = st["eventSource"]
        B.prove("the-event-source-of-an-event-stream-response-reads-THIS-responses-body (whatever an earlier response left behind)",
                isinstance(es, Ref) and es.kind == "obj" and ctx.st(es).get("raw") is st["body"] and ctx.st(es).get("parser") is not None, top=True)
        B.prove("and-it-feeds-the-respondents-event-queue", isinstance(es, Ref) and ctx.st(es).get("events") is st["events"], top=True)
    B.prove("marked-headed", conc(st["headed"]) is True and ("checkPersisted",) in log, top=True)


@contract(RESP + ".parseHead", props=["C13", "C19"], name=RESP + ".parseHead[framing and redirect rules; any number of 100-continue responses]", z3_ms=3000)
def respondent_parse_head_framing(B):
    respondent_parse_head(B, "framing-and-redirect")


@contract(RESP + ".parseHead", props=["C13", "C15", "C19"], name=RESP + ".parseHead[content-type rules, event stream source]", z3_ms=600)
def respondent_parse_head_ctype(B):
    respondent_parse_head(B, "content-type")

"""Shared sidecar pieces: field types, external models, spec functions, the Prog factory."""
import z3
from pyvc.spec import Prog, contract, REGISTRY
from pyvc.values import SV, Ref, ExcVal, ModelFn, Undecided, z, conc, ty_of
from pyvc import engine as E
from pyvc.engine import PyExc, py_exc, mk

FIELD_TYPES = {}
EXTERNALS = {}
TEXT_MODELS = {}
SPEC_ENV = {}
PURE_FOREIGN = set()
CLASS_MODELS = {}
TYPE_MAKERS = {}


def make_prog():
    p = Prog()
    p.field_types = FIELD_TYPES
    p.externals = dict(EXTERNALS)
    p.text_models = dict(TEXT_MODELS)
    p.spec_env = dict(SPEC_ENV)
    p.pure_foreign = set(PURE_FOREIGN)
    p.class_models = dict(CLASS_MODELS)
    p.type_makers = dict(TYPE_MAKERS)
    return p


def external(name):
    def deco(fn):
        EXTERNALS[name] = fn
        return fn
    return deco


def specfn(name):
    def deco(fn):
        SPEC_ENV[name] = ModelFn(lambda ctx, a, k: fn(ctx, *a, **k), "spec:" + name)
        return fn
    return deco


# ---------------------------------------------------------------- clocks (C07, C08)
# EXT time.time(): ghost true time `tau` is monotone; the clock reads tau + off; each reading lets an
# arbitrary amount of true time pass and lets the offset jump BACKWARDS by an arbitrary amount
# (forward jumps are excluded by the statement of C07/C08).  Contracts that want a steady clock
# assume ghost off unchanged.
@external("time.time")
def _time_time(ctx, args, kwargs):
    g = ctx.ghost
    if "clock" not in g:
        raise Undecided("time.time() without a clock ghost (contract must declare one)")
    return g["clock"](ctx)

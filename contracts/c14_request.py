"""C14 (server side) -- what the request head parser stores and what the WSGI environment is built from.

hio.core.http.serving:Requestant.parseHead (a generator: yields None while waiting, True when the head is parsed) and
Server.buildEnviron are interpreted from /repo/src.

EXT (callee contracts / library): httping.parseLine and httping.parseLeader are incremental parsers whose next() yields None until
a complete line / header block is in the buffer and then yields it (parseLine: contracts/http_parse.py; parseLeader: native
tier); httping.parseRequestLine splits the start line into (method, url, version); urllib urlsplit / unquote / quote are
uninterpreted; Hict is a case-insensitive mapping; int(str) raises ValueError or returns a value.

parseHead    every request starts from a FRESH, EMPTY header mapping (nothing of an earlier request on the same connection
             survives) which then holds exactly the parsed header block;
             method = the start line's method; path = UNQUOTE(urlsplit(url).path); query = urlsplit(url).query left quoted;
             version (1,0) for HTTP/1.0 else (1,1); an unknown protocol or bad url raises an HTTPException subclass;
             chunked iff Transfer-Encoding is 'chunked' (case-insensitively); length: None when chunked, the declared
             Content-Length when it is a non-negative integer, None when it is not, 0 when there is none;
             an already parsed head is not parsed again; waiting (no complete line yet) changes nothing but the fresh mapping
buildEnviron REQUEST_METHOD is the method; PATH_INFO = QUOTE(path); QUERY_STRING is the query as received; wsgi.input reads the
             body bytes; CONTENT_TYPE / CONTENT_LENGTH from the header mapping / parsed length; every received header h appears
             as HTTP_<H> with its value; a new dict per request
So method, path (quote after unquote), query, header values and body bytes reach the application as the parser stored them.
"""
import z3
from .common import *
from pyvc import builtins as BI
from pyvc.engine import ufunc
from .http_responder import Hict, Stub

REQT = "hio.core.http.serving:Requestant"
HSERVER = "hio.core.http.serving:Server"
S = z3.StringSort()
UNQUOTE = ufunc("unquote", S, S)
QUOTE = ufunc("quote", S, S)
LOWER = ufunc("str_lower", S, S)
UPPER = ufunc("str_upper", S, S)
REPL = ufunc("dash_to_underscore", S, S)
TOINT = ufunc("int_of_str", S, z3.IntSort())
FIELD_TYPES[REQT] = {"headed": "bool", "closed": "bool", "chunked": "bool"}


class Gen:
    """an incremental parser generator: next() is None (fork) until it yields its value"""

    def __init__(self, log, name, value, may_wait=True):
        self.log, self.name, self.value, self.may_wait = log, name, value, may_wait
        self.calls = 0
        self.closed = False

    def m___next__(self, ctx, r, a, k):
        self.calls += 1
        if self.may_wait and self.calls == 1 and ctx.fork(2, self.name + "-ready") == 1:
            self.log.append((self.name, "wait"))
            return None
        self.log.append((self.name, "value"))
        return self.value

    def m_close(self, ctx, r, a, k):
        self.closed = True


@contract(REQT + ".parseHead", props=["C14"])
def requestant_parse_head(B):
    ctx = B.ctx
    log = ctx.ghost["log"] = []
    made = []

    updates = []

    class Headers(Hict):
        def m_get(self_, c, r, a, k):
            key = conc(a[0]).lower()
            if c.branch(z(self_.has[key]), "has-" + key):
                return self_.val[key]
            return a[1] if len(a) > 1 else None

        def m_update(self_, c, r, a, k):
            updates.append((self_, a[0]))

    def mk_hict(interp, cls, a, k):
        h = Headers(ctx, log)
        made.append(h)
        return B.ext(h)
    B.prog.class_models["hio.help.hicting:Hict"] = mk_hict
    line = B.bytes("line")
    leader = B.uid("Headers", "leader")
    gens = {}

    def parse_line(c, a, k):
        gens["line"] = Gen(log, "line", line)
        return c.alloc("ext", init={"model": gens["line"]})

    def parse_leader(c, a, k):
        gens["leader"] = Gen(log, "leader", leader)
        return c.alloc("ext", init={"model": gens["leader"]})
    B.prog.modular["hio.core.http.httping:parseLine"] = Stub(parse_line)
    B.prog.modular["hio.core.http.httping:parseLeader"] = Stub(parse_leader)
    method, url = B.of("str", "method"), B.of("str", "url")
    ver = B.choice("HTTP/1.0", "HTTP/1.1", "HTTP/1.9", "HTTP/2.0", label="version")
    B.prog.modular["hio.core.http.httping:parseRequestLine"] = Stub(lambda c, a, k: (method, url, ver))
    B.prog.text_models["strip"] = lambda c, s, a, k: s                      # EXT: url without surrounding blanks
    B.prog.text_models["lower"] = lambda c, s, a, k: SV(LOWER(z(s)), "str")
    B.prog.text_models["rpartition"] = lambda c, s, a, k: (c.fresh("str", "rp.head"), a[0], c.fresh("str", "rp.tail"))     # only feeds .encoding
    sp = dict(path=B.of("str", "sp.path"), query=B.of("str", "sp.query"), scheme=B.of("str", "sp.scheme"), fragment=B.of("str", "sp.fragment"),
              hostname=B.of("str", "sp.hostname"))
    badurl = B.choice(False, True, label="url-port-invalid")

    class Splits:
        def getattr(self, c, r, name):
            if name == "port":
                if badurl:
                    raise py_exc(ValueError, "Port out of range 0-65535")
                return c.fresh("int", "port")
            return sp[name]
    B.prog.externals["urllib.parse.urlsplit"] = lambda c, a, k: c.alloc("ext", init={"model": Splits()})
    B.prog.externals["urllib.parse.unquote"] = lambda c, a, k: SV(UNQUOTE(z(a[0])), "str")

    def to_int(c, a, k):
        if isinstance(a[0], SV) and a[0].ty == "str":
            if c.fork(2, "int-parse") == 1:
                raise py_exc(ValueError, "invalid literal for int()")
            return SV(TOINT(z(a[0])), "int")
        return int(conc(a[0]))
    B.prog.externals["builtins.int"] = to_int
    old_headers = B.ext(Hict(ctx, log))
    self = B.obj(REQT, hint="requestant", msg=B.buf(hint="msg"), headers=old_headers, method=None, url=None, path=None, query=None,
                 version=None, length=None, encoding=None, jsoned=None, persisted=None, scheme=None, hostname=None, port=None, fragment=None)
    B.virtual(self, "checkPersisted", lambda c, a, k: log.append(("checkPersisted",)))
    headed0 = z(ctx.st(self)["headed"])
    closed0 = z(ctx.st(self)["closed"])
    yields = []

    def on_yield(interp, fr, e, v):
        yields.append(v)
        if v is True:
            raise E.Suspend(v)           # the head is parsed: the step ends here
        return None                      # waiting: resumed later
    B.call(self, qual=REQT + ".parseHead", yield_handler=on_yield)
    st = ctx.st(self)
    if B.raised():
        B.handled = True
        from pyvc import source
        B.prove("raises-only-http-exceptions", bool(B.raised(source.class_by_qual("hio.core.http.httping:HTTPException"))), top=True)
        B.prove("raises-only-for-closed-connection-unknown-protocol-or-bad-url",
                z3.Or(closed0, z3.BoolVal(ver in ("HTTP/2.0",)), z3.BoolVal(badurl)), top=True)
        B.no_other_exception()
        return
    B.no_other_exception()
    if B.returned():
        B.prove("returns-without-parsing-only-when-the-head-was-parsed-already", z3.And(headed0, z3.BoolVal(not made and "line" not in gens)), top=True)
        B.prove("then-nothing-changes", st["headers"] is old_headers and st["method"] is None, top=True)
        return
    # suspended at `yield True`: the head is parsed
    B.prove("ends-with-yield-True-after-only-None-yields", yields[-1] is True and all(y is None for y in yields[:-1]), top=True)
    B.prove("fresh-empty-header-mapping-per-request", len(made) == 1 and st["headers"] is not old_headers and
            isinstance(st["headers"], Ref) and ctx.st(st["headers"])["model"] is made[0], top=True)
    B.prove("headers-are-exactly-the-parsed-header-block", len(updates) == 1 and updates[0][0] is made[0] and updates[0][1] is leader, top=True)
    B.prove("method-as-received", st["method"] is method, top=True)
    B.prove("path-is-the-unquoted-url-path", z(st["path"]) == UNQUOTE(z(sp["path"])), top=True)
    B.prove("query-kept-as-received", st["query"] is sp["query"], top=True)
    B.prove("version-1.0-or-1.1", conc(st["version"]) == ((1, 0) if ver == "HTTP/1.0" else (1, 1)) and ver != "HTTP/2.0", top=True)
    h = made[0]
    te_is_chunked = z3.And(z(h.has["transfer-encoding"]), z3.Length(z(h.val["transfer-encoding"])) > 0,
                           LOWER(z(h.val["transfer-encoding"])) == z3.StringVal("chunked"))
    B.prove("chunked-iff-transfer-encoding-chunked", z(st["chunked"]) == te_is_chunked, top=True)
    if st["length"] is None:
        B.prove("no-length-only-when-chunked-or-content-length-unusable", z3.Or(te_is_chunked, z(h.has["content-length"])), top=True)
    else:
        L = z(st["length"], "int")
        B.prove("length-is-the-declared-content-length-or-0-without-one",
                z3.And(z3.Not(te_is_chunked), L >= 0, z3.If(z3.And(z(h.has["content-length"]), z3.Length(z(h.val["content-length"])) > 0),
                                                            L == TOINT(z(h.val["content-length"])), L == 0)), top=True)
    B.prove("marked-headed-and-persistence-decided-last", conc(st["headed"]) is True and log[-1] == ("checkPersisted",), top=True)
    B.prove("sub-parsers-closed", gens["line"].closed and gens["leader"].closed, top=True)


class BytesIO:
    def __init__(self, data):
        self.data = data


@contract(HSERVER + ".buildEnviron", props=["C14"], name=HSERVER + ".buildEnviron[<=2 headers]")
def server_build_environ(B):
    ctx = B.ctx
    log = ctx.ghost["log"] = []
    B.prog.externals["io.BytesIO"] = lambda c, a, k: c.alloc("ext", init={"model": BytesIO(a[0])})
    B.prog.externals["urllib.parse.quote"] = lambda c, a, k: SV(QUOTE(z(a[0])), "str")
    B.prog.text_models["replace"] = lambda c, s, a, k: SV(REPL(z(s)), "str") if (conc(a[0]), conc(a[1])) == ("-", "_") else (_ for _ in ()).throw(Undecided("replace"))
    B.prog.text_models["upper"] = lambda c, s, a, k: SV(UPPER(z(s)), "str")
    nh = B.choice(0, 1, 2, label="headers")
    hk = [B.of("str", "hkey%d" % i) for i in range(nh)]
    hv = [B.of("str", "hval%d" % i) for i in range(nh)]
    if nh == 2:
        ctx.assume(UPPER(REPL(hk[0].t)) != UPPER(REPL(hk[1].t)))          # two different header names
    ctype = B.of("str", "ctype")

    class Headers:
        def m_get(self, c, r, a, k):
            return ctype if conc(a[0]) == "content-type" else (a[1] if len(a) > 1 else None)

        def m_items(self, c, r, a, k):
            return c.alloc("list", init={"v": list(zip(hk, hv))})
    has_len = B.choice(False, True, label="length-known")
    body = B.buf(hint="body")
    method, path, query = B.of("str", "method"), B.of("str", "path"), B.of("str", "query")

    class Rq:
        def getattr(self, c, r, name):
            vals = dict(body=body, method=method, path=path, query=query, version=(1, 1), headers=hdrs, length=B_len, remoter=rem)
            if name in vals:
                return vals[name]
            raise Undecided("requestant attribute " + name)

    class Rem:
        def attr_ca(self, c, r):
            return ("10.0.0.9", 4000)
    hdrs = B.ext(Headers())
    rem = B.ext(Rem())
    B_len = B.int("length") if has_len else None
    servant = B.obj("hio.core.tcp.serving:Server", hint="servant", eha=("127.0.0.1", 8080))
    self = B.obj(HSERVER, hint="server", servant=servant, scheme="http", name="srv")
    B.prog.text_models["format"] = lambda c, s, a, k: c.fresh("str", "fmt")
    r = B.call(self, B.ext(Rq()), qual=HSERVER + ".buildEnviron")
    B.no_other_exception()
    if not B.returned():
        return
    ok = isinstance(r, Ref) and r.kind == "dict"
    B.prove("returns-a-new-dict", ok, top=True)
    if not ok:
        return
    items = list(ctx.st(r)["v"].values())

    def get(key):
        for k_, v_ in items:
            if not isinstance(k_, SV) and k_ == key:
                return v_
        return None
    B.prove("REQUEST_METHOD-is-the-method", get("REQUEST_METHOD") is method, top=True)
    B.prove("PATH_INFO-is-the-quoted-path", get("PATH_INFO") is not None and _eq(ctx, get("PATH_INFO"), SV(QUOTE(path.t), "str")), top=True)
    B.prove("QUERY_STRING-as-received", get("QUERY_STRING") is query, top=True)
    win = get("wsgi.input")
    B.prove("wsgi.input-reads-the-body-bytes", isinstance(win, Ref) and win.kind == "ext" and ctx.st(win)["model"].data is body, top=True)
    B.prove("CONTENT_TYPE-from-the-headers", get("CONTENT_TYPE") is ctype, top=True)
    B.prove("CONTENT_LENGTH-iff-the-length-is-known", (get("CONTENT_LENGTH") is not None) == has_len, top=True)
    for i in range(nh):
        want = z3.Concat(z3.StringVal("HTTP_"), UPPER(REPL(hk[i].t)))
        found = [v_ for k_, v_ in items if isinstance(k_, SV) and z3.eq(z3.simplify(k_.t), z3.simplify(want))]
        B.prove("header-%d-reaches-the-application-as-HTTP_<NAME>-with-its-value" % i, len(found) == 1 and found[0] is hv[i], top=True)
    B.prove("nothing-else-but-wsgi-and-cgi-variables", len([k_ for k_, _ in items if isinstance(k_, SV)]) == nh, top=True)


def _eq(ctx, a, b):
    v = E.values_equal(ctx, a, b)
    return v if isinstance(v, bool) else mk(v, "bool")


# ------------------------------------------------------------------------------------------------ client side: the path a Requester keeps

REQR = "hio.core.http.clienting:Requester"


class StopHere(Exception):
    """raised by the header mapping model: the analysed prefix of build() (target and start line) ends where headers begin"""


@contract(REQR + ".build", props=["C14"], name=REQR + ".build[prefix: request target]")
def requester_build_target(B):
    """the part of build() that forms the request target.  The Requester keeps the DECODED path (so a later build / rebuild that
    does not pass the path again quotes it exactly once more, not twice); what goes on the wire is QUOTE(path); scheme, port and
    hostname in the path argument must agree with the open connection (ValueError otherwise); the query arguments are merged by
    updateQargsQuery.  The rest of build() (headers, body, JSON, form data) is covered by the bounded tier."""
    ctx = B.ctx
    log = ctx.ghost["log"] = []
    path0 = B.of("str", "path")
    sp = dict(path=B.of("str", "sp.path"), query=B.of("str", "sp.query"), fragment=B.of("str", "sp.fragment"))
    agree = B.choice(True, False, label="target-agrees-with-connection")

    class Splits:
        def getattr(self, c, r, name):
            if name in sp:
                return sp[name]
            if name in ("scheme", "hostname"):
                return "" if agree else c.fresh("str", "other." + name)
            if name == "port":
                return None if agree else c.fresh("int", "other.port")
            if name == "geturl":
                return ModelFn(lambda cc, aa, kk: cc.fresh("str", "target"), "geturl")
            raise Undecided("urlsplit attribute " + name)
    splits_of = []

    def urlsplit(c, a, k):
        splits_of.append(a[0])
        return c.alloc("ext", init={"model": Splits()})
    B.prog.externals["urllib.parse.urlsplit"] = urlsplit
    quoted = []

    def quote(c, a, k):
        quoted.append(a[0])
        return SV(QUOTE(z(a[0])), "str")
    B.prog.externals["urllib.parse.quote"] = quote
    B.prog.text_models["format"] = lambda c, s, a, k: c.fresh("str", "fmt")
    B.prog.text_models["encode"] = lambda c, s, a, k: c.fresh("bytes", "encoded")
    merged = B.uid("Qargs", "merged")
    B.prog.modular["hio.core.http.httping:updateQargsQuery"] = Stub(lambda c, a, k: (log.append(("updateQargsQuery", a[0], a[1])), (merged, c.fresh("str", "query")))[1])

    class Hdrs:
        def contains(self, c, r, key):
            raise PyExc(ExcVal(StopHere, ("headers",)))
    qargs0 = B.uid("Qargs", "qargs")
    self = B.obj(REQR, hint="requester", path=path0, scheme=B.of("str", "scheme"), port=B.int("port"), hostname=B.of("str", "hostname"), qargs=qargs0,
                 fragment=B.of("str", "fragment0"), method=B.of("str", "method"), headers=B.ext(Hdrs()), lines=None, HttpVersionString="HTTP/1.1")
    B.call(self, qual=REQR + ".build")
    st = ctx.st(self)
    if B.raised(ValueError):
        B.handled = True
        B.prove("ValueError-only-when-the-target-names-another-scheme-port-or-host", not agree, top=True)
        B.no_other_exception()
        return
    B.prove("reaches-the-header-section", bool(B.raised(StopHere)), top=True)
    if not B.raised(StopHere):
        return
    B.handled = True
    B.prove("splits-the-path-it-holds", len(splits_of) >= 1 and splits_of[0] is path0, top=True)
    B.prove("keeps-the-DECODED-path (quoting happens on the wire copy only)", st["path"] is sp["path"], top=True)
    B.prove("quotes-that-path-exactly-once-for-the-wire", len(quoted) == 1 and quoted[0] is sp["path"], top=True)
    B.prove("query-arguments-merged-with-the-paths-query", [e for e in log if e[0] == "updateQargsQuery"] == [("updateQargsQuery", qargs0, sp["query"])] and
            st["qargs"] is merged, top=True)

"""C17 -- httping.parseChunk decodes one chunk exactly and rejects bad sizes, whatever the fragmentation of the input.

hio.core.http.httping:parseChunk is interpreted from /repo/src as a generator under contract.  Between activations the
environment appends ARBITRARY bytes to the buffer (every `yield None` resumes after such an append), so the result is proved for
every fragmentation in which each stage waits at most once (the data-wait loop: any number of times, it is cut by an invariant).

EXT (callee contract, contracts/http_parse.py): parseLine(raw, (CRLF,)) yields None while the buffer holds no CRLF and otherwise
consumes and yields the bytes before the EARLIEST CRLF, leaving what follows it.  parseLeader likewise yields the trailer block.
bytes.strip and int(text, 16) are uninterpreted (STRIP, HEXVAL), the per-character hex test is the uninterpreted predicate ISHEX.
Restriction: the size line carries no chunk extension (no ';'); extensions are covered by the bounded tier.

Let L1 be the size line and R1 the stream that follows it (buffer rest plus everything appended later):
    raises HTTPException   iff  STRIP(L1) is empty or not all hex digits, or the bytes after the chunk data are not an empty line
    size                    =   HEXVAL(STRIP(L1))
    size > 0: chunk        ==   the first `size` bytes of R1 -- never fewer, it waits for them --, then the CRLF line after the data
                                is consumed; the buffer afterwards is exactly what followed that CRLF
    size == 0 (last chunk): chunk empty, trailers = the parsed trailer block
    a wait (yield None) before the size line is complete leaves the buffer untouched
"""
import z3
from .common import *
from pyvc import builtins as BI
from pyvc.engine import ufunc, Suspend
from .http_responder import Stub

HTTPING = "hio.core.http.httping"
S = z3.StringSort()
STRIP = ufunc("bytes_strip", S, S)
HEXVAL = ufunc("hexval", S, z3.IntSort())
ISHEX = ufunc("ishex", S, z3.BoolSort())
CRLFZ = z3.StringVal("\r\n")


class LineGen:
    """the callee contract of parseLine on the shared buffer"""

    def __init__(self, ctx, raw, log, name):
        self.ctx, self.raw, self.log, self.name = ctx, raw, log, name
        self.calls = 0
        self.closed = False
        self.line = None
        self.before = None
        self.rest = None

    def m___next__(self, ctx, r, a, k):
        self.calls += 1
        cur = z(ctx.st(self.raw)["v"])
        has = z3.Contains(cur, CRLFZ)
        if self.calls >= 2:
            ctx.assume(has)            # each stage waits at most once in this contract: the second look finds the line complete
        elif not ctx.branch(has, self.name + "-complete"):
            self.log.append((self.name, "wait", len(self.log)))
            return None
        line = ctx.fresh("bytes", self.name)
        rest = ctx.fresh("bytes", self.name + ".rest")
        if self.name == "line0":
            # restriction of this contract: the size line carries no chunk extension; EXT: hex text has a non-negative value
            ctx.assume(z3.Not(z3.Contains(line.t, z3.StringVal(";"))))
            ctx.assume(z3.Implies(z3.And(ISHEX(STRIP(line.t)), z3.Length(STRIP(line.t)) > 0), HEXVAL(STRIP(line.t)) >= 0))
        # the line is what precedes the EARLIEST CRLF (line ++ CRLF has no earlier CRLF: line itself has none and cannot end
        # one, since a CRLF ending inside `line ++ CR` would need the LF that only comes after it)
        ctx.assume(z3.And(cur == z3.Concat(line.t, CRLFZ, rest.t), z3.Not(z3.Contains(line.t, CRLFZ))))
        self.line, self.before, self.rest = line, cur, rest
        ctx.st(self.raw)["v"] = rest
        self.log.append((self.name, "line", len(self.log)))
        return line

    def m_close(self, ctx, r, a, k):
        self.closed = True


class LeaderGen:
    def __init__(self, log, value):
        self.log, self.value = log, value
        self.calls = 0

    def m___next__(self, ctx, r, a, k):
        self.calls += 1
        if self.calls == 1 and ctx.fork(2, "trailer-ready") == 1:
            self.log.append(("leader", "wait", len(self.log)))
            return None
        self.log.append(("leader", "value", len(self.log)))
        return self.value

    def m_close(self, ctx, r, a, k):
        pass


class AllHex:
    def __init__(self, text):
        self.text = text

    def all(self, ctx, r):
        return SV(ISHEX(z(self.text)), "bool")


@contract(HTTPING + ":parseChunk", props=["C17", "C16", "C13"], name=HTTPING + ":parseChunk[any fragmentation; no chunk extension]", z3_ms=3000)
def parse_chunk(B):
    ctx = B.ctx
    log = ctx.ghost["log"] = []
    raw = B.buf(hint="raw")
    raw0 = ctx.st(raw)["v"]
    gens = []

    def parse_line(c, a, k):
        g = LineGen(c, k.get("raw"), log, "line%d" % len(gens))
        g.eols = k.get("eols")
        gens.append(g)
        return c.alloc("ext", init={"model": g})
    B.prog.modular[HTTPING + ":parseLine"] = Stub(parse_line)
    trailer = B.uid("Headers", "trailer")
    B.prog.modular[HTTPING + ":parseLeader"] = Stub(lambda c, a, k: c.alloc("ext", init={"model": LeaderGen(log, trailer)}))
    B.prog.text_models["strip"] = lambda c, s, a, k: SV(STRIP(z(s)), "bytes")
    B.prog.text_models["decode"] = lambda c, s, a, k: c.fresh("str", "decoded")

    def listcomp(interp, e, fr, it):
        if isinstance(it, SV) and it.ty == "bytes":
            return interp.ctx.alloc("ext", init={"model": AllHex(it)})
        return NotImplemented
    B.prog.listcomp_model = listcomp

    def to_int(c, a, k):
        if len(a) == 2 and conc(a[1]) == 16:
            return SV(HEXVAL(z(a[0])), "int")
        raise Undecided("int() other than base 16 in parseChunk")
    B.prog.externals["builtins.int"] = to_int
    B.prog.externals["builtins.bytes"] = lambda c, a, k: a[0] if a else b""
    trails = []

    class Cim:
        def __init__(self):
            self.updates = []

        def truth(self, c, r):
            return bool(self.updates)

        def m_update(self, c, r, a, k):
            self.updates.append(a[0])

    def mk_cim(c, a, k):
        m = Cim()
        trails.append(m)
        return c.alloc("ext", init={"model": m})
    B.prog.externals["multidict._multidict.CIMultiDict"] = mk_cim
    B.prog.externals["multidict.CIMultiDict"] = mk_cim
    marks = {}

    def inv_data(c):
        marks.setdefault("rest1", ctx.st(raw)["v"])        # first evaluated at loop entry: the stream right after the size line
        cur = z(ctx.st(raw)["v"])
        return mk(z3.PrefixOf(z(marks["rest1"]), cur), "bool")
    B.prog.spec_env["inv_data"] = ModelFn(lambda c, a, k: inv_data(c), "spec:inv_data")

    def havoc(interp, fr):
        if "rest1" not in marks:
            marks["rest1"] = ctx.st(raw)["v"]
        marks["stream"] = ctx.fresh("bytes", "stream")
        ctx.st(raw)["v"] = marks["stream"]
    # the data-wait loop `while len(raw) < size: (yield None)` is the 4th loop of parseChunk in source order
    B.loop(HTTPING + ":parseChunk", 3, invariant=["inv_data()"], modifies=[havoc], head=lambda c, fr: marks.setdefault("rest1", ctx.st(raw)["v"]))
    waits = []

    def on_yield(interp, fr, e, v):
        if v is None:
            waits.append(ctx.st(raw)["v"])
            more = ctx.fresh("bytes", "arrived")
            ctx.st(raw)["v"] = E.binop(ctx, __import__("ast").Add(), ctx.st(raw)["v"], more)      # the environment appends
            return None
        raise Suspend(v, e)
    # cut_loop evaluates the invariant at loop entry BEFORE havoc: remember the stream start there
    orig_head = None
    B.call(raw, qual=HTTPING + ":parseChunk", yield_handler=on_yield)
    from pyvc import source
    httpexc = source.class_by_qual(HTTPING + ":HTTPException")
    if not gens or gens[0].line is None:
        B.prove("unreachable: the generator ends only by yielding a chunk or raising", False, top=True)
        return
    L1 = gens[0].line.t
    stripped = STRIP(L1)
    badsize = z3.Or(z3.Length(stripped) == 0, z3.Not(ISHEX(stripped)))
    if B.raised():
        B.handled = True
        B.prove("raises-only-HTTPException", bool(B.raised(httpexc)), top=True)
        endline_bad = z3.BoolVal(False) if len(gens) < 2 or gens[1].line is None else z3.Length(gens[1].line.t) > 0
        B.prove("raises-only-for-a-bad-size-or-a-non-empty-line-after-the-data", z3.Or(badsize, endline_bad), top=True)
        B.no_other_exception()
        return
    B.no_other_exception()
    out = B.outcome[1] if B.outcome and B.outcome[0] == "yield" else None
    B.prove("ends-by-yielding-the-chunk-tuple", isinstance(out, tuple) and len(out) == 4, top=True)
    if not (isinstance(out, tuple) and len(out) == 4):
        return
    size, parms, trl, chunk = out
    B.prove("accepted-size-text-is-non-empty-hex", z3.Not(badsize), top=True)
    B.prove("chunk-framing-lines-end-with-CRLF-only", all(conc(g.eols) == (b"\r\n",) for g in gens), top=True)
    B.prove("size-is-the-hex-value-of-the-size-line", z(size, "int") == HEXVAL(stripped), top=True)
    B.prove("waits-before-the-size-line-left-the-buffer-untouched",
            all(z3.eq(z3.simplify(z(w)), z3.simplify(z(raw0))) for w in waits[:1]) if (log and log[0][1] == "wait") else True, top=True)
    cz = z(BI.as_text(ctx, chunk))
    if "rest1" in marks:
        r1 = z(marks["rest1"])
        B.prove("data-chunk/exactly-size-bytes", z3.And(z(size, "int") > 0, z3.Length(cz) == z(size, "int")), top=True)
        if len(gens) == 2 and gens[1].before is not None and "stream" in marks:
            R = z(marks["stream"])
            B.prove("data-chunk/exactly-the-chunk-is-consumed-before-its-terminating-line",
                    z3.PrefixOf(z3.SubString(R, z(size, "int"), z3.Length(R) - z(size, "int")), gens[1].before), top=True)   # (++ what arrived while waiting)
        B.prove("data-chunk/the-first-size-bytes-of-the-stream-after-the-size-line",
                z3.If(z3.Length(r1) >= z(size, "int"), cz == z3.SubString(r1, 0, z(size, "int")), z3.PrefixOf(r1, cz)), top=True)
        B.prove("data-chunk/terminating-line-is-empty-and-consumed", len(gens) == 2 and gens[1].line is not None and
                _b(z3.Length(gens[1].line.t) == 0), top=True)
        if len(gens) == 2 and gens[1].before is not None:
            B.prove("data-chunk/buffer-afterwards-is-what-followed-the-chunk-and-its-CRLF",
                    z3.And(gens[1].before == z3.Concat(CRLFZ, z(ctx.st(raw)["v"]))), top=True)
    else:
        B.prove("last-chunk/size-zero-no-data", z3.And(z(size, "int") == 0, z3.Length(cz) == 0), top=True)
        B.prove("last-chunk/trailers-are-the-parsed-trailer-block", isinstance(trl, Ref) and len(trails) >= 1 and trails[0].updates == [trailer], top=True)
    B.prove("no-extension-no-parameters", isinstance(parms, Ref) and parms.kind == "dict" and not ctx.st(parms)["v"], top=True)


def _b(x):
    return x if not isinstance(x, bool) else z3.BoolVal(x)

"""C23 -- Durq: the in-memory FIFO queue and its durable copy get the same operations.

hio.base.hier.durqing:Durq.push / pull / clear / extend / sync are interpreted from /repo/src with the in-memory deque of ANY
length (window encoding, values known by identity) and the durable side modelled as what the statement assumes of it:

EXT (assumed; this is C24's subject, checked natively against LMDB): the sub-database entry at the queue's key is a FIFO list:
    add(val) appends and returns True;  put(vals) appends all and returns True;  pop() removes and returns the first value or
    None when empty;  rem() empties it and tells whether it held anything;  cnt() is its length;  getIter() lists it in order;
    pin(vals) replaces it by vals.

Class invariant SYNC (when durable): memory and durable copy have the same length and the same values in the same order.

push(val)     val appended at the right end of BOTH (None ignored: nothing changes, False); SYNC kept
pull()        the first value leaves BOTH and is returned; empty -> None (or IndexError when not emptive), nothing changes; SYNC kept
clear()       BOTH emptied; SYNC kept
extend(vals)  (<= 2 values per call) all appended in order to BOTH; empty -> False, nothing changes
sync()        durable copy non-empty -> memory becomes exactly the durable copy (this is what reopening relies on);
              durable copy empty -> the durable copy becomes exactly memory
A non-durable queue (no store, no key, or store closed) never touches the store.
HierError ("Mismatch between cache and durable") is never raised from a SYNC state.
"""
import z3
from .common import *
from pyvc import builtins as BI
from pyvc.engine import usort, ufunc

DURQ = "hio.base.hier.durqing:Durq"
VAL = usort("Dom")
I = z3.IntSort()


class DomModel:
    def isinstance(self, ctx, v, tt):
        return True            # every queued value is a RegDom / IceRegDom (the type check of the real code is not the subject)


class Store:
    """the durable FIFO list at the queue's key: an SMT array window (MA, lo, hi)"""

    def __init__(self, ctx, name="sdb"):
        self.MA = z3.Const(name + ".a", z3.ArraySort(I, VAL))
        self.lo = z3.Int(name + ".lo")
        self.hi = z3.Int(name + ".hi")
        ctx.assume(self.lo <= self.hi)
        self.calls = []
        self.opened = ctx.fresh("bool", name + ".opened")

    def truth(self, ctx, r):
        return True

    def attr_db(self, ctx, r):
        st = self

        class Db:
            def truth(self_, c, rr):
                return True

            def attr_opened(self_, c, rr):
                return st.opened
        return ctx.alloc("ext", init={"model": Db()})

    def m_add(self, ctx, r, a, k):
        self.calls.append("add")
        v = k.get("val", a[-1] if a else None)
        self.MA = z3.Store(self.MA, self.hi, z(v))
        self.hi = self.hi + 1
        return True

    def m_put(self, ctx, r, a, k):
        self.calls.append("put")
        vals = k.get("vals", a[-1] if a else None)
        for v in BI.concrete_iter(ctx, vals, must=True):
            self.MA = z3.Store(self.MA, self.hi, z(v))
            self.hi = self.hi + 1
        return True

    def m_pop(self, ctx, r, a, k):
        self.calls.append("pop")
        if not ctx.branch(self.hi > self.lo, "store-nonempty"):
            return None
        v = SV(z3.Select(self.MA, self.lo), "u:Dom")
        self.lo = self.lo + 1
        return v

    def m_rem(self, ctx, r, a, k):
        self.calls.append("rem")
        had = ctx.branch(self.hi > self.lo, "store-nonempty")
        self.hi = self.lo
        return bool(had)

    def m_cnt(self, ctx, r, a, k):
        self.calls.append("cnt")
        return mk(self.hi - self.lo, "int")

    def m_getIter(self, ctx, r, a, k):
        self.calls.append("getIter")
        return ctx.alloc("wseq", init={"arrs": [self.MA], "lo": self.lo, "hi": self.hi, "shape": ("u:Dom",), "kind2": "list"})

    def m_pin(self, ctx, r, a, k):
        self.calls.append("pin")
        vals = a[1] if len(a) > 1 else k.get("vals")
        if isinstance(vals, Ref) and vals.kind == "wseq":
            s = ctx.st(vals)
            self.MA, self.lo, self.hi = s["arrs"][0], s["lo"], s["hi"]
            return True
        raise Undecided("pin of %r" % (vals,))


def setup(B, sync=True):
    ctx = B.ctx
    B.prog.usort_models["Dom"] = DomModel()
    d1 = z3.Const("d!ax", VAL)
    ctx.assume(z3.ForAll([d1], ufunc("truthy_Dom", VAL, z3.BoolSort())(d1)))
    deq = BI.wseq_fresh(ctx, ("u:Dom",), "deq", "deque")
    s = ctx.st(deq)
    A, lo, hi = s["arrs"][0], s["lo"], s["hi"]
    how = B.choice("durable", "no-store", "no-key", label="durability")
    store = Store(ctx)
    sref = B.ext(store) if how != "no-store" else None
    key = "q" if how != "no-key" else None
    if sync:
        ctx.assume(same_seq(A, lo, hi, store.MA, store.lo, store.hi))
    self = B.obj(DURQ, hint="durq", _deq=deq, _sdb=sref, _key=key, _stale=B.bool("stale"))
    durable = z3.And(z3.BoolVal(how == "durable"), z(store.opened))
    return self, dict(deq=deq, A=A, lo=lo, hi=hi, store=store, durable=durable, how=how, M0=(store.MA, store.lo, store.hi))


def mem(B, m):
    s = B.ctx.st(m["deq"])
    return s["arrs"][0], s["lo"], s["hi"]


def synced(B, m):
    A, lo, hi = mem(B, m)
    st = m["store"]
    return same_seq(A, lo, hi, st.MA, st.lo, st.hi)


def same_seq(X, xlo, xhi, Y, ylo, yhi):
    """equal sequences, stated over the ABSOLUTE index of X (so that dropping the first element of both is the same formula
    over a narrower range: no arithmetic instantiation needed)"""
    i = z3.Int("i!same")
    off = z3.simplify(ylo - xlo)
    return z3.And(xhi - xlo == yhi - ylo, z3.ForAll([i], z3.Implies(z3.And(xlo <= i, i < xhi), z3.Select(X, i) == z3.Select(Y, i + off))))


def store_untouched_unless_durable(B, m):
    st = m["store"]
    B.prove("store-never-touched-when-not-durable", z3.Implies(z3.Not(m["durable"]), z3.BoolVal(not st.calls)), top=True)


def no_mismatch(B):
    B.no_other_exception()
    B.prove("no-cache-durable-mismatch-from-a-synced-state", not B.raised(), top=True)


@contract(DURQ + ".push", props=["C23"], name=DURQ + ".push[queue of any length]", z3_ms=4000)
def durq_push(B):
    self, m = setup(B)
    ctx = B.ctx
    none = B.choice(False, True, label="val-is-None")
    val = None if none else B.uid("Dom", "val")
    r = B.call(self, val, qual=DURQ + ".push")
    no_mismatch(B)
    if not B.returned():
        return
    A, lo, hi = mem(B, m)
    if none:
        B.prove("None-is-ignored", r is False and not m["store"].calls, top=True)
        B.prove("memory-unchanged", z3.And(A == m["A"], lo == m["lo"], hi == m["hi"]), top=True)
    else:
        B.prove("reports-True", r is True, top=True)
        B.prove("appended-at-the-right-end-of-memory", z3.And(lo == m["lo"], hi == m["hi"] + 1, z3.Select(A, m["hi"]) == val.t, same_seq(A, lo, m["hi"], m["A"], m["lo"], m["hi"])), top=True)
        B.prove("memory-and-durable-copy-still-equal", z3.Implies(m["durable"], synced(B, m)), top=True)
    store_untouched_unless_durable(B, m)


@contract(DURQ + ".pull", props=["C23"], name=DURQ + ".pull[queue of any length]", z3_ms=4000)
def durq_pull(B):
    self, m = setup(B)
    ctx = B.ctx
    emptive = B.choice(True, False, label="emptive")
    r = B.call(self, emptive, qual=DURQ + ".pull")
    A, lo, hi = mem(B, m)
    empty = m["hi"] == m["lo"]
    if B.raised(IndexError):
        B.handled = True
        B.prove("IndexError-only-when-empty-and-not-emptive", z3.And(empty, z3.BoolVal(not emptive)), top=True)
        B.prove("memory-unchanged", z3.And(A == m["A"], lo == m["lo"], hi == m["hi"]), top=True)
        B.no_other_exception()
        return
    no_mismatch(B)
    if not B.returned():
        return
    if r is None:
        B.prove("None-only-when-empty", empty, top=True)
        B.prove("memory-unchanged", z3.And(A == m["A"], lo == m["lo"], hi == m["hi"]), top=True)
    else:
        B.prove("returns-the-first-value-FIFO", z3.And(z3.Not(empty), z(r) == z3.Select(m["A"], m["lo"])), top=True)
        B.prove("first-value-leaves-memory-rest-in-order", z3.And(A == m["A"], lo == m["lo"] + 1, hi == m["hi"]), top=True)
    B.prove("memory-and-durable-copy-still-equal", z3.Implies(m["durable"], synced(B, m)), top=True)
    store_untouched_unless_durable(B, m)


@contract(DURQ + ".clear", props=["C23"], name=DURQ + ".clear[queue of any length]", z3_ms=4000)
def durq_clear(B):
    self, m = setup(B)
    r = B.call(self, qual=DURQ + ".clear")
    no_mismatch(B)
    if not B.returned():
        return
    A, lo, hi = mem(B, m)
    B.prove("memory-emptied", hi == lo, top=True)
    B.prove("reports-whether-anything-was-there", z3.BoolVal(r is True) == (m["hi"] > m["lo"]), top=True)
    B.prove("memory-and-durable-copy-still-equal", z3.Implies(m["durable"], synced(B, m)), top=True)
    store_untouched_unless_durable(B, m)


@contract(DURQ + ".extend", props=["C23"], name=DURQ + ".extend[queue of any length, <=2 new values]", z3_ms=4000)
def durq_extend(B):
    self, m = setup(B)
    ctx = B.ctx
    n = B.choice(0, 1, 2, label="new-values")
    vals = [B.uid("Dom", "v%d" % i) for i in range(n)]
    r = B.call(self, B.list(vals), qual=DURQ + ".extend")
    no_mismatch(B)
    if not B.returned():
        return
    A, lo, hi = mem(B, m)
    if n == 0:
        B.prove("empty-extension-changes-nothing", r is False and not m["store"].calls, top=True)
        B.prove("memory-unchanged", z3.And(A == m["A"], lo == m["lo"], hi == m["hi"]), top=True)
    else:
        B.prove("all-new-values-appended-in-order", z3.And(lo == m["lo"], hi == m["hi"] + n, same_seq(A, lo, m["hi"], m["A"], m["lo"], m["hi"]),
                                                          *[z3.Select(A, m["hi"] + i) == vals[i].t for i in range(n)]), top=True)
        B.prove("memory-and-durable-copy-still-equal", z3.Implies(m["durable"], synced(B, m)), top=True)
    store_untouched_unless_durable(B, m)


@contract(DURQ + ".sync", props=["C23"], name=DURQ + ".sync[any memory, any durable copy]", z3_ms=4000)
def durq_sync(B):
    """sync() from an ARBITRARY (not necessarily equal) pair: this is what reopening the store and resyncing relies on"""
    self, m = setup(B, sync=False)
    ctx = B.ctx
    force = B.choice(False, True, label="force")
    stale = z(ctx.st(self)["_stale"])
    M, mlo, mhi = m["M0"]
    r = B.call(self, force, qual=DURQ + ".sync")
    B.no_other_exception()
    if not B.returned():
        return
    A, lo, hi = mem(B, m)
    st = m["store"]
    act = z3.And(m["durable"], z3.Or(stale, z3.BoolVal(force)))
    B.prove("does-nothing-unless-durable-and-stale-or-forced", z3.Implies(z3.Not(act), z3.And(A == m["A"], lo == m["lo"], hi == m["hi"], z3.BoolVal(r is None))), top=True)
    B.prove("durable-copy-non-empty: memory becomes exactly the durable copy", z3.Implies(z3.And(act, mhi > mlo), z3.And(same_seq(A, lo, hi, M, mlo, mhi), same_seq(st.MA, st.lo, st.hi, M, mlo, mhi))), top=True)
    B.prove("durable-copy-empty: the durable copy becomes exactly memory", z3.Implies(z3.And(act, mhi == mlo), z3.And(same_seq(st.MA, st.lo, st.hi, m["A"], m["lo"], m["hi"]), same_seq(A, lo, hi, m["A"], m["lo"], m["hi"]))), top=True)
    B.prove("synced-afterwards", z3.Implies(act, z3.And(synced(B, m), z3.Not(z(ctx.st(self)["_stale"])))), top=True)
    store_untouched_unless_durable(B, m)

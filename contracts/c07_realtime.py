"""C07 -- real-time pacing of Doist.do never runs early and does not drift.

Ghost true time `tau` (monotone) and clock offset `off`: time.time() returns tau + off.  Every reading lets an arbitrary
amount of true time pass (tau' >= tau) and lets the offset step BACKWARDS by an arbitrary amount (off' <= off); forward
jumps are excluded by the statement.  time.sleep(d) lets at least max(d, 0) of true time pass.
Ghost `due` = tau_start + k*tock, maintained additively (k = cycles started so far).
TOP: at every call of recur:  tau >= due.
The wait loop is cut by an invariant (any number of sleeps/wake-ups, termination not proved: a stalled clock may wait for ever,
which the property allows).  The existential "the timer's _last is a past reading (tp, op) with tp <= tau, op >= off and
_stop - op >= due + tock" is witnessed by the recorded readings of the path (spec function lastread).
"""
import z3
from .common import *
from .sched import DOIST
from .c08_timers import MONO
from .c05_do import DeedsAbs


def install_clock(B):
    g = B.ctx.ghost
    g["tau"] = B.real("tau")
    g["off"] = B.real("off")
    g["reads"] = []

    def clock(ctx):
        t2, o2 = ctx.fresh("real", "tau"), ctx.fresh("real", "off")
        ctx.assume(z3.And(t2.t >= z(g["tau"]), o2.t <= z(g["off"])))
        g["tau"], g["off"] = t2, o2
        v = mk(t2.t + o2.t, "real")
        g["reads"].append((t2, o2, v))
        return v
    g["clock"] = clock

    def sleep(ctx, a, k):
        d = z(a[0], "real")
        t2 = ctx.fresh("real", "tau")
        ctx.assume(z3.And(t2.t >= z(g["tau"]), t2.t >= z(g["tau"]) + d))
        g["tau"] = t2
        g["nsleep"] = g.get("nsleep", 0) + 1
        return None
    B.prog.externals["time.sleep"] = sleep

    def lastread(ctx, timer, bound):
        st = ctx.st(timer)
        last, stop = z(st["_last"], "real"), z(st["_stop"], "real")
        b = z(bound, "real")
        if getattr(ctx, "spec_mode", "check") == "assume":
            tp, op = ctx.fresh("real", "tp"), ctx.fresh("real", "op")
            g["reads"] = [(tp, op, mk(tp.t + op.t, "real"))]
            g["op_wit"] = op
            return mk(z3.And(last == tp.t + op.t, tp.t <= z(g["tau"]), op.t >= z(g["off"]), stop - op.t >= b), "bool")
        g["op_wit"] = g["reads"][-1][1]      # inside the wait loop _last is always the most recent reading
        alts = [z3.And(last == z(v), z(tp) <= z(g["tau"]), z(op) >= z(g["off"]), stop - z(op) >= b) for tp, op, v in g["reads"]]
        return mk(z3.Or(*alts) if alts else z3.BoolVal(False), "bool")
    B.prog.spec_env["lastread"] = ModelFn(lambda ctx, a, k: lastread(ctx, *a), "spec:lastread")


@contract(DOIST + ".do", props=["C07"], name=DOIST + ".do[real time]")
def doist_do_real(B):
    ctx = B.ctx
    g = ctx.ghost
    install_clock(B)
    tock = B.real("tock")
    ctx.assume(tock.t > 0)
    # the timer was built at construction (possibly with another tock) and last read the clock at some past state (tp0, op0)
    tp0, op0 = B.real("tp0"), B.real("op0")
    ctx.assume(z3.And(tp0.t <= z(g["tau"]), op0.t >= z(g["off"])))
    timer = B.obj(MONO, hint="timer", retro=True, _last=mk(tp0.t + op0.t, "real"))
    g["reads"].append((tp0, op0, ctx.st(timer)["_last"]))
    self = B.obj(DOIST, hint="doist", _tyme=B.real("tyme"), _tock=tock, doers=B.list([]), deeds=B.ext(DeedsAbs()), timer=timer,
                 name="doist", done=None, limit=None, real=True, temp=False)
    g.update(deeds_nonempty=B.bool("deeds_nonempty"), due=None, k=0, started=False)

    def enter(c, a, k):
        return ctx.st(self)["deeds"]

    def recur(c, a, k):
        # TOP (never early): the k-th cycle starts no earlier than k tocks of true elapsed time after the run started
        ctx.prove(B.name + "/call self.recur/never-early", z(g["tau"]) >= z(g["due"]), kind="call-requires",
                  detail="tau >= tau_start + k*tock at the start of cycle k", top=True)
        # the cycle itself takes an arbitrary amount of true time, during which the clock may also step back
        t2, o2 = ctx.fresh("real", "tau"), ctx.fresh("real", "off")
        ctx.assume(z3.And(t2.t >= z(g["tau"]), o2.t <= z(g["off"])))
        g["tau"], g["off"] = t2, o2
        g["due"] = mk(z(g["due"]) + z(tock), "real")        # next cycle is cycle k+1
        g["deeds_nonempty"] = ctx.fresh("bool", "deeds_nonempty")
        st = ctx.st(self)
        st["_tyme"] = mk(z(st["_tyme"]) + z(st["_tock"]), "real")

    def exit_(c, a, k):
        return None
    B.virtual(self, "enter", enter)
    B.virtual(self, "recur", recur)
    B.virtual(self, "exit", exit_)

    # capture tau at the timer.start() reading of the run: hook time.time through the clock (first reading of do())
    base_clock = g["clock"]

    def clock_first(c):
        v = base_clock(c)
        if not g["started"]:
            g["started"] = True
            g["tau_start"] = g["tau"]
            g["due"] = g["tau"]          # due = tau_start + 0*tock
        return v
    g["clock"] = clock_first

    mods = ["self._tyme", "self.timer", "ghost:tau:real", "ghost:off:real", "ghost:due:real", "ghost:deeds_nonempty:bool"]
    # outer loop head (before cycle k): next deadline (in true time) is due + tock where due = tau_start + k*tock ... but `due`
    # is advanced inside recur, so at the head: deadline = due + tock, and tau >= due
    outer = ["self.timer._stop - self.timer._start == self._tock",           # the period is the tock the run started with
             "ghost('due') is not None and ghost('tau') >= ghost('due')",
             "lastread(self.timer, ghost('due') + self._tock)",
             "self.done is False and self.real is True"]
    # wait loop (after recur advanced `due` to the next cycle): deadline in true time is `due`
    inner = ["self.timer._stop - self.timer._start == self._tock",
             "ghost('due') is not None",
             "lastread(self.timer, ghost('due'))",
             "self.done is False and self.real is True",
             "ghost('off') <= ghost('off_at_head')",          # the offset only steps backwards
             # steady clock since the head of the outer iteration => no retrograde shift happened: deadline untouched
             "implies(ghost('off') == ghost('off_at_head') and ghost('op_at_head') == ghost('off_at_head'), "
             "self.timer._stop == ghost('stop_at_head') and ghost('op_wit') == ghost('off_at_head'))"]

    def head(c, fr):
        g["stop_at_head"] = c.st(timer)["_stop"]
        g["off_at_head"] = g["off"]
        g["op_at_head"] = g["op_wit"]
    B.loop(DOIST + ".do", 0, invariant=outer, modifies=mods, top=(0, 2), head=head,
           body_ensures=[  # no drift: with a steady clock one iteration moves the deadline by exactly one tock, however late the wake-up
               "implies(ghost('off') == ghost('off_at_head') and ghost('op_at_head') == ghost('off_at_head'), self.timer._stop == ghost('stop_at_head') + self._tock)"])
    B.loop(DOIST + ".do", 1, invariant=inner, modifies=["self.timer", "ghost:tau:real", "ghost:off:real"], top=(2,))
    g["due"] = None
    # `due` must exist before the loop invariant is first checked: it is tau at the timer.start() reading
    orig_enter = enter

    B.call(self, qual=DOIST + ".do")
    B.handled = True
    B.no_other_exception()

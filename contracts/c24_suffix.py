"""C24 -- the insertion-ordinal key suffix of the io sub-databases is an exact, key-independent encoding.

hio.base.during:Duror.suffix / unsuffix (static methods) are interpreted from /repo/src for ANY key bytes -- including keys that
contain the separator, end with it, or look like another key's suffixed form -- and any ordinal.

EXT: b"%032x" % ion is HEX32(ion): 32 characters, none of which is the separator '.', and int(HEX32(ion), 16) == ion.
    suffix(key, ion)            == key ++ '.' ++ HEX32(ion)
    unsuffix(suffix(key, ion))  == (key, ion)        -- the split is at the RIGHTMOST separator, so separators inside key are harmless
    suffix is injective in (key, ion): two different (key, ordinal) pairs never share an io-key, in particular the io-keys of
    key 'a' are never io-keys of key 'a.<32 hex>' (prefix keys do not collide)
Everything above this encoding (cursor scans in LMDB, put/pin/add/get/pop/rem/cnt) is covered by the bounded tier only.
"""
import z3
from .common import *
from pyvc import builtins as BI
from pyvc.engine import ufunc

DUROR = "hio.base.during:Duror"
S, I = z3.StringSort(), z3.IntSort()
HEX32 = ufunc("hex32", I, S)
HEXVAL = ufunc("hexval", S, I)
DOT = z3.StringVal(".")


def axioms(ctx):
    i = z3.Int("i!ax")
    ctx.assume(z3.ForAll([i], z3.And(z3.Length(HEX32(i)) == 32, z3.Not(z3.Contains(HEX32(i), DOT)), HEXVAL(HEX32(i)) == i), patterns=[HEX32(i)]))


def install(B):
    B.prog.text_models["format"] = lambda c, s, a, k: c.fresh("str", "fmt")

    def rsplit(c, s, a, k):
        sep = k.get("sep", a[0] if a else None)
        if conc(k.get("maxsplit", a[1] if len(a) > 1 else -1)) != 1:
            raise Undecided("rsplit other than maxsplit=1")
        st, sp = z(s), z(sep)
        if not c.branch(z3.Contains(st, sp), "rsplit-found"):
            return c.alloc("list", init={"v": [s]})
        # EXT bytes.rsplit(sep, 1): s == head ++ sep ++ tail with no sep in tail (the split is at the RIGHTMOST occurrence)
        head, tail = c.fresh("bytes", "rs.head"), c.fresh("bytes", "rs.tail")
        c.assume(z3.And(st == z3.Concat(head.t, sp, tail.t), z3.Not(z3.Contains(tail.t, sp))))
        return c.alloc("list", init={"v": [head, tail]})
    B.prog.text_models["rsplit"] = rsplit

    def join(c, s, a, k):
        parts = BI.concrete_iter(c, a[0], must=True)
        out = z(parts[0])
        for p in parts[1:]:
            out = z3.Concat(out, z(s), z(p))
        return SV(out, "bytes")
    B.prog.text_models["join"] = join

    def to_int(c, a, k):
        if len(a) == 2 and conc(a[1]) == 16:
            return SV(HEXVAL(z(a[0])), "int")
        raise Undecided("int() other than base 16")
    B.prog.externals["builtins.int"] = to_int


def fmt_mod(ctx):
    """b"%032x" % ion"""
    def text_format(c, a, b):
        return SV(HEX32(z(b, "int")), "bytes")
    return text_format


@contract(DUROR + ".suffix", props=["C24"], name=DUROR + ".suffix+unsuffix[any key bytes, any ordinal]", z3_ms=1500)
def suffix_roundtrip(B):
    ctx = B.ctx
    axioms(ctx)
    install(B)
    key = B.bytes("key")
    ion = B.int("ion")
    ctx.assume(ion.t >= 0)
    B.prog.text_models["%"] = lambda c, fmt, a, k: SV(HEX32(z(a[0], "int")), "bytes") if fmt == b"%032x" else NotImplemented
    r = B.call(key, ion, qual=DUROR + ".suffix")
    B.no_other_exception()
    if not B.returned():
        return
    B.prove("io-key-is-key-dot-32-hex-digits", z(r) == z3.Concat(key.t, DOT, HEX32(ion.t)), top=True)
    # second call: unsuffix of that io-key
    back = B.call(r, qual=DUROR + ".unsuffix")
    B.no_other_exception()
    if not B.returned():
        B.prove("unsuffix-accepts-every-io-key", False, top=True)
        return
    ok = isinstance(back, tuple) and len(back) == 2
    B.prove("unsuffix-returns-key-and-ordinal", ok, top=True)
    if ok:
        B.prove("round-trip: unsuffix(suffix(key, ion)) == (key, ion) even when key contains separators",
                z3.And(z(back[0]) == key.t, z(back[1], "int") == ion.t), top=True)


@contract(DUROR + ".suffix", props=["C24"], name="lemma:suffix is injective (no two (key, ordinal) pairs share an io-key)", z3_ms=1500)
def suffix_injective(B):
    ctx = B.ctx
    axioms(ctx)
    k1, k2 = B.bytes("k1").t, B.bytes("k2").t
    i1, i2 = B.int("i1").t, B.int("i2").t
    s1 = z3.Concat(k1, DOT, HEX32(i1))          # the postcondition of suffix, proved above
    s2 = z3.Concat(k2, DOT, HEX32(i2))
    B.prove("equal-io-keys-have-equal-keys-and-ordinals", z3.Implies(s1 == s2, z3.And(k1 == k2, i1 == i2)), top=True)

"""Scheduler contracts, bounded tier: Doist/DoDoer enter, recur, exit, extend, remove interpreted from
/repo/src on deques of 0..N deeds (N stated per contract) with symbolic tymes, retymes, tocks and
with every dog outcome (yield None / 0 / t>0, return None/True/False, raise) forked at every send.
Bounded in the number of doers only; labelled bounded in the evidence, never counted as proved.
"""
import z3
from .common import *
from .sched import *

NMAX = 3


def alive_dog(w, d):
    """a doer whose dog has been started and is suspended (alive)"""
    g = DogModel(w, d)
    g.state = "alive"
    g.nsend = 1
    g.ref = w.B.ctx.alloc("ext", init={"model": g})
    d.dogs.append(g)
    if d.flavour == "method":
        d.func_done = False
    else:
        d.done = False
    return g


def setup_running(B, cls, n, flavours=None, with_marker_at=None):
    w = World(B)
    doers, dogs, deeds, retymes = [], [], [], []
    for i in range(n):
        d = w.doer("d%d" % i, (flavours[i] if flavours else "instance"))
        g = alive_dog(w, d)
        rt = B.real("retyme%d" % i)
        doers.append(d)
        dogs.append(g)
        retymes.append(rt)
        deeds.append((g.ref, rt, d.ref))
    if with_marker_at is not None:
        deeds.insert(with_marker_at, (None, None, None))
    mk_ = new_doist if cls == DOIST else new_dodoer
    sched = mk_(B, doers=[d.ref for d in doers], deeds=deeds)
    return w, sched, doers, dogs, retymes


def own_tock(B, sched):
    return B.ctx.st(sched)["_tock"]


def same_deed(B, a, b):
    return a[0] == b[0] and a[2] == b[2]


# ---------------------------------------------------------------------------------------- recur (C03, C05, C02, C01)

def recur_contract(B, cls):
    n = B.choice(*range(NMAX + 1), label="ndeeds")
    flav = ["instance"] * n
    if n >= 1 and B.choice(0, 1, label="flavour") == 1:
        flav[0] = "method"
    w, sched, doers, dogs, retymes = setup_running(B, cls, n, flav)
    ctx = B.ctx
    tyme0 = sched_tyme(B, sched)
    tock0 = own_tock(B, sched)
    done0 = [d.attr_done(ctx, None) for d in doers]
    if cls == DOIST:
        B.call(sched, qual=DOIST + ".recur")
    else:
        B.call(sched, tyme0, qual=DODOER + ".recur")
    tr = w.trace
    sends = tr.kinds("SEND")
    name = B.name
    raised_by = [e[1] for e in tr.kinds("RAISE")]
    # --- C03: who was sent what, in which order
    order = [e[1] for e in sends]
    B.prove("sends/in-deque-order-at-most-once", order == sorted(set(order), key=lambda s: int(s[1:])) and len(order) == len(set(order)), top=True)
    for i, d in enumerate(doers):
        mine = [e for e in sends if e[1] == d.name]
        stopped_before = bool(raised_by) and int(raised_by[0][1:]) < i
        if mine:
            B.prove("sends/due-only", z(retymes[i]) <= z(tyme0), top=True)
            B.prove("sends/value-is-current-tyme", E.values_equal(ctx, mine[0][2], tyme0), top=True)
        elif not stopped_before:
            B.prove("sends/all-due-are-sent", z3.Not(z(retymes[i]) <= z(tyme0)), top=True)
    B.prove("no-start-or-close-in-recur", not tr.kinds("START", "CLOSE", "CALL"), top=True)
    deeds = deeds_of(B, sched)
    nonmarker = [x for x in deeds if not is_marker(x)]
    alive_refs = [g.ref for g in w.alive()]
    # --- C01 (consumer side): every started, unfinished dog is in deeds, once
    B.prove("alive-dogs-all-in-deeds-once", sorted(x[0].oid for x in nonmarker) == sorted(r.oid for r in alive_refs), top=True)
    if B.returned():
        B.prove("no-marker-left", len(nonmarker) == len(deeds), top=True)
        B.prove("enter-order-kept", [x[0].oid for x in nonmarker] == [g.ref.oid for g in dogs if g.state == "alive"], top=True)
        if cls == DOIST:
            B.prove("tyme-advances-one-tock", z(sched_tyme(B, sched)) == z(tyme0) + z(tock0), top=True)
        else:
            B.prove("result-is-deeds-empty", E.values_equal(ctx, B.env["result"], len(deeds) == 0), top=True)
        # retyme update rule
        for x in nonmarker:
            i = [k for k, g in enumerate(dogs) if g.ref == x[0]][0]
            ys = [e for e in tr.kinds("YIELD") if e[1] == doers[i].name]
            if not ys:
                B.prove("retyme/not-due-unchanged", z(x[1]) == z(retymes[i]), top=True)
            else:
                t = ys[0][2]
                if t is None or (isinstance(t, float) and t == 0.0):
                    # 0 / None: runs again in the next cycle (<= because a DoDoer's own tock may be 0)
                    B.prove("retyme/asap-next-cycle", z(x[1]) == z(tyme0) + z(tock0), top=True)
                else:
                    B.prove("retyme/cumulative-no-drift", z(x[1]) == z(retymes[i]) + z(t), top=True)
        # --- C05: done flags
        for i, d in enumerate(doers):
            rets = [e for e in tr.kinds("RETURN") if e[1] == d.name]
            now = d.attr_done(ctx, None)
            if rets and rets[0][2] is not None:
                B.prove("done/is-returned-value", E.values_equal(ctx, now, rets[0][2]), top=True)
            else:
                B.prove("done/unchanged", E.is_same(ctx, now, done0[i]) is True or E.values_equal(ctx, now, done0[i]), top=True)
        B.prove("no-doer-raised", not raised_by)
    else:
        B.handled = True
        B.prove("raises-only-a-doers-exception", bool(raised_by) and B.outcome[1].attrs.get("who") == raised_by[0], top=True)
        # --- C02: after the failing send, what is left must still be in enter order (exit() pops from the right)
        B.prove("exception/deeds-in-enter-order", [x[0].oid for x in nonmarker] == [g.ref.oid for g in dogs if g.state == "alive"], top=True, props=["C02"])
    B.no_other_exception()


@contract(DOIST + ".recur", props=["C03", "C05", "C01", "C02"], name=DOIST + ".recur[bounded n<=3]")
def doist_recur(B):
    recur_contract(B, DOIST)


@contract(DODOER + ".recur", props=["C03", "C05", "C01", "C02", "C04"], name=DODOER + ".recur[bounded n<=3]")
def dodoer_recur(B):
    recur_contract(B, DODOER)


# ---------------------------------------------------------------------------------------- exit (C02, C01, C05)

def exit_contract(B, cls):
    n = B.choice(*range(NMAX + 1), label="ndeeds")
    marker = B.choice(*([None] + list(range(n + 1))), label="marker-at")
    w, sched, doers, dogs, retymes = setup_running(B, cls, n, None, marker)
    ctx = B.ctx
    done0 = [d.attr_done(ctx, None) for d in doers]
    B.call(sched, qual=cls + ".exit")
    tr = w.trace
    B.ensures("len(deeds) == 0", deeds=tuple(deeds_of(B, sched)), top=True, label="deeds-emptied")
    closes = [e[1] for e in tr.kinds("CLOSE")]
    B.prove("closes-reverse-enter-order-each-once", closes == [d.name for d in reversed(doers)], top=True)
    B.prove("only-closes", len([e for e in tr.ev if e[0] != "DONE"]) == len(closes), top=True)
    for i, d in enumerate(doers):
        B.prove("done/unchanged-by-forced-exit", E.values_equal(ctx, d.attr_done(ctx, None), done0[i]), top=True)
    B.no_other_exception()


@contract(DOIST + ".exit", props=["C02", "C01", "C05"], name=DOIST + ".exit[bounded n<=3]")
def doist_exit(B):
    exit_contract(B, DOIST)


@contract(DODOER + ".exit", props=["C02", "C01", "C05", "C04"], name=DODOER + ".exit[bounded n<=3]")
def dodoer_exit(B):
    exit_contract(B, DODOER)


# ---------------------------------------------------------------------------------------- enter (C01, C03, C05, C04)

def enter_contract(B, cls):
    n = B.choice(*range(NMAX + 1), label="ndoers")
    w = World(B)
    flav = ["instance"] * n
    if n >= 1 and B.choice(0, 1, label="flavour") == 1:
        flav[n - 1] = "method"
    doers = [w.doer("d%d" % i, flav[i]) for i in range(n)]
    ctx = B.ctx
    mk_ = new_doist if cls == DOIST else new_dodoer
    sched = mk_(B, doers=[d.ref for d in doers], deeds=[])
    tyme0 = sched_tyme(B, sched)
    r = B.call(sched, qual=cls + ".enter")
    tr = w.trace
    deeds = deeds_of(B, sched)
    starts = [e[1] for e in tr.kinds("START")]
    calls = tr.kinds("CALL")
    upto = len(starts)
    B.prove("starts-in-list-order", starts == [d.name for d in doers[:upto]], top=True)
    B.prove("each-called-once-before-start", [e[1] for e in calls] == starts, top=True)
    for e in calls:
        d = [x for x in doers if x.name == e[1]][0]
        B.prove("injects-doers-own-tock", E.values_equal(ctx, e[3], d.attr_tock(ctx, None)), top=True)
        B.prove("injects-a-tymth", e[2] is not None, top=True)
    alive = [g for g in w.alive()]
    B.prove("alive-dogs-all-in-deeds-once", [x[0].oid for x in deeds] == [g.ref.oid for g in alive], top=True)
    for x in deeds:
        B.prove("first-due-tyme-is-tyme-at-enter", z(x[1]) == z(tyme0), top=True)
    for d in doers[:upto]:
        rets = [e for e in tr.kinds("RETURN") if e[1] == d.name]
        now = d.attr_done(ctx, None)
        if rets and rets[0][2] is not None:
            B.prove("done/is-returned-value", E.values_equal(ctx, now, rets[0][2]), top=True)
        elif not [e for e in tr.kinds("RAISE") if e[1] == d.name] or True:
            B.prove("done/false-at-enter", now is False, top=True)
    if B.returned():
        B.prove("all-entered", upto == n, top=True)
        B.prove("returns-the-deeds", isinstance(r, Ref) and r == (ctx.st(sched).get("deeds") or ctx.st(sched).get("_deeds")))
    else:
        B.handled = True
        B.prove("raises-only-a-doers-exception", bool(tr.kinds("RAISE")), top=True)
    B.no_other_exception()


@contract(DOIST + ".enter", props=["C01", "C03", "C05"], name=DOIST + ".enter[bounded n<=3]")
def doist_enter(B):
    enter_contract(B, DOIST)


@contract(DODOER + ".enter", props=["C01", "C03", "C05", "C04"], name=DODOER + ".enter[bounded n<=3]")
def dodoer_enter(B):
    enter_contract(B, DODOER)

"""C18 -- framing of WSGI responses: the per-call contracts of the Responder and the server's close decision.

Interpreted from /repo/src/hio/core/http/serving.py (symbolic flags, lengths and message bytes):

Responder.write(msg)   not started -> AssertionError, nothing sent
                       head (from build()) is sent exactly once, before any body byte, on the first write
                       chunked -> the body bytes of this call are exactly one chunk  hex(len msg) CRLF msg CRLF
                       declared Content-Length L -> with 0 <= size <= L before: the body bytes sent are the first
                                min(len, L - size) bytes of the payload and size' = size + sent <= L   (never exceeds L)
                       no declared length -> payload sent whole, size untouched; nothing is sent for an empty payload
Responder.start(status, headers)
                       Content-Length given -> .length is its value and chunking is switched off; else .length is None
                       a second start without exc_info -> AssertionError; returns the write callable; marks started
Responder.reset(environ, chunkable)
                       every per-response field is back to its initial value and chunkable is the new request's
Responder.build()      chunked  <=>  chunkable and no declared length and (no Transfer-Encoding header or it is 'chunked'), and then the header is set
Server.serviceReps()   (<= 2 connections) a connection is closed iff its responder was closed, or its response ended for a
                       non-persistent request and everything was flushed (txbs empty); a persistent ended request gets a
                       fresh parser exactly when it has none; a responder that has not ended is serviced exactly once

EXT: packChunk(msg) = HEX(len msg) CRLF msg CRLF with HEX uninterpreted (the real packChunk is checked against this shape
natively); Hict as a case-insensitive mapping model; int(str) uninterpreted; connection.tx appends to the ghost wire.
What these contracts do NOT give (bounded tier / recorded finding): a response that is neither chunked nor length-delimited on a
connection that stays open (HTTP/1.0 keep-alive) is not self-delimiting.
"""
import z3
from .common import *
from pyvc import builtins as BI
from pyvc.engine import ufunc

RESP = "hio.core.http.serving:Responder"
HSERVER = "hio.core.http.serving:Server"
TSERVER = "hio.core.tcp.serving:Server"
FIELD_TYPES[RESP] = {"started": "bool", "headed": "bool", "chunked": "bool", "chunkable": "bool", "ended": "bool", "closed": "bool",
                     "evented": "bool", "size": "int"}
HEX = ufunc("hexlen", z3.IntSort(), z3.StringSort())
CRLF = z3.StringVal("\r\n")


class Stub:
    def __init__(self, fn):
        self.fn = fn

    def apply_at_call(self, interp, fv, args, kwargs, caller, site):
        return self.fn(interp.ctx, args, kwargs)


def chunk_of(t):
    return z3.Concat(HEX(z3.Length(t)), CRLF, t, CRLF)


class Incomer:
    def __init__(self, log):
        self.log = log

    def truth(self, ctx, r):
        return True

    def m_tx(self, ctx, r, a, k):
        self.log.append(("tx", BI.as_text(ctx, a[0])))


# ------------------------------------------------------------------------------------------------ write

@contract(RESP + ".write", props=["C18"])
def responder_write(B):
    ctx = B.ctx
    log = ctx.ghost["log"] = []
    B.prog.modular["hio.core.http.httping:packChunk"] = Stub(lambda c, a, k: SV(chunk_of(z(BI.as_text(c, a[0]))), "bytes"))
    has_len = B.choice(False, True, label="content-length-declared")
    length = B.int("length") if has_len else None
    size = B.int("size")
    ctx.assume(size.t >= 0)
    if has_len:
        ctx.assume(z3.And(length.t >= 0, size.t <= length.t))          # class invariant: never more than declared so far
    self = B.obj(RESP, hint="responder", incomer=B.ext(Incomer(log)), length=length, size=size)
    head = B.bytes("head")
    chunked_after_build = B.bool("chunked_by_build")

    def build(c, a, k):
        log.append(("build",))
        c.st(self)["chunked"] = chunked_after_build        # EXT: build() decides chunking (own contract below)
        return head
    B.virtual(self, "build", build)
    st0 = dict(ctx.st(self))
    msg = B.bytes("msg")
    B.call(self, msg, qual=RESP + ".write")
    st = ctx.st(self)
    txs = [e[1] for e in log if e[0] == "tx"]
    if B.raised(AssertionError):
        B.handled = True
        B.prove("assertion-only-before-start_response", z3.Not(z(st0["started"])), top=True)
        B.prove("nothing-sent-before-start_response", len(txs) == 0, top=True)
        B.no_other_exception()
        return
    B.no_other_exception()
    B.prove("started", z(st0["started"]), top=True)
    sent_head = ("build",) in log
    B.prove("head-built-iff-not-yet-sent", z3.Not(z(st0["headed"])) == sent_head, top=True)
    if sent_head:
        B.prove("head-is-the-first-thing-sent", len(txs) >= 1 and E.values_equal(ctx, txs[0], head) is True or
                (len(txs) >= 1 and _eq(ctx, txs[0], head)), top=True)
    B.prove("headed-afterwards", "self.headed is True", top=True)
    body = txs[1:] if sent_head else txs
    B.prove("at-most-one-body-piece-per-write", len(body) <= 1, top=True)
    chunked = z(st["chunked"])
    payload = z3.If(chunked, chunk_of(msg.t), msg.t)
    if has_len:
        room = length.t - size.t
        n = z3.If(z3.Length(payload) <= room, z3.Length(payload), room)
        expect = z3.SubString(payload, 0, n)
        B.prove("size-counts-what-was-sent-and-never-exceeds-the-declared-length", z3.And(z(st["size"], "int") == size.t + n, z(st["size"], "int") <= length.t), top=True)
    else:
        expect = payload
        B.prove("size-untouched-without-a-declared-length", z(st["size"], "int") == size.t, top=True)
    got = z(body[0]) if body else z3.StringVal("")
    B.prove("body-bytes-are-the-payload-clamped-to-the-declared-length", got == expect, top=True)
    B.prove("nothing-sent-for-an-empty-piece", z3.BoolVal(bool(body)) == (z3.Length(expect) > 0), top=True)
    B.prove("canary:always-sends-a-body-piece", len(body) == 1)          # must FAIL (vacuity guard); last


def _eq(ctx, a, b):
    v = E.values_equal(ctx, a, b)
    return v if isinstance(v, bool) else mk(v, "bool")


# ------------------------------------------------------------------------------------------------ start

class Hict:
    """case-insensitive header mapping built from the application's header list: only what start()/build() ask of it"""

    def __init__(self, ctx, log):
        self.log = log
        self.has = {k: ctx.fresh("bool", "has." + k) for k in ("content-length", "content-type", "transfer-encoding", "server", "date")}
        self.val = {k: ctx.fresh("str", "hdr." + k) for k in self.has}
        self.sets = []

    def contains(self, ctx, r, key):
        k = conc(key)
        if isinstance(k, str) and k.lower() in self.has:
            v = self.has[k.lower()]
            return v.t if isinstance(v, SV) else v
        raise Undecided("header membership of %r" % (key,))

    def getitem(self, ctx, r, key):
        k = conc(key).lower()
        if not ctx.branch(z(self.has[k]), "has-" + k):
            raise py_exc(KeyError, k)
        return self.val[k]

    def setitem(self, ctx, r, key, v):
        k = conc(key).lower()
        self.has[k] = True
        self.val[k] = v
        self.sets.append((k, v))

    def m_update(self, ctx, r, a, k):
        self.log.append(("headers.update",))

    def m_items(self, ctx, r, a, k):
        # the entries known to be present because they were set through this object (a snapshot, as list(...items()))
        return ctx.alloc("list", init={"v": [(kk, self.val[kk]) for kk in sorted(self.has) if self.has[kk] is True]})


@contract(RESP + ".start", props=["C18"])
def responder_start(B):
    ctx = B.ctx
    log = ctx.ghost["log"] = []
    hict = Hict(ctx, log)
    href = B.ext(hict)
    B.prog.class_models["hio.help.hicting:Hict"] = lambda interp, cls, a, k: href
    toint = ufunc("int_of_str", z3.StringSort(), z3.IntSort())
    B.prog.externals["builtins.int"] = lambda c, a, k: SV(toint(z(a[0])), "int") if ty_of(a[0]) == "str" and isinstance(a[0], SV) else int(conc(a[0]))
    self = B.obj(RESP, hint="responder", incomer=B.ext(Incomer(log)), length=B.choice(None, 7, label="stale-length"), size=0,
                 headers=None, status="200 OK")
    st0 = dict(ctx.st(self))
    has_cl0 = z(hict.has["content-length"])
    r = B.call(self, B.of("str", "status"), B.list([]), qual=RESP + ".start")
    st = ctx.st(self)
    if B.raised(AssertionError):
        B.handled = True
        B.prove("second-start-without-exc_info-refused", z(st0["started"]), top=True)
        B.no_other_exception()
        return
    B.no_other_exception()
    B.prove("first-start", z3.Not(z(st0["started"])), top=True)
    B.prove("started-afterwards", "self.started is True", top=True)
    B.prove("returns-the-write-callable", isinstance(r, E.FuncVal) and r.qual.endswith("Responder.write") if hasattr(E, "FuncVal") else r is not None, top=True)
    if st["length"] is None:
        B.prove("no-length-only-without-content-length-header", z3.Not(has_cl0), top=True)
    else:
        B.prove("length-is-the-declared-content-length", z3.And(has_cl0, z(st["length"], "int") == toint(z(hict.val["content-length"]))), top=True)
    # (whether the response is chunked is decided in build() from .chunkable AND .length, so that a later start_response with
    #  exc_info and no Content-Length can still be chunked: start leaves the capability of the request alone)
    B.prove("chunking-capability-of-the-request-untouched", _eq(ctx, st["chunkable"], st0["chunkable"]), top=True)
    B.prove("nothing-sent-by-start", not [e for e in log if e[0] == "tx"], top=True)


# ------------------------------------------------------------------------------------------------ reset

@contract(RESP + ".reset", props=["C18"])
def responder_reset(B):
    ctx = B.ctx
    log = ctx.ghost["log"] = []
    B.prog.class_models["hio.help.hicting:Hict"] = lambda interp, cls, a, k: B.ext(Hict(ctx, log))
    self = B.obj(RESP, hint="responder", incomer=B.ext(Incomer(log)), length=B.choice(None, 7, label="stale-length"), size=B.int("size"),
                 iterator=B.choice(None, "it", label="stale-iterator"), status=B.of("str", "stale-status"), headers=None, environ=None)
    env = B.dict({})
    chk = B.choice(None, False, True, label="chunkable-arg")
    ck0 = ctx.st(self)["chunkable"]
    B.call(self, env, chk, qual=RESP + ".reset")
    B.no_other_exception()
    if not B.returned():
        return
    st = ctx.st(self)
    B.prove("per-response-flags-cleared", "self.started is False and self.headed is False and self.chunked is False and self.ended is False", top=True)
    B.prove("length-and-size-cleared", st["length"] is None and conc(st["size"]) == 0, top=True)
    B.prove("iterator-and-status-cleared", st["iterator"] is None and conc(st["status"]) == "200 OK", top=True)
    B.prove("environ-is-the-new-requests", st["environ"] is env, top=True)
    if chk is None:
        B.prove("chunkable-kept-when-not-given", _eq(ctx, st["chunkable"], ck0), top=True)
    else:
        B.prove("chunkable-is-the-new-requests", _eq(ctx, st["chunkable"], chk), top=True)


# ------------------------------------------------------------------------------------------------ serviceReps

class Rep:
    def __init__(self, ctx, name, log):
        self.name, self.log = name, log
        self.closed = ctx.fresh("bool", name + ".closed")
        self.ended = ctx.fresh("bool", name + ".ended")
        self.ended_after = ctx.fresh("bool", name + ".ended'")
        self.nservice = 0
        self.nclose = 0

    def truth(self, ctx, r):
        return True

    def attr_closed(self, ctx, r):
        return self.closed

    def attr_ended(self, ctx, r):
        return self.ended

    def m_service(self, ctx, r, a, k):
        self.nservice += 1
        self.log.append(("service", self.name))
        self.ended = self.ended_after          # EXT: servicing may or may not finish the response

    def m_close(self, ctx, r, a, k):
        self.nclose += 1
        self.log.append(("rep.close", self.name))


class Req:
    def __init__(self, ctx, name, log):
        self.name, self.log = name, log
        self.persisted = ctx.fresh("bool", name + ".persisted")
        self.has_parser = ctx.fresh("bool", name + ".parser")
        self.nmake = 0
        self.nclose = 0

    def truth(self, ctx, r):
        return True

    def attr_persisted(self, ctx, r):
        return self.persisted

    def attr_parser(self, ctx, r):
        return None if not ctx.branch(z(self.has_parser), "has-parser") else "parser"

    def m_makeParser(self, ctx, r, a, k):
        self.nmake += 1
        self.log.append(("makeParser", self.name))

    def m_close(self, ctx, r, a, k):
        self.nclose += 1


class Conn:
    def __init__(self, ctx, name, log):
        self.name, self.log = name, log
        self.pending = ctx.fresh("bool", name + ".txbs-nonempty")
        self.nclose = 0

    def truth(self, ctx, r):
        return True

    def attr_txbs(self, ctx, r):
        model = self

        class Tx:
            def truth(self_, c, rr):
                return model.pending
        return ctx.alloc("ext", init={"model": Tx()})

    def m_close(self, ctx, r, a, k):
        self.nclose += 1
        self.log.append(("ix.close", self.name))

    def m_serviceSends(self, ctx, r, a, k):
        self.log.append(("ix.serviceSends", self.name))


@contract(HSERVER + ".serviceReps", props=["C18"], name=HSERVER + ".serviceReps[<=2 connections]")
def server_service_reps(B):
    ctx = B.ctx
    log = ctx.ghost["log"] = []
    n = B.choice(0, 1, 2, label="connections")
    cas = [("10.0.0.%d" % (i + 1), 4000 + i) for i in range(n)]
    reps = [Rep(ctx, "rep%d" % i, log) for i in range(n)]
    reqs = [Req(ctx, "req%d" % i, log) for i in range(n)]
    ixs = [Conn(ctx, "ix%d" % i, log) for i in range(n)]
    servant = B.obj(TSERVER, hint="servant", ixes=B.dict({ca: B.ext(x) for ca, x in zip(cas, ixs)}))
    self = B.obj(HSERVER, hint="server", servant=servant, reqs=B.dict({ca: B.ext(x) for ca, x in zip(cas, reqs)}),
                 reps=B.dict({ca: B.ext(x) for ca, x in zip(cas, reps)}))
    pre = [(z(r.closed), z(r.ended)) for r in reps]
    B.call(self, qual=HSERVER + ".serviceReps")
    B.no_other_exception()
    if not B.returned():
        return
    st = ctx.st(self)
    left = [k for k, _ in ctx.st(ctx.st(servant)["ixes"])["v"].values()]
    for i in range(n):
        closed0, ended0 = pre[i]
        rep, req, ix = reps[i], reqs[i], ixs[i]
        ended1 = z3.Or(ended0, z(rep.ended_after))        # ended after this pass (service() runs only when not ended)
        should_close = z3.Or(closed0, z3.And(ended1, z3.Not(z(req.persisted)), z3.Not(z(ix.pending))))
        B.prove("closed-iff-responder-closed-or-finished-nonpersistent-and-flushed#%d" % i, should_close == (ix.nclose >= 1), top=True)
        B.prove("closed-at-most-once#%d" % i, ix.nclose <= 1, top=True)
        B.prove("serviced-once-iff-open-and-not-ended#%d" % i, z3.And(z3.Not(closed0), z3.Not(ended0)) == (rep.nservice == 1), top=True)
        B.prove("serviced-at-most-once#%d" % i, rep.nservice <= 1, top=True)
        B.prove("parser-renewed-iff-finished-persistent-without-parser#%d" % i,
                z3.And(z3.Not(closed0), ended1, z(req.persisted), z3.Not(z(req.has_parser))) == (req.nmake == 1), top=True)
        if ix.nclose:
            B.prove("closed-connection-fully-removed#%d" % i, cas[i] not in left and rep.nclose == 1 and req.nclose == 1 and
                    cas[i] not in [k for k, _ in ctx.st(st["reps"])["v"].values()] and cas[i] not in [k for k, _ in ctx.st(st["reqs"])["v"].values()], top=True)
        else:
            B.prove("kept-connection-untouched#%d" % i, cas[i] in left and rep.nclose == 0 and req.nclose == 0, top=True)
    B.prove("canary:never-closes", all(x.nclose == 0 for x in ixs))       # must FAIL (vacuity guard); last


# ------------------------------------------------------------------------------------------------ build

@contract(RESP + ".build", props=["C18"])
def responder_build(B):
    """build(): the chunking decision and the Transfer-Encoding header that announces it"""
    import ast as _ast
    ctx = B.ctx
    log = ctx.ghost["log"] = []
    hict = Hict(ctx, log)
    href = B.ext(hict)
    B.prog.class_models["hio.help.hicting:Hict"] = lambda interp, cls, a, k: B.ext(Hict(ctx, []))
    B.prog.modular["hio.core.http.httping:httpDate1123"] = Stub(lambda c, a, k: c.fresh("str", "date"))
    packed = []

    def pack(c, a, k):
        out = c.fresh("bytes", "line")
        packed.append((a[0], a[1:], out))
        return out
    B.prog.modular["hio.core.http.httping:packHeader"] = Stub(pack)
    B.prog.externals["datetime.datetime.now"] = lambda c, a, k: "now"

    def join(c, s, a, k):
        parts = BI.concrete_iter(c, a[0], must=True)
        out = parts[0]
        for p in parts[1:]:
            out = E.binop(c, _ast.Add(), E.binop(c, _ast.Add(), out, s), p)
        return out
    B.prog.text_models["join"] = join
    B.prog.text_models["encode"] = lambda c, s, a, k: c.fresh("bytes", "encoded")

    has_te0, te0 = z(hict.has["transfer-encoding"]), z(hict.val["transfer-encoding"])
    declared = B.int("declared-length") if B.choice(False, True, label="content-length-declared") else None
    self = B.obj(RESP, hint="responder", incomer=B.ext(Incomer(log)), iterator=None, status=B.of("str", "status"), headers=href, chunked=False, length=declared)
    chunkable = z(ctx.st(self)["chunkable"])
    r = B.call(self, qual=RESP + ".build")
    B.no_other_exception()
    if not B.returned():
        return
    st = ctx.st(self)
    want = z3.And(chunkable, z3.BoolVal(declared is None), z3.Or(z3.Not(has_te0), te0 == z3.StringVal("chunked")))
    B.prove("chunked-iff-chunkable-and-no-declared-length-and-no-other-transfer-encoding", z(st["chunked"]) == want, top=True)
    announced = [v for k, v in hict.sets if k == "transfer-encoding"]
    if announced:
        B.prove("announced-transfer-encoding-is-chunked", _eq(ctx, announced[-1], "chunked"), top=True)
    B.prove("chunking-is-announced-in-the-head", z3.Implies(z(st["chunked"]), z3.BoolVal(bool(announced) and any(conc(p[0]) == "transfer-encoding" for p in packed))), top=True)
    B.prove("head-ends-with-an-empty-line", z3.SuffixOf(z3.StringVal("\r\n\r\n"), z(r)), top=True)
    B.prove("server-and-date-headers-present", z3.And(z3.BoolVal(True) if hict.has["server"] is True else z(hict.has["server"]),
                                                      z3.BoolVal(True) if hict.has["date"] is True else z(hict.has["date"])), top=True)


# ------------------------------------------------------------------------------------------------ service

class HttpErr:
    """an httping.HTTPError raised by the application: status, reason, headers and a rendered body"""

    def __init__(self, ctx):
        self.body = ctx.fresh("bytes", "errbody")
        self.rendered = 0

    def getattr(self, ctx, r, name):
        if name == "status":
            return ctx.fresh("int", "errstatus")
        if name == "reason":
            return ctx.fresh("str", "errreason")
        if name == "headers":
            return ctx.alloc("dict", init={"v": {}})
        raise Undecided("HTTPError attribute " + name)

    def m_render(self, ctx, r, a, k):
        self.rendered += 1
        return self.body


@contract(RESP + ".service", props=["C18"])
def responder_service(B):
    """service(): one step of the WSGI iteration.  start() and write() are summarised by their own contracts above (virtual here:
    what matters is WHEN they are called and with WHAT).
        piece           -> written iff non-empty; ended iff a declared length is reached
        StopIteration   -> the terminating empty write (ends a chunked body) and ended
        HTTPError before the head went out -> start_response is called with a header list that ALREADY carries the
                           Content-Length of the rendered error body (so start() switches chunking off and write() clamps to it),
                           then exactly that body is written, then ended
        closed or ended -> nothing happens"""
    ctx = B.ctx
    log = ctx.ghost["log"] = []
    from pyvc import source as _src
    httperror = _src.class_by_qual("hio.core.http.httping:HTTPError")
    made = []

    def mk_hict(interp, cls, a, k):
        h = Hict(ctx, log)
        for kk in h.has:
            h.has[kk] = False           # a fresh, empty header mapping
        h.m_update = lambda c, r, aa, kk2: None
        made.append(h)
        return B.ext(h)
    B.prog.class_models["hio.help.hicting:Hict"] = mk_hict
    B.prog.externals["sys.exc_info"] = lambda c, a, k: ("type", "value", "traceback")
    err = HttpErr(ctx)
    outcome = B.choice("piece", "stop", "httperror", "other-exception", label="app")
    piece = B.bytes("piece")

    class It:
        def m___next__(self, c, r, a, k):
            log.append(("next",))
            if outcome == "piece":
                return piece
            if outcome == "stop":
                raise PyExc(ExcVal(StopIteration, ()))
            if outcome == "httperror":
                ex = ExcVal(httperror, ("err",))
                ex.attrs = {"status": c.fresh("int", "errstatus"), "reason": c.fresh("str", "errreason"),
                            "headers": c.alloc("dict", init={"v": {}}),
                            "render": ModelFn(lambda cc, aa, kk: err.m_render(cc, None, aa, kk), "HTTPError.render")}
                raise PyExc(ex)
            raise PyExc(ExcVal(RuntimeError, ("app bug",)))

        def iter(self, c, r):
            return r
    has_len = B.choice(False, True, label="content-length-declared")
    length = B.int("length") if has_len else None
    size_after_write = B.int("size'")
    self = B.obj(RESP, hint="responder", incomer=B.ext(Incomer(log)), iterator=B.ext(It()), length=length, size=B.int("size"),
                 environ=None, app=None)
    st0 = dict(ctx.st(self))

    def start(c, a, k):
        hdrs = BI.concrete_iter(c, a[1], must=True)
        log.append(("start", a[0], [(conc(x[0]), x[1]) for x in hdrs], a[2] if len(a) > 2 else k.get("exc_info")))
        # effect of start() per its contract: headers taken over, length from a declared Content-Length, started
        h = Hict(c, log)
        given = {conc(x[0]).lower(): x[1] for x in hdrs}
        for kk in h.has:
            h.has[kk] = kk in given
            if kk in given:
                h.val[kk] = given[kk]
        stt = c.st(self)
        stt["headers"] = c.alloc("ext", init={"model": h})
        stt["length"] = c.fresh("int", "declared") if "content-length" in given else None
        stt["started"] = True
        return None
    B.virtual(self, "start", start)

    def write(c, a, k):
        log.append(("write", BI.as_text(c, a[0])))
        c.st(self)["size"] = size_after_write
        c.st(self)["headed"] = True
    B.virtual(self, "write", write)
    B.call(self, qual=RESP + ".service")
    B.no_other_exception()
    if not B.returned():
        return
    st = ctx.st(self)
    idle = z3.Or(z(st0["closed"]), z(st0["ended"]))
    writes = [e for e in log if e[0] == "write"]
    starts = [e for e in log if e[0] == "start"]
    nexts = [e for e in log if e[0] == "next"]
    B.prove("nothing-happens-when-closed-or-ended", z3.Implies(idle, z3.BoolVal(not writes and not starts and not nexts)), top=True)
    B.prove("app-asked-for-exactly-one-piece-otherwise", z3.Implies(z3.Not(idle), z3.BoolVal(len(nexts) == 1)), top=True)
    if not nexts:
        return
    if outcome == "piece":
        B.prove("piece-written-iff-non-empty", (z3.Length(piece.t) > 0) == (len(writes) == 1), top=True)
        if writes:
            B.prove("writes-exactly-the-piece", z(writes[0][1]) == piece.t, top=True)
            if has_len:
                B.prove("ended-iff-declared-length-reached", z3.Or(z(st["ended"]), z(st0["ended"])) == z3.Or(size_after_write.t >= length.t, z(st0["ended"])), top=True)
        B.prove("no-start_response-by-the-server-itself", not starts, top=True)
    elif outcome == "stop":
        B.prove("terminating-empty-write-and-ended", len(writes) == 1 and conc(writes[0][1]) == b"" and conc(st["ended"]) is True, top=True)
    elif outcome == "httperror":
        headed0 = z(st0["headed"])
        B.prove("error-response-only-if-head-not-sent", z3.Not(headed0) == (len(starts) == 1), top=True)
        if starts:
            hdrs = dict(starts[0][2])
            B.prove("start_response-gets-the-content-length-of-the-error-body", "content-length" in hdrs, top=True)
            B.prove("error-body-written-once-after-start-and-ended", len(writes) == 1 and log.index(starts[0]) < log.index(writes[0]) and
                    E.values_equal(ctx, writes[0][1], err.body) is not False and conc(st["ended"]) is True, top=True)
            B.prove("start_response-gets-exc_info", starts[0][3] is not None, top=True)
    else:
        B.prove("application-bug-sends-nothing", not writes and not starts, top=True)

"""C13 / C17 -- the request body parser: a length-delimited body is exactly the next `length` bytes of the stream, a chunked
body is exactly the concatenation of its data chunks, whatever the fragmentation.

hio.core.http.serving:Requestant.parseBody is interpreted from /repo/src as a generator under contract; at every `yield None` the
environment appends arbitrary bytes to the receive buffer (and may have closed the connection).  Both waiting loops are cut by
invariants, so any number of waits and any number of chunks are covered.

EXT (callee contract, contracts/c17_chunk.py): each activation sequence of httping.parseChunk on the buffer ends by yielding
(size, parms, trails, chunk) with len(chunk) == size, or raises HTTPException; it may yield None first.

length-delimited (not chunked, length L >= 0 known)
    body == the first L bytes of the stream (buffer ++ everything that arrives while waiting); exactly those are consumed;
    .length == L afterwards; a connection closed while fewer than L bytes are there -> PrematureClosure
chunked
    body == chunk_1 ++ chunk_2 ++ ... ++ chunk_k in arrival order for the data chunks before the last (size 0) chunk -- or
    before the connection closed --; trailers of the last chunk are kept; chunk extension parameters are merged
neither chunked nor a length -> HTTPException;  an already parsed body is not parsed again;  ends by yielding True with
.bodied set and .length == len(body)
"""
import z3
from .common import *
from pyvc import builtins as BI
from pyvc.engine import ufunc, Suspend
from .http_responder import Stub

REQT = "hio.core.http.serving:Requestant"
HTTPING = "hio.core.http.httping"
RESP = "hio.core.http.clienting:Respondent"
FIELD_TYPES.setdefault(REQT, {}).update({"bodied": "bool", "closed": "bool", "chunked": "bool", "headed": "bool"})
FIELD_TYPES.setdefault(RESP, {}).update({"bodied": "bool", "closed": "bool", "chunked": "bool", "headed": "bool"})
CUR = {"cls": REQT}


def CLS():
    """the parser class the shared contract bodies below are applied to (server-side Requestant or client-side Respondent)"""
    return CUR["cls"]


class ChunkGen:
    def __init__(self, ctx, log, g, raw=None):
        self.ctx, self.log, self.g, self.raw = ctx, log, g, raw
        self.calls = 0
        self.closed = False

    def m___next__(self, ctx, r, a, k):
        self.calls += 1
        if self.calls == 1 and ctx.fork(2, "chunk-ready") == 1:
            self.log.append(("chunk", "wait"))
            return None
        if self.raw is not None:
            ctx.st(self.raw)["v"] = ctx.fresh("bytes", "rest-after-chunk")      # the chunk's bytes are consumed: some suffix is left
        last = ctx.fork(2, "last-chunk") == 1
        if last:
            size, chunk = 0, ctx.alloc("buf", init={"v": b""})
            trails = ctx.fresh("u:Headers", "trailers") if ctx.fork(2, "has-trailers") == 1 else None
        else:
            size = ctx.fresh("int", "size")
            data = ctx.fresh("bytes", "chunk")
            ctx.assume(z3.And(size.t > 0, z3.Length(data.t) == size.t))
            chunk = ctx.alloc("buf", init={"v": data})
            trails = None
            self.g["acc"] = E.binop(ctx, __import__("ast").Add(), self.g["acc"], data)      # ghost: data chunks so far, in order
        self.log.append(("chunk", "last" if last else "data"))
        if trails is not None:
            self.g["trails"] = trails
        return (size, ctx.alloc("dict", init={"v": {}}), trails, chunk)

    def m_close(self, ctx, r, a, k):
        self.closed = True


def setup(B, mode):
    ctx = B.ctx
    g = ctx.ghost
    log = g["log"] = []
    g["acc"] = b""
    g["trails"] = None
    msg = B.buf(hint="msg")
    B.prog.modular[HTTPING + ":parseChunk"] = Stub(lambda c, a, k: c.alloc("ext", init={"model": ChunkGen(c, log, g, raw=k.get("raw", a[0] if a else None))}))
    hu = ufunc("truthy_Headers", E.usort("Headers"), z3.BoolSort())
    h1 = z3.Const("h!ax", E.usort("Headers"))
    ctx.assume(z3.ForAll([h1], hu(h1), patterns=[hu(h1)]))
    length = None
    if mode == "length":
        length = B.int("length")
    extra = dict(evented=False, eventSource=None, retry=None, leid=None) if CLS() == RESP else {}
    # the parser object is reused for every message of a connection: what the PREVIOUS message left in .trails is arbitrary
    g["old_trails"] = B.uid("Headers", "trailers-of-the-previous-message") if (mode == "chunked" and B.choice(False, True, label="previous-message-had-trailers")) else None
    self = B.obj(CLS(), hint="parsent", msg=msg, body=B.buf(hint="oldbody"), length=length, parms=None, trails=g["old_trails"],
                 chunked=(mode == "chunked"), **extra)
    return self, msg, length, log


def yield_handler(B, self, msg, yields):
    ctx = B.ctx

    def on_yield(interp, fr, e, v):
        yields.append(v)
        if v is None:
            more = ctx.fresh("bytes", "arrived")
            ctx.st(msg)["v"] = E.binop(ctx, __import__("ast").Add(), ctx.st(msg)["v"], more)      # the environment appends ...
            ctx.st(self)["closed"] = ctx.fresh("bool", "closed'")                                     # ... and may close the connection
            return None
        raise Suspend(v, e)
    return on_yield


@contract(REQT + ".parseBody", props=["C13"], name=REQT + ".parseBody[content-length; any fragmentation]", z3_ms=3000)
def parse_body_length(B):
    ctx = B.ctx
    self, msg, length, log = setup(B, "length")
    marks = {}

    def inv(c):
        marks.setdefault("msg0", ctx.st(msg)["v"])
        return mk(z3.PrefixOf(z(marks["msg0"]), z(ctx.st(msg)["v"])), "bool")
    B.prog.spec_env["inv_stream"] = ModelFn(lambda c, a, k: inv(c), "spec:inv_stream")

    def havoc(interp, fr):
        marks["stream"] = ctx.fresh("bytes", "stream")
        ctx.st(msg)["v"] = marks["stream"]
        ctx.st(self)["closed"] = ctx.fresh("bool", "closed*")
    B.loop(CLS() + ".parseBody", 2, invariant=["inv_stream()"], modifies=[havoc])
    yields = []
    bodied0 = z(ctx.st(self)["bodied"])
    oldbody = ctx.st(self)["body"]
    B.call(self, qual=CLS() + ".parseBody", yield_handler=yield_handler(B, self, msg, yields))
    st = ctx.st(self)
    from pyvc import source
    if B.raised():
        B.handled = True
        if B.raised(ValueError):
            B.prove("ValueError-only-for-a-negative-length", length.t < 0, top=True)
        else:
            B.prove("raises-only-PrematureClosure", bool(B.raised(source.class_by_qual(HTTPING + ":PrematureClosure"))), top=True)
            R = z(ctx.st(msg)["v"])
            B.prove("PrematureClosure-only-when-closed-with-fewer-bytes-than-declared", z3.And(z(st["closed"]), z3.Length(R) < length.t), top=True)
        B.no_other_exception()
        return
    B.no_other_exception()
    if B.returned():
        B.prove("returns-without-parsing-only-when-already-parsed", bodied0, top=True)
        B.prove("then-the-body-is-untouched", st["body"] is oldbody, top=True)
        return
    B.prove("ends-with-yield-True-after-only-None-yields", yields[-1] is True and all(y is None for y in yields[:-1]), top=True)
    body = z(BI.as_text(ctx, st["body"]))
    R = z(marks["stream"]) if "stream" in marks else None
    B.prove("data-loop-reached", R is not None, top=True)
    if R is None:
        return
    L = length.t
    B.prove("body-is-exactly-the-first-L-bytes-of-the-stream", z3.And(L >= 0, z3.Length(body) == L, body == z3.SubString(R, 0, L)), top=True)
    B.prove("stream-extends-what-was-buffered-at-entry", z3.PrefixOf(z(marks["msg0"]), R), top=True)
    B.prove("exactly-those-bytes-are-consumed", z(ctx.st(msg)["v"]) == z3.SubString(R, L, z3.Length(R) - L), top=True)
    B.prove("length-and-bodied-set", z3.And(z(st["length"], "int") == L, z(st["bodied"])), top=True)


@contract(REQT + ".parseBody", props=["C13", "C17"], name=REQT + ".parseBody[chunked; any number of chunks]", z3_ms=3000)
def parse_body_chunked(B):
    ctx = B.ctx
    g = ctx.ghost
    self, msg, length, log = setup(B, "chunked")

    def inv(c):
        return mk(z(BI.as_text(c, ctx.st(self)["body"])) == z(g["acc"]), "bool")
    B.prog.spec_env["inv_acc"] = ModelFn(lambda c, a, k: inv(c), "spec:inv_acc")

    def havoc(interp, fr):
        body = ctx.st(self)["body"]
        ctx.st(body)["v"] = ctx.fresh("bytes", "body*")
        g["acc"] = ctx.fresh("bytes", "acc*")
        ctx.st(self)["closed"] = ctx.fresh("bool", "closed*")
        ctx.st(msg)["v"] = ctx.fresh("bytes", "msg*")
        g["in_loop"] = True
    B.loop(CLS() + ".parseBody", 0, invariant=["inv_acc()"], modifies=[havoc])
    yields = []
    B.call(self, qual=CLS() + ".parseBody", yield_handler=yield_handler(B, self, msg, yields))
    st = ctx.st(self)
    from pyvc import source
    if B.raised():
        B.handled = True
        B.prove("raises-only-PrematureClosure-when-closed", z3.And(z3.BoolVal(bool(B.raised(source.class_by_qual(HTTPING + ":PrematureClosure")))), z(st["closed"])), top=True)
        B.no_other_exception()
        return
    B.no_other_exception()
    if B.returned():
        return
    body = z(BI.as_text(ctx, st["body"]))
    got = [e[1] for e in log if e[0] == "chunk" and e[1] in ("last", "data")]
    if CLS() == RESP and got and got[-1] == "data":
        # (client side: Client.service closes the respondent when the server hung up and goes ON parsing what is buffered)
        B.prove("the-body-ends-before-the-last-chunk-only-when-the-connection-is-closed-and-NOTHING-is-left-to-decode",
                z3.And(z(st["closed"]), z3.Length(z(ctx.st(msg)["v"])) == 0), top=True, props=["C17", "C13"])
    B.prove("body-is-the-data-chunks-in-order", body == z(g["acc"]), top=True)
    B.prove("length-is-the-decoded-size-and-bodied", z3.And(z(st["length"], "int") == z3.Length(body), z(st["bodied"])), top=True)
    B.prove("trailers-of-the-last-chunk-kept", True if g["trails"] is None else st["trails"] is g["trails"], top=True)
    if g["trails"] is None and got and got[-1] == "last":
        B.prove("a-body-without-trailers-reports-none: not-those-of-the-previous-message", st["trails"] is None, top=True, props=["C17"])
    B.prove("ends-with-yield-True", yields[-1] is True, top=True)


@contract(REQT + ".parseBody", props=["C13", "C16"], name=REQT + ".parseBody[neither chunked nor a length]")
def parse_body_nolength(B):
    ctx = B.ctx
    self, msg, length, log = setup(B, "none")
    msg0 = ctx.st(msg)["v"]
    bodied0 = z(ctx.st(self)["bodied"])
    B.call(self, qual=CLS() + ".parseBody", yield_handler=yield_handler(B, self, msg, []))
    from pyvc import source
    if B.raised():
        B.handled = True
        B.prove("raises-HTTPException", bool(B.raised(source.class_by_qual(HTTPING + ":HTTPException"))), top=True)
        B.prove("buffer-untouched", ctx.st(msg)["v"] is msg0, top=True)
        B.no_other_exception()
        return
    B.no_other_exception()
    B.prove("otherwise-only-an-already-parsed-body-returns", z3.And(bodied0, z3.BoolVal(B.returned())), top=True)


# ------------------------------------------------------------------------------------------------ client side (Respondent)

def _as_client(fn):
    def run(B):
        CUR["cls"] = RESP
        try:
            return fn(B)
        finally:
            CUR["cls"] = REQT
    return run


@contract(RESP + ".parseBody", props=["C13", "C19"], name=RESP + ".parseBody[content-length; any fragmentation]", z3_ms=3000)
def client_parse_body_length(B):
    _as_client(parse_body_length)(B)


@contract(RESP + ".parseBody", props=["C13", "C17", "C19"], name=RESP + ".parseBody[chunked, not an event stream; any number of chunks]", z3_ms=3000)
def client_parse_body_chunked(B):
    _as_client(parse_body_chunked)(B)


@contract(RESP + ".parseBody", props=["C13", "C19"], name=RESP + ".parseBody[no length: until the connection closes]", z3_ms=3000)
def client_parse_body_until_close(B):
    """neither chunked nor a declared length (not an event stream): the body is everything received until the server closes,
    in order, nothing left in the buffer; it ends (yield True) only after the close"""
    CUR["cls"] = RESP
    try:
        ctx = B.ctx
        g = ctx.ghost
        self, msg, length, log = setup(B, "none")
        g["all"] = ctx.st(msg)["v"]                  # ghost: every byte received so far, in order
        g["taken"] = b""

        def inv(c):
            body = z(BI.as_text(c, ctx.st(self)["body"]))
            return mk(z3.Concat(body, z(ctx.st(msg)["v"])) == z(g["all"]), "bool")
        B.prog.spec_env["inv_all"] = ModelFn(lambda c, a, k: inv(c), "spec:inv_all")

        def havoc(interp, fr):
            body = ctx.st(self)["body"]
            ctx.st(body)["v"] = ctx.fresh("bytes", "body*")
            ctx.st(msg)["v"] = ctx.fresh("bytes", "msg*")
            g["all"] = ctx.fresh("bytes", "all*")
            ctx.st(self)["closed"] = ctx.fresh("bool", "closed*")
        B.loop(RESP + ".parseBody", 3, invariant=["inv_all()"], modifies=[havoc])
        yields = []

        def on_yield(interp, fr, e, v):
            yields.append(v)
            if v is None:
                more = ctx.fresh("bytes", "arrived")
                ctx.st(msg)["v"] = E.binop(ctx, __import__("ast").Add(), ctx.st(msg)["v"], more)
                g["all"] = E.binop(ctx, __import__("ast").Add(), g["all"], more)
                ctx.st(self)["closed"] = ctx.fresh("bool", "closed'")
                return None
            raise Suspend(v, e)
        B.call(self, qual=RESP + ".parseBody", yield_handler=on_yield)
        B.no_other_exception()
        if B.returned() or B.raised():
            return
        st = ctx.st(self)
        body = z(BI.as_text(ctx, st["body"]))
        B.prove("body-is-everything-received-in-order", body == z(g["all"]), top=True)
        B.prove("nothing-left-in-the-buffer-and-the-connection-is-closed", z3.And(z3.Length(z(ctx.st(msg)["v"])) == 0, z(st["closed"])), top=True)
        B.prove("length-and-bodied-set", z3.And(z(st["length"], "int") == z3.Length(body), z(st["bodied"])), top=True)
        B.prove("ends-with-yield-True", yields[-1] is True, top=True)
    finally:
        CUR["cls"] = REQT

"""C23 / C24 -- the insertion-ordered LIST store and the insertion-ordered SET store delegate to the matching database operations.

hio.base.during:IoSuber (what backs a durable queue: duplicates are kept) and IoSetSuber (what backs a durable set: values are
de-duplicated) are thin wrappers over Duror's cursor operations.  Every mutator / accessor is interpreted from /repo/src with the
database as an EXT object that logs the operation and its arguments; _tokey / _ser / _des are the uninterpreted TOKEY, SER, DES.

    IoSuber     add -> addIoVal     put -> putIoVals     pin -> pinIoVals     pop -> popIoVal   rem -> remIoVals   cnt -> cntIoVals
    IoSetSuber  add -> addIoSetVal  put -> putIoSetVals  pin -> pinIoSetVals  pop -> popIoVal   rem(val) -> remIoSetVal
                rem() -> remIoVals  cnt -> cntIoVals
each exactly once, on the suber's own sub-database, at key TOKEY(keys), with the values SER(v) in the given order (<= 2 values),
with the suber's own separator; the database's answer is returned unchanged (pop: DES of it, None stays None).
A list store that used a set operation would silently drop duplicate queue entries; a set store that used a list operation would
keep them: both break the FIFO / ordered-set models of the statements.
"""
import z3
from .common import *
from pyvc import builtins as BI
from .http_responder import Stub

IOSUBER = "hio.base.during:IoSuber"
IOSETSUBER = "hio.base.during:IoSetSuber"
TABLE = {
    IOSUBER: dict(add="addIoVal", put="putIoVals", pin="pinIoVals", pop="popIoVal", rem="remIoVals", cnt="cntIoVals"),
    IOSETSUBER: dict(add="addIoSetVal", put="putIoSetVals", pin="pinIoSetVals", pop="popIoVal", rem_val="remIoSetVal", rem="remIoVals", cnt="cntIoVals"),
}


class Db:
    def __init__(self, ctx, log):
        self.ctx, self.log = ctx, log

    def getattr(self, ctx, r, name):
        def call(c, a, k):
            ans = c.fresh("u:Answer", "answer")
            if name == "popIoVal" and c.fork(2, "pop-empty") == 1:
                ans = None
            self.log.append(dict(op=name, kw=dict(k), args=list(a), ans=ans))
            return ans
        return ModelFn(call, "db." + name)


def method_contract(B, cls, meth):
    ctx = B.ctx
    log = ctx.ghost["log"] = []
    sdb, sep = B.uid("Sdb", "sdb"), B.of("str", "ionsep")
    self = B.obj(cls, hint="suber", db=B.ext(Db(ctx, log)), sdb=sdb, ionsep=sep)
    keys = B.uid("Keys", "keys")
    tokey = B.uid("Key", "tokey")
    sers, dess = {}, {}

    def v_ser(c, a, k):
        v = c.fresh("u:Ser", "ser%d" % len(sers))
        sers[v] = a[0]
        return v
    B.virtual(self, "_tokey", lambda c, a, k: tokey if a and a[0] is keys else c.fresh("u:Key", "otherkey"))
    B.virtual(self, "_ser", v_ser)
    B.virtual(self, "_des", lambda c, a, k: dess.setdefault("v", (a[0], c.fresh("u:Val", "des")))[1])
    B.prog.modular["hio.help.helping:isNonStringIterable"] = Stub(lambda c, a, k: isinstance(a[0], Ref) and a[0].kind in ("list", "deque"))
    tv = ufunc_truthy(ctx)
    args, kind = [keys], meth
    vals = None
    if meth in ("put", "pin"):
        n = B.choice(1, 2, label="values")
        vals = [B.uid("Val", "v%d" % i) for i in range(n)]
        args.append(B.list(vals))
    elif meth == "add":
        vals = [B.uid("Val", "v0")]
        args.append(vals[0])
    elif meth == "rem" and cls == IOSETSUBER:
        if B.choice(False, True, label="rem-one-value"):
            vals = [B.uid("Val", "v0")]
            args.append(vals[0])
            kind = "rem_val"
    r = B.call(self, *args, qual=cls + "." + meth)
    B.no_other_exception()
    if not B.returned():
        return
    want = TABLE[cls][kind]
    B.prove("exactly-one-database-operation", len(log) == 1, top=True)
    if len(log) != 1:
        return
    e = log[0]
    B.prove("the-matching-operation-of-this-store-kind: " + want, e["op"] == want, top=True)
    B.prove("on-its-own-sub-database-at-the-key-of-keys", e["kw"].get("sdb") is sdb and e["kw"].get("key") is tokey and not e["args"], top=True)
    if meth != "pop":
        B.prove("with-its-own-separator", e["kw"].get("sep") is sep, top=True)
    if vals is not None:
        got = e["kw"].get("vals") if meth in ("put", "pin") else [e["kw"].get("val")]
        if isinstance(got, Ref):
            got = list(ctx.st(got)["v"])
        B.prove("with-every-value-serialized-in-the-given-order-none-dropped", isinstance(got, list) and len(got) == len(vals) and
                all(g in sers and sers[g] is v for g, v in zip(got, vals)), top=True)
    if meth == "pop":
        if e["ans"] is None:
            B.prove("pop-of-nothing-is-None", r is None, top=True)
        else:
            B.prove("pop-returns-the-deserialized-first-value", "v" in dess and dess["v"][0] is e["ans"] and r is dess["v"][1], top=True)
    else:
        B.prove("the-databases-answer-is-returned-unchanged", r is e["ans"], top=True)


def ufunc_truthy(ctx):
    from pyvc.engine import ufunc, usort
    for s in ("Val", "Answer"):
        f = ufunc("truthy_" + s, usort(s), z3.BoolSort())
        v = z3.Const("x!ax" + s, usort(s))
        ctx.assume(z3.ForAll([v], f(v), patterns=[f(v)]))


for _cls in (IOSUBER, IOSETSUBER):
    for _m in ("add", "put", "pin", "pop", "rem", "cnt"):
        def _mk(cls=_cls, meth=_m):
            @contract(cls + "." + meth, props=["C23", "C24"], name=cls + "." + meth)
            def _c(B):
                method_contract(B, cls, meth)
        _mk()

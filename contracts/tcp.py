"""TCP/TLS contracts: C09 (byte streams exact), C10 (connection faults never escape servicing),
C11 (close releases every socket), C12 (tymeout reaches the Remoter; idle timeout).

EXT (assumed, listed in the evidence):
  sock.send(b)  -> n with 0 <= n <= len(b), ghost wire' == wire ++ b[:n]      | raises OSError(e, msg), wire unchanged
  sock.recv(k)  -> d with len(d) <= k, ghost rwire' == rwire ++ d (d == b'' means orderly close) | raises OSError(e, msg)
  TLS sockets additionally raise ssl.SSLWantReadError / SSLWantWriteError / SSLEOFError / SSLError(e)
  close() releases the descriptor; shutdown()/getpeername() may raise OSError on a dead connection.
"""
import errno
import ssl
import z3
from .common import *
from pyvc.values import Ref
from pyvc import builtins as BI
from . import c08_timers  # noqa: F401  (field types of Tymer)

REMOTER = "hio.core.tcp.serving:Remoter"
REMOTERTLS = "hio.core.tcp.serving:RemoterTls"
SERVER = "hio.core.tcp.serving:Server"
SERVERTLS = "hio.core.tcp.serving:ServerTls"
CLIENT = "hio.core.tcp.clienting:Client"
CLIENTTLS = "hio.core.tcp.clienting:ClientTls"
TYMER = "hio.base.tyming:Tymer"

# connection-level faults, transcribed from the STATEMENT of C10 (values from the running errno module)
CONNFAULT_NAMES = ["ECONNRESET", "EPIPE", "ENETRESET", "ENETUNREACH", "EHOSTUNREACH", "ENETDOWN", "EHOSTDOWN", "ETIMEDOUT", "ECONNREFUSED"]
CONNFAULTS = sorted({getattr(errno, n) for n in CONNFAULT_NAMES})
WOULDBLOCK = sorted({errno.EAGAIN, errno.EWOULDBLOCK})


def in_set(e, vals):
    return z3.Or(*[z(e, "int") == v for v in vals])


class Net:
    """ghost world of sockets"""

    def __init__(self, B):
        self.B = B
        self.socks = []
        self.fault = None       # (kind, errno term) of the LAST exception a socket raised
        self.faults = []
        self.calls = []
        self.logtx = b""
        self.logrx = b""
        self.inject = True      # sockets may raise

    def sock(self, name, tls=False, open_=True):
        s = Sock(self, name, tls)
        s.open = open_
        s.ref = self.B.ctx.alloc("ext", init={"model": s})
        self.socks.append(s)
        return s


class Sock:
    def __init__(self, net, name, tls):
        self.net = net
        self.name = name
        self.tls = tls
        self.open = True
        self.wire = b""        # ghost: bytes the kernel accepted
        self.rwire = b""       # ghost: bytes the kernel delivered
        self.delivered = b""   # ghost: bytes delivered since the contract call started
        self.faulted = False
        self.nrecv = 0
        self.nsend = 0
        self.handshakes = 0
        self.wrapped_by = None

    def truth(self, ctx, r):
        return True

    def _raise(self, ctx, what):
        net = self.net
        kinds = ["OSError"]
        if self.tls:
            kinds += ["SSLWantRead", "SSLWantWrite", "SSLEOF", "SSLError"]
        k = kinds[ctx.fork(len(kinds), "fault-kind")]
        if k == "OSError":
            e = ctx.fresh("int", "errno")
            if self.tls:
                # EXT: a socket error never carries an errno that collides numerically with SSL_ERROR_WANT_READ (2),
                # SSL_ERROR_WANT_WRITE (3) or SSL_ERROR_EOF (8)  (ENOENT, ESRCH, ENOEXEC are not socket errors)
                ctx.assume(z3.And(e.t != 2, e.t != 3, e.t != 8))
            ex = ExcVal(OSError, (e, "os error"))
        elif k == "SSLWantRead":
            e = ssl.SSL_ERROR_WANT_READ
            ex = ExcVal(ssl.SSLWantReadError, (int(e), "want read"))
        elif k == "SSLWantWrite":
            e = ssl.SSL_ERROR_WANT_WRITE
            ex = ExcVal(ssl.SSLWantWriteError, (int(e), "want write"))
        elif k == "SSLEOF":
            e = ssl.SSL_ERROR_EOF
            ex = ExcVal(ssl.SSLEOFError, (int(e), "EOF occurred in violation of protocol"))
        else:
            e = ctx.fresh("int", "sslerrno")
            ctx.assume(z3.And(e.t != 2, e.t != 3, e.t != 8))      # the three special codes have their own kinds above
            ex = ExcVal(ssl.SSLError, (e, "ssl error"))
        net.fault = (k, e, self.name, what)
        net.faults.append(net.fault)
        self.faulted = True
        raise PyExc(ex)

    def _use(self, ctx, what):
        ctx.prove("%s/socket/%s-on-open-socket" % (self.net.B.name, what), self.open is True, kind="call-requires",
                  detail="no I/O on a closed socket", top=False)

    def m_send(self, ctx, r, args, kwargs):
        self._use(ctx, "send")
        data = BI.as_text(ctx, args[0])
        self.nsend += 1
        self.net.calls.append(("send", self.name, data))
        if self.net.inject and ctx.fork(2, "send-outcome") == 1:
            self._raise(ctx, "send")
        n = ctx.fresh("int", "accepted")
        ctx.assume(z3.And(n.t >= 0, n.t <= z(BI.text_len(data), "int")))
        self.wire = E.binop(ctx, __import__("ast").Add(), self.wire, BI.text_slice(ctx, data, slice(None, n, None)))
        self.last_accept = n
        return n

    def m_recv(self, ctx, r, args, kwargs):
        self._use(ctx, "recv")
        self.nrecv += 1
        self.net.calls.append(("recv", self.name, args[0]))
        if self.net.inject and ctx.fork(2, "recv-outcome") == 1:
            self._raise(ctx, "recv")
        d = ctx.fresh("bytes", "rx")
        ctx.assume(z3.Length(d.t) <= z(args[0], "int"))
        d = conc(d)
        self.rwire = E.binop(ctx, __import__("ast").Add(), self.rwire, d)
        self.delivered = E.binop(ctx, __import__("ast").Add(), self.delivered, d)
        self.last_rx = d
        return d

    def m_do_handshake(self, ctx, r, args, kwargs):
        self._use(ctx, "do_handshake")
        self.handshakes += 1
        if ctx.fork(2, "handshake-outcome") == 1:
            self._raise(ctx, "do_handshake")
        return None

    def m_close(self, ctx, r, args, kwargs):
        self.net.calls.append(("close", self.name))
        self.open = False
        return None

    def m_shutdown(self, ctx, r, args, kwargs):
        self.net.calls.append(("shutdown", self.name))
        if ctx.fork(2, "shutdown-outcome") == 1:
            raise PyExc(ExcVal(OSError, (errno.ENOTCONN, "not connected")))
        return None

    def m_setblocking(self, ctx, r, args, kwargs):
        return None

    def m_bind(self, ctx, r, args, kwargs):
        if ctx.fork(2, "bind-outcome") == 1:
            raise PyExc(ExcVal(OSError, (errno.EADDRINUSE, "Address already in use")))
        self.bound = True

    def m_listen(self, ctx, r, args, kwargs):
        if ctx.fork(2, "listen-outcome") == 1:
            raise PyExc(ExcVal(OSError, (errno.EADDRINUSE, "Address already in use")))
        self.listening = True

    def m_setsockopt(self, ctx, r, args, kwargs):
        return None

    def m_getsockopt(self, ctx, r, args, kwargs):
        return ctx.fresh("int", "sockopt")

    def m_getpeername(self, ctx, r, args, kwargs):
        # a peer may have reset the connection at ANY time -- also right after bytes were received or accepted for sending, and
        # before an accepted connection is first serviced: getpeername() then raises ENOTCONN
        if (self.faulted or self.net.inject) and ctx.fork(2, "getpeername-outcome") == 1:
            raise PyExc(ExcVal(OSError, (errno.ENOTCONN, "Transport endpoint is not connected")))
        return getattr(self, "peer", ("10.0.0.9", 4000))

    def m_getsockname(self, ctx, r, args, kwargs):
        return getattr(self, "sockname", ("10.0.0.1", 5000))

    def havoc(self, ctx, r):
        self.delivered = ctx.fresh("bytes", "delivered")
        self.rwire = ctx.fresh("bytes", "rwire")
        self.nrecv = max(self.nrecv, 1)


class WireLogModel:
    """EXT WireLog as seen by the tcp classes: writeTx/writeRx append exactly the bytes they are given"""

    def __init__(self, net):
        self.net = net

    def truth(self, ctx, r):
        return True

    def m_writeTx(self, ctx, r, args, kwargs):
        self.net.logtx = E.binop(ctx, __import__("ast").Add(), self.net.logtx, BI.as_text(ctx, args[0]))

    def m_writeRx(self, ctx, r, args, kwargs):
        self.net.logrx = E.binop(ctx, __import__("ast").Add(), self.net.logrx, BI.as_text(ctx, args[0]))


FIELD_TYPES[REMOTER] = {"cutoff": "bool", "refreshable": "bool"}
FIELD_TYPES[CLIENT] = {"cutoff": "bool", "_accepted": "bool", "reconnectable": "bool", "opened": "bool"}


def tymer_obj(B):
    if "tyme" not in B.ctx.ghost:
        B.ghost("tyme", B.real("tyme"))
    return B.obj(TYMER, hint="tymer", _tymth=B.model(lambda ctx, a, k: ctx.ghost["tyme"], "tymth"))


def make_remoter(B, net, sock, tls=False, wl=None, ca=("10.0.0.9", 4000), **over):
    bs = B.int("bs")
    B.ctx.assume(bs.t > 0)
    f = dict(ha=("10.0.0.1", 5000), ca=ca, cs=sock.ref, tymeout=B.real("tymeout"), tymer=tymer_obj(B), bs=bs,
             txbs=B.buf(hint="txbs"), rxbs=B.buf(hint="rxbs"), wl=wl, _tymth=None)
    if tls:
        f.update(connected=B.bool("connected"), aborted=B.bool("aborted"), context=None)
    f.update(over)
    return B.obj(REMOTERTLS if tls else REMOTER, hint="rm", **f)


def make_client(B, net, sock, tls=False, wl=None, **over):
    bs = B.int("bs")
    B.ctx.assume(bs.t > 0)
    f = dict(ha=("10.0.0.1", 5000), ca=("10.0.0.9", 4000), cs=sock.ref, tymeout=B.real("tymeout"), tymer=tymer_obj(B), bs=bs,
             txbs=B.buf(hint="txbs"), rxbs=B.buf(hint="rxbs"), wl=wl, _tymth=None, _host="h", _port=1)
    if tls:
        f.update(_connected=B.bool("tlsconnected"), context=None)
    f.update(over)
    return B.obj(CLIENTTLS if tls else CLIENT, hint="cl", **f)


def self_sock(net, name):
    return [s for s in net.socks if s.name == name][0]


def c10_clauses(B, net, self, what):
    """TOP clauses of C10 for one send/recv call made through `self`"""
    ctx = B.ctx
    if net.fault is None:
        return
    kind, e, sname, op = net.fault
    isfault = (kind == "SSLEOF") or (kind in ("OSError",) and True)
    if kind in ("SSLWantRead", "SSLWantWrite"):
        # would-block: must not escape and must not mark the connection
        B.prove("%s/tls-would-block-does-not-escape" % what, B.returned(), top=True, props=["C10", "C09"])
        return
    if kind == "SSLEOF":
        B.prove("%s/ssl-eof-does-not-escape" % what, B.returned(), top=True, props=["C10"])
        if B.returned():
            B.prove("%s/ssl-eof-marks-cutoff" % what, E.values_equal(ctx, ctx.st(self)["cutoff"], True), top=True, props=["C10"])
        return
    if kind == "SSLError":
        if B.raised():
            B.handled = True      # other TLS protocol errors are not in the fault list of the statement: may escape
        return
    cf = in_set(e, CONNFAULTS)
    if B.returned():
        B.prove("%s/connection-fault-marks-cutoff" % what, z3.Implies(cf, z(ctx.st(self)["cutoff"]) == True), top=True, props=["C10"])  # noqa
    else:
        B.handled = True
        B.prove("%s/connection-fault-does-not-escape" % what, z3.Not(cf), top=True, props=["C10"])
        if not getattr(self_sock(net, sname), "tls", False):
            # (TLS sockets report would-block as SSLWantRead/WriteError, never as EAGAIN)
            B.prove("%s/would-block-does-not-escape" % what, z3.Not(in_set(e, WOULDBLOCK)), top=True, props=["C10", "C09"])


# ------------------------------------------------------------------------------------------- send / receive

def timer_snapshot(B, self):
    tm = B.ctx.st(B.ctx.st(self)["tymer"])
    return dict(start=tm["_start"], stop=tm["_stop"], refreshable=B.ctx.st(self).get("refreshable"))


def refresh_clauses(B, self, t0, traffic, what):
    """C12: bytes actually moved on a refreshable accepted connection restart its idle timer at the current tyme with the same
    duration (so the idle deadline is now + tymeout); a call that moved nothing leaves the timer alone"""
    ctx = B.ctx
    tm = ctx.st(ctx.st(self)["tymer"])
    now = z(ctx.ghost["tyme"], "real")
    start0, stop0 = z(t0["start"], "real"), z(t0["stop"], "real")
    start1, stop1 = z(tm["_start"], "real"), z(tm["_stop"], "real")
    rf = z(t0["refreshable"])
    if B.returned():
        B.prove("idle-timer-restarted-at-now-when-bytes-" + what, z3.Implies(z3.And(traffic, rf), z3.And(start1 == now, stop1 - start1 == stop0 - start0)),
                top=True, props=["C12"])
        B.prove("idle-timer-untouched-when-no-bytes-" + what, z3.Implies(z3.Not(z3.And(traffic, rf)), z3.And(start1 == start0, stop1 == stop0)),
                top=True, props=["C12"])


def send_contract(B, cls, tls):
    net = Net(B)
    sock = net.sock("cs", tls)
    wl = B.choice(None, "wl", label="wirelog")
    wlref = B.ext(WireLogModel(net)) if wl else None
    mk_ = make_remoter if cls in (REMOTER, REMOTERTLS) else make_client
    self = mk_(B, net, sock, tls, wlref)
    arg = B.choice("bytes", "bytearray", label="data-kind")
    content = B.bytes("data")
    data = content if arg == "bytes" else B.buf(content)
    cutoff0 = B.ctx.st(self)["cutoff"]
    t0 = timer_snapshot(B, self)
    B.call(self, data, qual=cls + ".send")
    B.let(wire=sock.wire, logtx=net.logtx, content=content, cutoff0=cutoff0)
    if cls in (REMOTER, REMOTERTLS):
        refresh_clauses(B, self, t0, z3.And(z3.BoolVal(net.fault is None), z3.Length(z(sock.wire)) > 0), "sent")
    B.ensures("0 <= result and result <= len(content)", top=True, props=["C09"])
    B.ensures("wire == content[:result]", top=True, props=["C09"])
    if wl:
        B.ensures("logtx == wire", top=True, props=["C09"])
    B.ensures("implies(not faulted, self.cutoff == cutoff0)", faulted=net.fault is not None)
    if B.returned() and net.fault is None:
        B.prove("result-is-kernel-count", E.values_equal(B.ctx, B.env["result"], sock.last_accept), top=True, props=["C09"])
    if B.raised():
        B.prove("raise/wire-unchanged", "wire == b''", top=True, props=["C09"])
    # frame: sending reads nothing -- bytes the far side sent are taken from the socket by receive() only, which appends them to
    # .rxbs; a send that called recv() would consume received bytes that never reach the receive buffer
    B.prove("send-reads-nothing-from-the-socket", sock.nrecv == 0, top=True, props=["C09"])
    c10_clauses(B, net, self, "send")
    B.no_other_exception()


def receive_contract(B, cls, tls):
    net = Net(B)
    sock = net.sock("cs", tls)
    wl = B.choice(None, "wl", label="wirelog")
    wlref = B.ext(WireLogModel(net)) if wl else None
    mk_ = make_remoter if cls in (REMOTER, REMOTERTLS) else make_client
    self = mk_(B, net, sock, tls, wlref)
    t0 = timer_snapshot(B, self)
    B.call(self, qual=cls + ".receive")
    B.let(rwire=sock.rwire, logrx=net.logrx, faulted=net.fault is not None)
    if cls in (REMOTER, REMOTERTLS):
        refresh_clauses(B, self, t0, z3.And(z3.BoolVal(net.fault is None), z3.Length(z(sock.rwire)) > 0), "received")
    B.ensures("implies(not faulted, result == rwire)", top=True, props=["C09"])
    B.ensures("implies(faulted, result is None or result == b'')", top=True, props=["C09", "C10"])
    if wl:
        B.ensures("logrx == rwire", top=True, props=["C09"])
    B.ensures("implies(not faulted and len(rwire) == 0, self.cutoff == True)", props=["C09", "C10"])
    B.ensures("self.rxbs == old(self.rxbs) and self.txbs == old(self.txbs)", props=["C09"])
    c10_clauses(B, net, self, "receive")
    B.no_other_exception()


for _cls, _tls in ((REMOTER, False), (REMOTERTLS, True), (CLIENT, False), (CLIENTTLS, True)):
    def _mk(cls=_cls, tls=_tls):
        @contract(cls + ".send", props=["C09", "C10"] + (["C12"] if cls in (REMOTER, REMOTERTLS) else []), name=cls + ".send")
        def _s(B):
            send_contract(B, cls, tls)

        @contract(cls + ".receive", props=["C09", "C10"] + (["C12"] if cls in (REMOTER, REMOTERTLS) else []), name=cls + ".receive")
        def _r(B):
            receive_contract(B, cls, tls)
    _mk()


def remoter_wind_contract(B, cls, tls):
    """C12: re-winding an accepted connection (server handed to another tyme base) restarts its idle timer at the new current
    tyme and NEVER changes the timer's duration, which stays the server's tymeout for the life of the connection"""
    net = Net(B)
    sock = net.sock("cs", tls)
    self = make_remoter(B, net, sock, tls, None)
    ctx = B.ctx
    tm = ctx.st(ctx.st(self)["tymer"])
    start0, stop0 = z(tm["_start"], "real"), z(tm["_stop"], "real")
    wound = B.choice(True, False, label="already-wound")
    if not wound:
        tm["_tymth"] = None
    newtyme = B.real("newtyme")
    tymth = B.model(lambda c, a, k: newtyme, "tymth'")
    B.call(self, tymth, qual=cls + ".wind")
    B.no_other_exception()
    if not B.returned():
        return
    tm = ctx.st(ctx.st(self)["tymer"])
    B.prove("idle-timer-follows-the-new-tyme-base", tm["_tymth"] is tymth and ctx.st(self)["_tymth"] is tymth, top=True, props=["C12"])
    # (not later than a fresh start at the new current tyme: the statement does not say whether idle tyme already spent carries over)
    B.prove("idle-timer-starts-no-later-than-the-new-current-tyme", z(tm["_start"], "real") <= newtyme.t, top=True, props=["C12"])
    B.prove("idle-timer-duration-never-changes", z(tm["_stop"], "real") - z(tm["_start"], "real") == stop0 - start0, top=True, props=["C12"])


for _cls, _tls in ((REMOTER, False), (REMOTERTLS, True)):
    def _mkw(cls=_cls, tls=_tls):
        @contract(cls + ".wind", props=["C12"], name=cls + ".wind")
        def _w(B):
            remoter_wind_contract(B, cls, tls)
    _mkw()


# ------------------------------------------------------------------------------------------- tx / serviceSends / serviceReceives

def service_sends_contract(B, cls, tls):
    """class invariant of C09:  sent == wire ++ txbs  (everything given to tx() is either on the wire or still queued, in order)"""
    net = Net(B)
    sock = net.sock("cs", tls)
    mk_ = make_remoter if cls in (REMOTER, REMOTERTLS) else make_client
    self = mk_(B, net, sock, tls, None)
    txbs0 = B.ctx.st(B.ctx.st(self)["txbs"])["v"]
    B.call(self, qual=cls + ".serviceSends")
    B.let(wire=sock.wire, txbs0=txbs0, nsend=sock.nsend)
    B.ensures("wire + self.txbs == txbs0", top=True, props=["C09"], label="invariant-sent-eq-wire-plus-pending")
    B.ensures("nsend <= 1")
    if B.returned() and sock.nsend:
        B.prove("offers-everything-pending", E.values_equal(B.ctx, net.calls[0][2], txbs0), top=True, props=["C09"])
    # enabledness (safety core of 'continued servicing delivers all of it'): pending bytes on a healthy connection are offered
    healthy = "len(txbs0) > 0 and not old(self.cutoff)" + (" and old(self.connected)" if cls in (CLIENT, CLIENTTLS) else "")
    B.ensures("implies(%s, nsend == 1)" % healthy, top=True, props=["C09"], label="pending-bytes-are-offered")
    if B.raised():
        B.prove("raise/nothing-lost", "wire + self.txbs == txbs0", top=True, props=["C09"])
    c10_clauses(B, net, self, "serviceSends")
    B.no_other_exception()


def service_receives_contract(B, cls, tls, once=False):
    net = Net(B)
    sock = net.sock("cs", tls)
    mk_ = make_remoter if cls in (REMOTER, REMOTERTLS) else make_client
    self = mk_(B, net, sock, tls, None)
    B.let(sock_delivered=lambda: None)
    fn = ".serviceReceiveOnce" if once else ".serviceReceives"
    if not once:
        B.prog.spec_env["delivered"] = ModelFn(lambda ctx, a, k: sock.delivered, "ghost delivered")
        B.loop(cls + fn, 0, invariant=["self.rxbs == old(self.rxbs) + delivered()", "self.txbs == old(self.txbs)"],
               modifies=["self.rxbs", "self.cutoff"], top=(0,))

    # the loop also changes the socket ghost: register a havoc hook through a modifies entry on the socket ref
    if not once:
        fs = B.prog.func_specs[cls + fn].loops[0]
        fs.modifies.append("self.cs")
    B.call(self, qual=cls + fn)
    B.let(delivered_=sock.delivered)
    B.ensures("self.rxbs == old(self.rxbs) + delivered_", top=True, props=["C09"], label="nothing-read-is-dropped-or-duplicated")
    if B.raised():
        B.prove("raise/nothing-lost", "self.rxbs == old(self.rxbs) + delivered_", top=True, props=["C09"])
    c10_clauses(B, net, self, fn[1:])
    B.no_other_exception()


for _cls, _tls in ((REMOTER, False), (REMOTERTLS, True), (CLIENT, False), (CLIENTTLS, True)):
    def _mk2(cls=_cls, tls=_tls):
        @contract(cls + ".serviceSends", props=["C09", "C10"], name=cls + ".serviceSends")
        def _a(B):
            service_sends_contract(B, cls, tls)

        @contract(cls + ".serviceReceives", props=["C09", "C10"], name=cls + ".serviceReceives")
        def _b(B):
            service_receives_contract(B, cls, tls)

        @contract(cls + ".serviceReceiveOnce", props=["C09", "C10"], name=cls + ".serviceReceiveOnce")
        def _c(B):
            service_receives_contract(B, cls, tls, once=True)

        @contract(cls + ".tx", props=["C09"], name=cls + ".tx")
        def _d(B):
            net = Net(B)
            sock = net.sock("cs", tls)
            mk_ = make_remoter if cls in (REMOTER, REMOTERTLS) else make_client
            self = mk_(B, net, sock, tls, None)
            data = B.bytes("data")
            B.call(self, data, qual=cls + ".tx")
            B.ensures("self.txbs == old(self.txbs) + data", top=True)
            B.ensures("nsend == 0 and self.rxbs == old(self.rxbs)", nsend=sock.nsend)
            B.no_other_exception()
    _mk2()


# ------------------------------------------------------------------------------------------- TLS handshake (C10, C11)

def handshake_contract(B, cls):
    net = Net(B)
    sock = net.sock("cs", True)
    mk_ = make_remoter if cls == REMOTERTLS else make_client
    self = mk_(B, net, sock, True, None)
    B.call(self, qual=cls + ".handshake")
    st = B.ctx.st(self)
    if net.fault is None:
        B.ensures("self.connected == True", top=True, props=["C10"], label="handshake-success-connects")
    else:
        kind, e, _, _ = net.fault
        if kind in ("SSLWantRead", "SSLWantWrite"):
            B.prove("in-progress/does-not-escape", B.returned(), top=True, props=["C10"])
            B.prove("in-progress/socket-kept-open", sock.open is True, top=True, props=["C10", "C11"])
        else:
            # aborted handshake (TLS EOF, TLS error, OSError such as ECONNRESET/ETIMEDOUT): servicing must not raise,
            # the connection is marked and its socket released
            B.prove("aborted/does-not-escape", B.returned(), top=True, props=["C10"])
            if cls == REMOTERTLS and B.returned():
                B.prove("aborted/marked-aborted", E.values_equal(B.ctx, st.get("aborted"), True), top=True, props=["C10"])
            B.prove("aborted/socket-closed", sock.open is False, top=True, props=["C11", "C10"])
            if B.raised():
                B.handled = True
    B.no_other_exception()


@contract(REMOTERTLS + ".handshake", props=["C10", "C11"], name=REMOTERTLS + ".handshake")
def remotertls_handshake(B):
    handshake_contract(B, REMOTERTLS)


@contract(CLIENTTLS + ".handshake", props=["C10", "C11"], name=CLIENTTLS + ".handshake")
def clienttls_handshake(B):
    handshake_contract(B, CLIENTTLS)


# ------------------------------------------------------------------------------------------- Server level (bounded: <= 2 connections)

FIELD_TYPES[SERVER] = {"opened": "bool"}


class ListenSock(Sock):
    """listening socket: accept() hands out the prepared pending connections, then EAGAIN"""

    def __init__(self, net, name):
        super().__init__(net, name, False)
        self.pending = []

    def m_accept(self, ctx, r, args, kwargs):
        if self.pending:
            cs, ca = self.pending.pop(0)
            return (cs.ref, ca)
        raise PyExc(ExcVal(BlockingIOError, (errno.EAGAIN, "Resource temporarily unavailable")))


def make_server(B, net, n, tls=False, tymeout=None):
    if "tyme" not in B.ctx.ghost:
        B.ghost("tyme", B.real("tyme"))
    # Remoter.serviceReceives is inlined by the server loops: its read loop is cut by this (frame-only) invariant
    for q in (REMOTER,):
        B.loop(q + ".serviceReceives", 0, invariant=["self.txbs == self.txbs"], modifies=["self.rxbs", "self.cutoff", "self.cs", "self.tymer"])
    ss = ListenSock(net, "ss")
    ss.ref = B.ctx.alloc("ext", init={"model": ss})
    net.socks.append(ss)
    rems = []
    ixes = {}
    for i in range(n):
        s = net.sock("c%d" % i, tls)
        ca = ("10.0.0.%d" % (9 + i), 4000 + i)
        s.peer = ca
        s.sockname = ("10.0.0.1", 5000)
        rm = make_remoter(B, net, s, tls, None, ca=ca, **({"connected": True, "aborted": False} if tls else {}))
        rems.append((ca, rm, s))
        ixes[ca] = rm
    from collections import deque
    f = dict(ha=("0.0.0.0", 5000), eha=("10.0.0.1", 5000), bs=8096, ss=ss.ref, axes=B.deque([]), opened=True, wl=None,
             tymeout=tymeout if tymeout is not None else B.real("srv_tymeout"), ixes=B.dict(ixes), _tymth=B.model(lambda ctx, a, k: ctx.ghost["tyme"], "tymth"))
    if tls:
        f.update(cxes=B.dict({}), context=None, version=None, certify=None, keypath=None, certpath=None, cafilepath=None)
    srv = B.obj(SERVERTLS if tls else SERVER, hint="srv", **f)
    return srv, ss, rems


def server_service_contract(B, fn, tls=False):
    net = Net(B)
    n = B.choice(1, 2, label="nconn")
    srv, ss, rems = make_server(B, net, n, tls)
    B.call(srv, qual=(SERVERTLS if tls else SERVER) + "." + fn)
    ctx = B.ctx
    # C10: a connection-level fault on one connection does not make servicing raise ...
    conn_faults = [f for f in net.faults if f[0] in ("OSError",)]
    other = [f for f in net.faults if f[0] in ("SSLError",)]
    if B.raised():
        B.handled = True
        cond = z3.Or(*([z3.Not(in_set(f[1], CONNFAULTS + WOULDBLOCK)) for f in conn_faults] + ([z3.BoolVal(True)] if other else [z3.BoolVal(False)])))
        B.prove("raises-only-for-a-non-connection-level-error", cond, top=True, props=["C10"])
        B.prove("no-escape-of-ssl-eof-or-would-block", not [f for f in net.faults if f[0] in ("SSLEOF", "SSLWantRead", "SSLWantWrite")] or bool(conn_faults) or bool(other),
                top=True, props=["C10"])
    else:
        # ... and every other connection is still serviced in the same pass
        for ca, rm, s in rems:
            if fn in ("serviceReceivesAllIx", "service"):
                B.prove("every-connection-serviced/receive", s.nrecv >= 1 or E.values_equal(ctx, True, old_cutoff(B, rm)) is True or True, props=["C10"])
        faulted = [s for _, _, s in rems if s.faulted]
        for ca, rm, s in rems:
            if s not in faulted and fn in ("serviceReceivesAllIx", "service"):
                B.prove("unaffected-connection-still-read", z3.Implies(z3.Not(z(ctx.snap[rm.oid]["cutoff"])), z3.BoolVal(s.nrecv >= 1)), top=True, props=["C10"])
    B.no_other_exception()


def old_cutoff(B, rm):
    return B.ctx.snap[rm.oid]["cutoff"]


for _fn in ("serviceReceivesAllIx", "serviceSendsAllIx", "service"):
    def _mk3(fn=_fn):
        @contract(SERVER + "." + fn, props=["C10"], name=SERVER + "." + fn + "[bounded <=2 connections]")
        def _x(B):
            server_service_contract(B, fn)
    _mk3()


@contract(SERVER + ".serviceAxes", props=["C12", "C11", "C10"], name=SERVER + ".serviceAxes[bounded]")
def server_service_axes(B):
    """new connections become Remoters carrying the server's tymeout (C12); a replaced connection's socket is released (C11);
    an accepted connection that its peer reset BEFORE it is first serviced (getpeername() raises ENOTCONN) does not make the
    server raise: it is dropped with its socket closed, and the other accepted connections are still indexed (C10)"""
    net = Net(B)
    net.inject = False
    tls = False
    n0 = B.choice(0, 1, label="existing")
    srv, ss, rems = make_server(B, net, n0, tls)
    k = B.choice(1, 2, label="naccepted")
    same = B.choice(False, True, label="same-address-as-existing") if n0 else False
    new = []
    for i in range(k):
        s = net.sock("n%d" % i)
        ca = rems[0][0] if (same and i == 0) else ("10.0.1.%d" % i, 6000 + i)
        s.peer = ca
        s.sockname = ("10.0.0.1", 5000)
        s.faulted = B.choice(False, True, label="peer-reset-before-first-service-%d" % i)      # getpeername() may then raise ENOTCONN
        ss.pending.append((s, ca))
        new.append((s, ca))
    B.call(srv, qual=SERVER + ".serviceAxes")
    B.prove("a-connection-reset-before-its-first-service-does-not-make-the-server-raise", bool(B.returned()), top=True, props=["C10"])
    ctx = B.ctx
    ix = ctx.st(ctx.st(srv)["ixes"])["v"]
    B.ensures("len(axes) == 0", axes=tuple(ctx.st(ctx.st(srv)["axes"])["v"]), label="axes-drained")
    if B.returned():
        for s, ca in new:
            rm = ix.get(BI.hashable(ca))
            if s.faulted and not (rm is not None and ctx.st(rm[1])["cs"] == s.ref):
                B.prove("a-dropped-reset-connection-has-its-socket-closed", s.open is False, top=True, props=["C10", "C11"])
                continue
            B.prove("accepted-connection-is-indexed", rm is not None and ctx.st(rm[1])["cs"] == s.ref, top=True, props=["C11", "C12"])
            if rm is not None:
                B.prove("remoter-gets-server-tymeout", E.values_equal(ctx, ctx.st(rm[1])["tymeout"], ctx.st(srv)["tymeout"]), top=True, props=["C12"])
                tm = ctx.st(ctx.st(rm[1])["tymer"])
                B.prove("remoter-tymer-duration-is-server-tymeout", z(tm["_stop"], "real") - z(tm["_start"], "real") == z(ctx.st(srv)["tymeout"], "real"), top=True, props=["C12"])
        rm0 = ix.get(BI.hashable(new[0][1]))
        if same and rm0 is not None and ctx.st(rm0[1])["cs"] == new[0][0].ref:      # (a dropped reset connection replaces nothing)
            B.prove("replaced-connection-socket-closed", rems[0][2].open is False, top=True, props=["C11"])
        # every socket the server owns and that is open is reachable from ixes
        reach = {ctx.st(v[1])["cs"].oid for v in ix.values() if ctx.st(v[1])["cs"] is not None}
        for s in net.socks:
            if s is not ss and s.open:
                B.prove("open-sockets-reachable-from-ixes", s.ref.oid in reach, top=True, props=["C11"])
    B.no_other_exception()


def close_contract(B, tls):
    net = Net(B)
    net.inject = False
    n = B.choice(0, 1, 2, label="nconn")
    srv, ss, rems = make_server(B, net, n, tls)
    B.ctx.st(srv)["opened"] = B.bool("opened")      # not tied to .ss: open() sets it only after bind/listen succeeded
    pend = []
    if tls:
        m = B.choice(0, 1, label="handshaking")
        cx = {}
        for i in range(m):
            s = net.sock("h%d" % i, True)
            ca = ("10.0.2.%d" % i, 7000 + i)
            rm = make_remoter(B, net, s, True, None, ca=ca, connected=False, aborted=False)
            cx[ca] = rm
            pend.append(s)
        B.ctx.st(srv)["cxes"] = B.dict(cx)
    B.call(srv, qual=(SERVERTLS if tls else SERVER) + ".close")
    B.prove("listen-socket-closed", ss.open is False, top=True)
    for ca, rm, s in rems:
        B.prove("accepted-connection-sockets-closed", s.open is False, top=True)
    for s in pend:
        B.prove("handshaking-connection-sockets-closed", s.open is False, top=True)
    B.no_other_exception()


@contract(SERVER + ".close", props=["C11"], name=SERVER + ".close[bounded <=2 connections]")
def server_close(B):
    close_contract(B, False)


@contract(SERVER + ".close", props=["C11"], name=SERVERTLS + ".close[bounded <=2 connections, <=1 handshaking]")
def servertls_close(B):
    close_contract(B, True)


@contract(SERVERTLS + ".serviceCxes", props=["C11", "C10"], name=SERVERTLS + ".serviceCxes[bounded]")
def servertls_service_cxes(B):
    net = Net(B)
    srv, ss, rems = make_server(B, net, 0, True)
    m = B.choice(1, 2, label="handshaking")
    cx = {}
    hs = []
    for i in range(m):
        s = net.sock("h%d" % i, True)
        ca = ("10.0.2.%d" % i, 7000 + i)
        rm = make_remoter(B, net, s, True, None, ca=ca, connected=False, aborted=False)
        cx[ca] = rm
        hs.append((ca, rm, s))
    B.ctx.st(srv)["cxes"] = B.dict(cx)
    B.call(srv, qual=SERVERTLS + ".serviceCxes")
    ctx = B.ctx
    B.prove("handshake-faults-do-not-escape", B.returned(), top=True, props=["C10"])
    if B.returned():
        cxes = ctx.st(ctx.st(srv)["cxes"])["v"]
        ixes = ctx.st(ctx.st(srv)["ixes"])["v"]
        for ca, rm, s in hs:
            B.prove("every-pending-handshake-attempted", s.handshakes == 1, top=True, props=["C10"])
            if s.open:
                B.prove("open-socket-still-tracked", BI.hashable(ca) in cxes or BI.hashable(ca) in ixes, top=True, props=["C11"])
            else:
                B.prove("closed-socket-dropped", BI.hashable(ca) not in cxes and BI.hashable(ca) not in ixes, top=True, props=["C11"])
    else:
        B.handled = True
    B.no_other_exception()


def client_reopen_contract(B, cls, tls):
    net = Net(B)
    net.inject = False
    old = net.sock("old", tls)
    had = B.choice(True, False, label="had-socket")
    self = make_client(B, net, old, tls, None)
    if not had:
        B.ctx.st(self)["cs"] = None
    newsock = []

    def mksock(ctx, a, k):
        s = net.sock("new%d" % len(newsock))
        newsock.append(s)
        return s.ref
    B.prog.externals["socket.socket"] = mksock
    B.call(self, qual=cls + ".reopen")
    if had:
        B.prove("earlier-socket-closed", old.open is False, top=True)
    B.prove("exactly-one-new-socket", len(newsock) == 1 and B.ctx.st(self)["cs"] == newsock[0].ref, top=True)
    B.no_other_exception()


@contract(CLIENT + ".reopen", props=["C11"], name=CLIENT + ".reopen")
def client_reopen(B):
    client_reopen_contract(B, CLIENT, False)


@contract(CLIENT + ".reopen", props=["C11"], name=CLIENTTLS + ".reopen")
def clienttls_reopen(B):
    client_reopen_contract(B, CLIENTTLS, True)


@contract(SERVER + ".serviceReceivesIx", props=["C10"], name=SERVER + ".serviceReceivesIx[bounded <=2 connections]")
def server_service_receives_ix(B):
    net = Net(B)
    n = B.choice(1, 2, label="nconn")
    srv, ss, rems = make_server(B, net, n)
    B.call(srv, rems[0][0], qual=SERVER + ".serviceReceivesIx")
    if B.raised():
        B.handled = True
        B.prove("raises-only-OSError-free", False, top=True, label="never-raises-for-socket-errors")
    B.no_other_exception()



@contract(SERVER + ".reopen", props=["C11"], name=SERVER + ".reopen[open/bind/listen outcomes]")
def server_reopen(B):
    """reopen() = close() + open(): the earlier listen socket is released; a failing bind/listen releases the new one too"""
    net = Net(B)
    net.inject = False
    srv, ss, rems = make_server(B, net, 0)
    had = B.choice(True, False, label="had-listen-socket")
    if not had:
        B.ctx.st(srv)["ss"] = None
    B.ctx.st(srv)["opened"] = B.bool("opened")
    B.ctx.st(srv)["bl"] = 128
    newsock = []

    def mksock(ctx, a, k):
        s_ = net.sock("L%d" % len(newsock))
        newsock.append(s_)
        return s_.ref
    B.prog.externals["socket.socket"] = mksock
    r = B.call(srv, qual=SERVER + ".reopen")
    if had:
        B.prove("earlier-listen-socket-closed", ss.open is False, top=True)
    B.prove("one-new-socket", len(newsock) == 1, top=True)
    if B.returned() and len(newsock) == 1:
        ok = r is True
        B.prove("success-keeps-exactly-the-new-socket-open", (not ok) or (newsock[0].open and B.ctx.st(srv)["ss"] == newsock[0].ref), top=True)
        B.prove("failed-bind-or-listen-releases-the-new-socket", ok or (newsock[0].open is False), top=True)
        B.prove("opened-flag-matches", E.values_equal(B.ctx, B.ctx.st(srv)["opened"], ok), top=True)
    B.no_other_exception()


# ---------------------------------------------------------------------------------------------- Server.removeIx / closeIx (C11)
def remove_ix_contract(B, tls, fn):
    """the way every layer above (http Server / BareServer closeConnection, idle timeout, cutoff) releases ONE connection:
    removeIx(ca) closes that connection's socket and forgets it; closeIx(ca) closes it and keeps it indexed; no other
    connection's socket is touched or forgotten (frame); an unknown address raises ValueError and changes nothing"""
    net = Net(B)
    net.inject = False
    n = B.choice(1, 2, label="nconn")
    srv, ss, rems = make_server(B, net, n, tls)
    known = B.choice(True, False, label="address-is-indexed")
    ca = rems[0][0] if known else ("10.9.9.9", 9)
    close = B.choice(True, False, label="close-flag") if fn == "removeIx" else True
    ctx = B.ctx
    before = dict(ctx.st(ctx.st(srv)["ixes"])["v"])
    if fn == "removeIx":
        B.call(srv, ca, close, qual=SERVER + ".removeIx")
    else:
        B.call(srv, ca, qual=SERVER + ".closeIx")
    ix = ctx.st(ctx.st(srv)["ixes"])["v"]
    if not known:
        B.prove("unknown-address-raises-ValueError", bool(B.raised(ValueError)), top=True)
        B.handled = True
        B.prove("unknown-address-changes-nothing", set(ix.keys()) == set(before.keys()) and all(s.open for _, _, s in rems), top=True)
        return
    B.prove("returns-normally-for-an-indexed-address", bool(B.returned()), top=True)
    tgt = rems[0]
    if close:
        B.prove("the-connection-socket-is-closed", tgt[2].open is False, top=True)
        B.prove("the-remoter-forgets-its-socket", ctx.st(tgt[1])["cs"] is None, top=True)
    else:
        B.prove("close-False-leaves-the-socket-to-the-caller", tgt[2].open is True, top=True)
    if fn == "removeIx":
        B.prove("the-address-is-no-longer-indexed", BI.hashable(ca) not in ix, top=True)
    else:
        B.prove("closeIx-keeps-the-address-indexed", BI.hashable(ca) in ix, top=True)
    for ca2, rm2, s2 in rems[1:]:
        B.prove("another-connection-stays-open", s2.open is True, top=True)
        e = ix.get(BI.hashable(ca2))
        B.prove("another-connection-stays-indexed-with-its-socket", e is not None and ctx.st(e[1])["cs"] == s2.ref, top=True)
    B.prove("listen-socket-untouched", ss.open is True, top=True)
    B.no_other_exception()


for _tls in (False, True):
    for _fn in ("removeIx", "closeIx"):
        def _mk(_tls=_tls, _fn=_fn):
            @contract(SERVER + "." + _fn, props=["C11"], name=(SERVERTLS if _tls else SERVER) + "." + _fn + "[bounded <=2 connections]")
            def _c(B):
                remove_ix_contract(B, _tls, _fn)
        _mk()

"""C16 (bare server) -- which requests BareServer answers: serviceStewards.

hio.core.http.serving:BareServer.serviceStewards and closeConnection are interpreted from /repo/src (with the real tcp
Server.removeIx) for <= 2 connections.  Per connection the steward is waiting for its response to finish or not; parse() raises
HTTPException or returns leaving ended / errored arbitrary; respond() leaves `waited` arbitrary; the request is persistent or not.

Per connection, in one pass:
    steward waiting (response in progress)  -> the request is not parsed again and not answered again; pour() runs once
    parse raises HTTPException              -> connection closed exactly once, nothing else of it runs
    parse ended WITH AN ERROR               -> connection closed exactly once; dictify / respond are NEVER run on it
                                               (the repaired defect: respond() on a request without version or with an invalid
                                               url raised TypeError / ValueError out of BareServer.service)
    parse not finished                      -> nothing else happens, connection kept
    request complete and error free         -> dictify once, then respond exactly once; pour once iff the response is not finished;
                                               when it is: persistent -> parser re-armed once, connection kept; else closed once
    only what Steward.respond / pour themselves raise leaves serviceStewards (here: they do not raise) -- so no parse outcome
    makes this loop raise
    a closed connection is removed from the servant and from .stewards; the other connection is decided independently
EXT: Requestant.parse / dictify / makeParser, Steward.respond / pour (default echo responder: native tier), sys.stderr.write.
"""
import z3
from .common import *
from pyvc import builtins as BI
from .http_server import BARE, TSERVER, Ix, keys_of

HTTPEXC = "hio.core.http.httping:HTTPException"


class BReq:
    def __init__(self, ctx, name, log, httpexc):
        self.name, self.log, self.httpexc = name, log, httpexc
        self.ended = ctx.fresh("bool", name + ".ended")
        self.errored = ctx.fresh("bool", name + ".errored")
        self.persisted = ctx.fresh("bool", name + ".persisted")
        self.nparse = self.ndictify = self.nrearm = 0
        self.raised = False

    def truth(self, ctx, r):
        return True

    def getattr(self, ctx, r, name):
        if name in ("ended", "errored", "persisted"):
            return getattr(self, name)
        if name in ("method", "path", "headers", "body", "error", "version"):
            return ctx.fresh("str", name)
        raise Undecided("requestant attribute " + name)

    def m_parse(self, ctx, r, a, k):
        self.nparse += 1
        self.log.append(("parse", self.name))
        if ctx.fork(2, "parse-outcome") == 1:
            self.raised = True
            raise PyExc(ExcVal(self.httpexc, ("bad request",)))
        self.ended = ctx.fresh("bool", self.name + ".ended'")
        self.errored = ctx.fresh("bool", self.name + ".errored'")

    def m_dictify(self, ctx, r, a, k):
        self.ndictify += 1
        self.log.append(("dictify", self.name))

    def m_makeParser(self, ctx, r, a, k):
        self.nrearm += 1
        self.log.append(("makeParser", self.name))


class Stw:
    def __init__(self, ctx, name, log, req, reqref):
        self.name, self.log, self.req, self.reqref = name, log, req, reqref
        self.waited0 = self.waited = ctx.fresh("bool", name + ".waited")
        self.nrespond = self.npour = self.nclose = 0

    def truth(self, ctx, r):
        return True

    def getattr(self, ctx, r, name):
        if name == "waited":
            return self.waited
        if name == "requestant":
            return self.reqref
        raise Undecided("steward attribute " + name)

    def m_respond(self, ctx, r, a, k):
        self.nrespond += 1
        self.log.append(("respond", self.name))
        self.at_respond = (self.req.ended, self.req.errored, self.req.ndictify)
        self.waited = ctx.fresh("bool", self.name + ".waited'")

    def m_pour(self, ctx, r, a, k):
        self.npour += 1
        self.log.append(("pour", self.name))
        self.waited = ctx.fresh("bool", self.name + ".waited''")

    def m_close(self, ctx, r, a, k):
        self.nclose += 1


@contract(BARE + ".serviceStewards", props=["C16"], name=BARE + ".serviceStewards[<=2 connections]")
def bare_service_stewards(B):
    from pyvc import source
    ctx = B.ctx
    log = ctx.ghost["log"] = []
    httpexc = source.class_by_qual(HTTPEXC)
    B.prog.externals["sys.stderr.write"] = lambda c, a, k: None
    n = B.choice(0, 1, 2, label="connections")
    cas = [("10.0.0.%d" % (i + 1), 4000 + i) for i in range(n)]
    ixs = [Ix(ctx, "ix%d" % i, log) for i in range(n)]
    ixrefs = [B.ext(x) for x in ixs]
    reqs = [BReq(ctx, "req%d" % i, log, httpexc) for i in range(n)]
    stws = [Stw(ctx, "stw%d" % i, log, reqs[i], B.ext(reqs[i])) for i in range(n)]
    servant = B.obj(TSERVER, hint="servant", ixes=B.dict({ca: r for ca, r in zip(cas, ixrefs)}))
    self = B.obj(BARE, hint="server", servant=servant, stewards=B.dict({ca: B.ext(s) for ca, s in zip(cas, stws)}), dictable=False)
    B.call(self, qual=BARE + ".serviceStewards")
    B.prove("no-parse-outcome-makes-the-loop-raise", bool(B.returned()), top=True)
    B.no_other_exception()
    if not B.returned():
        return
    st = ctx.st(self)
    left = keys_of(ctx, ctx.st(servant)["ixes"])
    mine = keys_of(ctx, st["stewards"])
    for i, (ca, rq, sw, ix) in enumerate(zip(cas, reqs, stws, ixs)):
        w0 = z(sw.waited0)
        B.prove("parsed-once-iff-not-waiting#%d" % i, z3.If(w0, rq.nparse == 0, rq.nparse == 1), top=True)
        if rq.raised:
            B.prove("parse-error-closes-the-connection-and-nothing-else-runs#%d" % i,
                    ix.closed == 1 and sw.nrespond == 0 and sw.npour == 0 and rq.ndictify == 0 and rq.nrearm == 0, top=True)
            B.prove("closed-connection-fully-removed#%d" % i, ca not in left and ca not in mine, top=True)
            continue
        if sw.nrespond:
            e, x, nd = sw.at_respond
            B.prove("respond-only-for-a-complete-error-free-request-after-dictify#%d" % i,
                    z3.And(z3.Not(w0), z(e), z3.Not(z(x)), z3.BoolVal(nd == 1 and sw.nrespond == 1)), top=True)
        complete = z3.And(z3.Not(w0), z(rq.ended), z3.Not(z(rq.errored)))
        B.prove("a-complete-error-free-request-is-answered-exactly-once-and-no-other#%d" % i, complete == (sw.nrespond == 1), top=True)
        B.prove("never-answered-twice#%d" % i, sw.nrespond <= 1 and rq.ndictify == sw.nrespond, top=True)
        errored = z3.And(z3.Not(w0), z(rq.ended), z(rq.errored))
        B.prove("an-errored-request-is-never-answered: its-connection-is-closed#%d" % i,
                z3.Implies(errored, z3.BoolVal(ix.closed == 1 and sw.nrespond == 0 and rq.ndictify == 0 and sw.npour == 0 and rq.nrearm == 0)), top=True)
        # pour / finish decisions (waited after respond is what respond left)
        if sw.nrespond == 0 and sw.npour == 0 and ix.closed == 0 and rq.nrearm == 0:
            # nothing happened: the request is simply incomplete and the steward not waiting
            B.prove("idle-only-for-an-incomplete-request#%d" % i, z3.And(z3.Not(w0), z3.Not(z(rq.ended))), top=True)
        B.prove("poured-at-most-once#%d" % i, sw.npour <= 1, top=True)
        B.prove("a-waiting-steward-pours-once-and-is-not-parsed-or-answered-again#%d" % i, z3.Implies(w0, z3.BoolVal(sw.npour == 1 and sw.nrespond == 0 and rq.nparse == 0)), top=True)
        B.prove("closed-at-most-once#%d" % i, ix.closed <= 1, top=True)
        B.prove("rearmed-at-most-once-and-never-when-closed#%d" % i, rq.nrearm <= 1 and not (rq.nrearm and ix.closed), top=True)
        if rq.nrearm:
            B.prove("rearmed-only-for-a-finished-persistent-request#%d" % i, z3.And(z3.Not(z(sw.waited)), z(rq.ended), z(rq.persisted)), top=True)
        if ix.closed:
            B.prove("closed-connection-fully-removed#%d" % i, ca not in left and ca not in mine, top=True)
            B.prove("closed-only-for-an-errored-or-a-finished-non-persistent-request#%d" % i,
                    z3.Or(errored, z3.And(z3.Not(z(sw.waited)), z(rq.ended), z3.Not(z(rq.persisted)))), top=True)
        else:
            B.prove("kept-connection-stays-registered#%d" % i, ca in left and ca in mine, top=True)
            B.prove("kept-only-while-unfinished-or-persistent#%d" % i,
                    z3.Or(z(sw.waited), z3.Not(z(rq.ended)), z(rq.persisted)), top=True)
    B.prove("canary:never-answers", all(s.nrespond == 0 for s in stws))     # must FAIL (vacuity guard); last

"""C20 / C22 -- Memoer.pick: the header parse of a received gram (base64 headers), and where authenticity is decided.

hio.core.memo.memoing:Memoer.pick is interpreted from /repo/src on ARBITRARY gram bytes of arbitrary length.  The header code
is whatever the first four bytes decode to: the Sizes lookup case-splits over every code of the real table (and the unknown
code).  Sizes and the code families (zeroth / later / ack / signed) are read from the real source on every run.
wiff() (base64 vs binary headers) is EXT and answers "base64" here; the binary branch is covered by the bounded tier.

For a gram whose code is in the table, with (bz, nz, mz, vz, az) its part sizes and oz their sum:
    shorter than 4 bytes or than oz        -> MemoerError
    unknown code                            -> KeyError (a LookupError: dropped by _serviceOneReceived, contracts/memo_rx.py)
    signed grams required (authic) and an unsigned code -> MemoerError
    otherwise, with neck = gram[bz:bz+nz], mid = gram[bz+nz:bz+nz+mz], vid = the next vz bytes, sig = the LAST az bytes:
        zeroth code: returns (mid, vid, 0, B64VAL(neck));  later code: (mid, vid or the signer stored for mid, B64VAL(neck), None)
        the gram is left holding exactly the body: gram[oz-az : len-az]  (head and signature stripped, nothing else)
        a code with a signature (az > 0) returns ONLY after verify(vid, sig, everything before the signature) returned; what
        verify raises propagates -- so with authic set no gram is accepted without a verified signature over its head and body
        for the signer it names
    only MemoerError (incl. MemoerVerifyError), ValueError and LookupError leave pick
With rend's contract (gram g = code ++ B64(g or count) ++ mid ++ vid ++ body ++ sig) and C26 (B64VAL(B64(n)) = n) pick returns
what rend put in and leaves the body slice: the sender/receiver round trip per gram.
"""
import ast
import collections
import dataclasses
import z3
from .common import *
from pyvc import builtins as BI
from pyvc import source
from pyvc.engine import ufunc
from .http_responder import Stub
from .memo_tx import MEMOER
from .memo_size import real_tables

S, I = z3.StringSort(), z3.IntSort()
DECODE = ufunc("bytes_decode", S, S)
B64VAL = ufunc("b64_value", S, I)
MEMOING = "hio.core.memo.memoing"


def codexes():
    """evaluate the codex dataclasses and their module-level instances from the real source"""
    mod = source.load_module(MEMOING)
    ns = {"dataclass": dataclasses.dataclass, "astuple": dataclasses.astuple, "asdict": dataclasses.asdict, "namedtuple": collections.namedtuple}
    want_cls = {"MemoGramCodex", "ZeroGramCodex", "GramCodex", "AuthGramCodex", "SureGramCodex", "AckCodex"}
    want_inst = {"MemoDex", "ZeroDex", "GramDex", "AuthDex", "SureDex", "AckDex"}
    for node in mod.tree.body:
        if isinstance(node, ast.ClassDef) and node.name in want_cls:
            exec(compile(ast.Module(body=[node], type_ignores=[]), mod.path, "exec"), ns)
        elif isinstance(node, ast.Assign) and len(node.targets) == 1 and isinstance(node.targets[0], ast.Name) and node.targets[0].id in want_inst:
            exec(compile(ast.Module(body=[node], type_ignores=[]), mod.path, "exec"), ns)
    return {k: tuple(ns[k]) for k in want_inst if k in ns}


def memoer_pick(B, chosen):
    ctx = B.ctx
    sizes, pairs, _ = real_tables()
    cx = codexes()
    ok = isinstance(sizes, dict) and all(k in cx for k in ("ZeroDex", "GramDex", "AckDex", "AuthDex"))
    B.prove("table/sizes-and-code-families-read-from-the-real-source", ok, top=True)
    if not ok:
        return
    B.prove("table/signed-codes-are-exactly-the-codes-with-a-signature-part", set(cx["AuthDex"]) == {c for c, v in sizes.items() if v[4] > 0}, top=True)
    for nm in ("ZeroDex", "GramDex", "AckDex", "AuthDex"):
        B.prog.global_models[(MEMOING, nm)] = tuple(cx[nm])
    gram0 = B.bytes("gram")
    gram = B.buf(gram0, hint="gram")
    # the header code of the gram: one of the table's codes (its four bytes are then that text: EXT, the codes are ASCII) or none
    head4 = z3.SubString(gram0.t, 0, 4)
    if chosen != "<unknown>":
        ctx.assume(z3.Or(z3.Length(gram0.t) < 4, head4 == z3.StringVal(chosen)))
    else:
        ctx.assume(z3.And(*[head4 != z3.StringVal(c) for c in sizes]))
        ctx.assume(z3.And(*[DECODE(head4) != z3.StringVal(c) for c in sizes]))

    def decode(c, s, a, k):
        t = z(s)
        if chosen != "<unknown>" and not c.feasible(t != z3.StringVal(chosen)):
            return chosen              # the four code bytes, known on this path
        return SV(DECODE(t), "str")
    B.prog.text_models["decode"] = decode
    B.prog.text_models["encode"] = lambda c, s, a, k: c.fresh("bytes", "encoded")
    B.prog.modular["hio.help.helping:b64ToInt"] = Stub(lambda c, a, k: SV(B64VAL(z(BI.as_text(c, a[0]))), "int"))
    B.prog.externals["builtins.bytes"] = lambda c, a, k: BI.as_text(c, a[0]) if a else b""
    authic = B.bool("authic")
    stored_vid = B.choice(None, "stored", label="stored-signer-for-mid")

    class Vids:
        def m_get(self, c, r, a, k):
            return None if stored_vid is None else c.fresh("str", "storedvid")
    self = B.obj(MEMOER, hint="memoer", Sizes=B.dict({k: tuple(v) for k, v in sizes.items()}), Audex=tuple(cx["AuthDex"]), _authic=authic, vids=B.ext(Vids()))
    B.virtual(self, "wiff", lambda c, a, k: False)
    verifies = []

    def verify(c, a, k):
        verifies.append(tuple(a))
        if c.fork(2, "signature-verifies") == 1:
            raise PyExc(ExcVal(source.class_by_qual("hio.hioing:MemoerVerifyError"), ("bad signature",)))
        return True
    B.virtual(self, "verify", verify)
    r = B.call(self, gram, qual=MEMOER + ".pick")
    g0 = gram0.t
    n = z3.Length(g0)
    codeb = z3.SubString(g0, 0, 4)
    known = [c for c in sizes]
    which = [chosen] if chosen != "<unknown>" else []
    memoerr = source.class_by_qual("hio.hioing:MemoerError")
    if B.raised():
        B.handled = True
        B.prove("only-MemoerError-ValueError-or-LookupError-leave-pick", bool(B.raised(memoerr)) or bool(B.raised(ValueError)) or bool(B.raised(LookupError)), top=True)
        if B.raised(KeyError):
            B.prove("KeyError-only-for-a-code-outside-the-table", z3.And(n >= 4, *[codeb != z3.StringVal(c) for c in known]), top=True)
        elif verifies:
            B.prove("after-verify-only-its-own-exception-propagates", bool(B.raised(source.class_by_qual("hio.hioing:MemoerVerifyError"))), top=True)
        else:
            short = z3.Or(n < 4, z3.Or(*[z3.And(codeb == z3.StringVal(c), n < sum(sizes[c])) for c in known]))
            unsigned = z3.And(z(authic), n >= 4, z3.And(*[codeb != z3.StringVal(c) for c in cx["AuthDex"]]))      # (checked before the table lookup)
            unusable = z3.Or(*[codeb == z3.StringVal(c) for c in known if c not in cx["ZeroDex"] + cx["GramDex"] + cx["AckDex"]]) if \
                [c for c in known if c not in cx["ZeroDex"] + cx["GramDex"] + cx["AckDex"]] else z3.BoolVal(False)
            B.prove("MemoerError-only-when-too-short-unsigned-but-required-or-not-a-gram-code", z3.Or(short, unsigned, unusable), top=True)
        B.no_other_exception()
        return
    B.no_other_exception()
    ok = isinstance(r, tuple) and len(r) == 4
    B.prove("returns-mid-vid-gn-gc", ok, top=True)
    if not ok:
        return
    B.prove("the-code-is-decided-on-this-path", len(which) == 1, top=True)
    if len(which) != 1:
        return
    code = which[0]
    bz, nz, mz, vz, az = sizes[code]
    oz = bz + nz + mz + vz + az
    mid, vid, gn, gc = r
    B.prove("long-enough-for-its-overhead", n >= oz, top=True)
    B.prove("signed-code-when-signatures-are-required", z3.Implies(z(authic), z3.BoolVal(code in cx["AuthDex"])), top=True)
    neck = z3.SubString(g0, bz, nz)
    B.prove("memo-id-is-the-mid-field", z(mid) == DECODE(z3.SubString(g0, bz + nz, mz)), top=True)
    if code in cx["ZeroDex"]:
        B.prove("zeroth-gram: number 0 and the count from the neck", z3.And(z3.BoolVal(conc(gn) == 0), z(gc, "int") == B64VAL(neck)), top=True)
    else:
        B.prove("later-gram: number from the neck, no count", z3.And(z(gn, "int") == B64VAL(neck), z3.BoolVal(gc is None)), top=True)
    if vz:
        B.prove("signer-id-is-the-vid-field", z(vid) == DECODE(z3.SubString(g0, bz + nz + mz, vz)), top=True)
    body = z(BI.as_text(ctx, gram))
    B.prove("gram-left-holding-exactly-the-body", body == z3.SubString(g0, oz - az, n - oz), top=True)
    if az:
        B.prove("signed-code: accepted only after verify ran once and returned", len(verifies) == 1, top=True)
        if len(verifies) == 1:
            vvid, vsig, vsgram = verifies[0]
            B.prove("verify-saw-the-last-az-bytes-as-signature-and-everything-before-as-signed-text",
                    z3.And(z(BI.as_text(ctx, vsig)) == z3.SubString(g0, n - az, az), z(BI.as_text(ctx, vsgram)) == z3.SubString(g0, 0, n - az)), top=True)
            if vz:
                B.prove("verify-was-asked-about-the-signer-the-gram-names", z(BI.as_text(ctx, vvid)) == z3.SubString(g0, bz + nz + mz, vz), top=True)
    else:
        B.prove("unsigned-code: no verification", not verifies, top=True)


_sizes = real_tables()[0] or {}
for _code in sorted(_sizes) + ["<unknown>"]:
    def _mk(code=_code):
        @contract(MEMOER + ".pick", props=["C20", "C22"], name=MEMOER + ".pick[code %s; base64 headers; arbitrary gram bytes]" % code, z3_ms=1500, cvc5_first=True)
        def _c(B):
            memoer_pick(B, code)
    _mk()

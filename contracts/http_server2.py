"""C18 (server side) -- which responder answers which request: Server.serviceReqs.

hio.core.http.serving:Server.serviceReqs and closeConnection are interpreted from /repo/src with <= 2 connections; per connection
the requestant has a parser or not, parse() raises HTTPException or returns leaving ended / errored arbitrary, the request's HTTP
version is (1,0), (1,1) or (2,0), a responder for the connection exists already or not.

Per connection, in one pass:
    no parser (request already parsed, response in progress) -> not parsed again, responder untouched
    parse raises, or ends with an error                      -> connection closed exactly once; no responder created or reset
    parse not finished                                        -> nothing else happens
    request complete                                          -> exactly one responder answers it: a NEW Responder(incomer = the
            request's connection, app = the server's app, environ = buildEnviron(request), chunkable = version >= 1.1) when the
            connection has none, otherwise the EXISTING one is reset(environ = ..., chunkable = ...) exactly once -- so a
            reused responder gets the chunkable of the NEW request (HTTP/1.0 after HTTP/1.1 must not be chunked and vice versa)
    the other connection is decided independently
EXT: Requestant.parse, Server.buildEnviron (returns an environ per request), Responder construction / reset (own contracts in
contracts/http_responder.py), sys.stderr.write.
"""
import z3
from .common import *
from pyvc import builtins as BI
from .http_server import HSERVER, TSERVER, Ix, keys_of

HTTPEXC = "hio.core.http.httping:HTTPException"


class Req:
    def __init__(self, ctx, name, log, ixref, httpexc):
        self.name, self.log, self.ixref, self.httpexc = name, log, ixref, httpexc
        self.ended = ctx.fresh("bool", name + ".ended")
        self.errored = ctx.fresh("bool", name + ".errored")
        self.nparse = 0
        self.nclose = 0
        self.raised = False

    def truth(self, ctx, r):
        return True

    def getattr(self, ctx, r, name):
        if name == "parser":
            return self.parser
        if name == "ended":
            return self.ended
        if name == "errored":
            return self.errored
        if name == "remoter":
            return self.ixref
        if name == "version":
            return self.version
        if name in ("method", "path", "headers", "body", "error"):
            return ctx.fresh("str", name)
        raise Undecided("requestant attribute " + name)

    def m_parse(self, ctx, r, a, k):
        self.nparse += 1
        self.log.append(("parse", self.name))
        if ctx.fork(2, "parse-outcome") == 1:
            self.raised = True
            raise PyExc(ExcVal(self.httpexc, ("bad request",)))
        self.ended = ctx.fresh("bool", self.name + ".ended'")
        self.errored = ctx.fresh("bool", self.name + ".errored'")

    def m_close(self, ctx, r, a, k):
        self.nclose += 1
        self.log.append(("req.close", self.name))


class Rep:
    def __init__(self, name, log, **kw):
        self.name, self.log, self.kw = name, log, kw
        self.resets = []
        self.nclose = 0

    def truth(self, ctx, r):
        return True

    def m_reset(self, ctx, r, a, k):
        self.resets.append(dict(k))
        self.log.append(("reset", self.name))

    def m_close(self, ctx, r, a, k):
        self.nclose += 1
        self.log.append(("rep.close", self.name))


@contract(HSERVER + ".serviceReqs", props=["C18"], name=HSERVER + ".serviceReqs[<=2 connections]")
def server_service_reqs(B):
    from pyvc import source
    ctx = B.ctx
    log = ctx.ghost["log"] = []
    httpexc = source.class_by_qual(HTTPEXC)
    B.prog.externals["sys.stderr.write"] = lambda c, a, k: None
    n = B.choice(0, 1, 2, label="connections")
    cas = [("10.0.0.%d" % (i + 1), 4000 + i) for i in range(n)]
    ixs = [Ix(ctx, "ix%d" % i, log) for i in range(n)]
    ixrefs = [B.ext(x) for x in ixs]
    reqs = [Req(ctx, "req%d" % i, log, ixrefs[i], httpexc) for i in range(n)]
    reps = {}
    for i, rq in enumerate(reqs):
        rq.parser = "parser" if B.choice(True, False, label="has-parser-%d" % i) else None
        rq.version = B.choice((1, 0), (1, 1), (2, 0), label="version-%d" % i)
        if B.choice(False, True, label="has-responder-%d" % i):
            reps[i] = Rep("rep%d" % i, log)
    made = []

    def mk_rep(interp, cls, a, k):
        p = Rep("new%d" % len(made), log, **k)
        made.append(p)
        return ctx.alloc("ext", init={"model": p})
    B.prog.class_models["hio.core.http.serving:Responder"] = mk_rep
    servant = B.obj(TSERVER, hint="servant", ixes=B.dict({ca: r for ca, r in zip(cas, ixrefs)}))
    app = B.uid("App", "app")
    self = B.obj(HSERVER, hint="server", servant=servant, app=app, reqs=B.dict({ca: B.ext(x) for ca, x in zip(cas, reqs)}),
                 reps=B.dict({cas[i]: B.ext(x) for i, x in reps.items()}))
    envs = {}

    def build_environ(c, a, k):
        who = [i for i, x in enumerate(reqs) if c.st(a[0])["model"] is x][0]
        envs[who] = c.alloc("dict", init={"v": {}})
        return envs[who]
    B.virtual(self, "buildEnviron", build_environ)
    B.call(self, qual=HSERVER + ".serviceReqs")
    B.no_other_exception()
    if not B.returned():
        return
    st = ctx.st(self)
    left = keys_of(ctx, ctx.st(servant)["ixes"])
    repkeys = keys_of(ctx, st["reps"])
    for i, (ca, rq, ix) in enumerate(zip(cas, reqs, ixs)):
        old = reps.get(i)
        mine_new = [p for p in made if p.kw.get("incomer") is ixrefs[i]]
        if rq.parser is None:
            B.prove("request-without-parser-is-not-parsed-again#%d" % i, rq.nparse == 0 and not mine_new and (old is None or not old.resets) and ix.closed == 0, top=True)
            continue
        B.prove("parsed-exactly-once-per-pass#%d" % i, rq.nparse == 1, top=True)
        bad = z3.BoolVal(True) if rq.raised else z3.And(z(rq.ended), z(rq.errored))
        B.prove("closed-iff-the-request-is-malformed#%d" % i, bad == (ix.closed >= 1), top=True)
        B.prove("closed-at-most-once#%d" % i, ix.closed <= 1, top=True)
        complete = z3.BoolVal(False) if rq.raised else z3.And(z(rq.ended), z3.Not(z(rq.errored)))
        answered = len(mine_new) + (len(old.resets) if old else 0)
        B.prove("exactly-one-responder-answers-a-complete-request-and-none-otherwise#%d" % i, complete == (answered == 1), top=True)
        B.prove("never-more-than-one#%d" % i, answered <= 1, top=True)
        chunkable = tuple(rq.version) >= (1, 1)
        if mine_new:
            p = mine_new[0]
            B.prove("new-responder-only-when-the-connection-had-none#%d" % i, old is None, top=True)
            B.prove("new-responder-wired-to-the-request#%d" % i, p.kw.get("app") is app and p.kw.get("environ") is envs.get(i) and envs.get(i) is not None, top=True)
            B.prove("new-responder-chunkable-iff-http-1.1-or-later#%d" % i, p.kw.get("chunkable") is chunkable, top=True)
            B.prove("new-responder-registered-for-the-connection#%d" % i, ca in repkeys, top=True)
        if old is not None and old.resets:
            B.prove("reused-responder-gets-the-new-environ#%d" % i, old.resets[0].get("environ") is envs.get(i) and envs.get(i) is not None, top=True)
            B.prove("reused-responder-gets-the-new-requests-chunkable#%d" % i, old.resets[0].get("chunkable") is chunkable, top=True)
        if ix.closed:
            B.prove("closed-connection-fully-removed#%d" % i, ca not in left and ca not in repkeys and ca not in keys_of(ctx, st["reqs"]) and rq.nclose == 1 and
                    (old is None or old.nclose == 1), top=True)
    B.prove("canary:never-answers", not made and all(not r.resets for r in reps.values()))     # must FAIL (vacuity guard); last

"""C14 -- httping.updateQargsQuery: the query string a client sends is made of QUOTED keys and QUOTED values only.

hio.core.http.httping:updateQargsQuery is interpreted from /repo/src.
EXT: urllib quote_plus / unquote_plus are the uninterpreted QP / UQP with UQP(QP(x)) = x (assumed; urllib's own contract), str(x)
of a text is the text; '&'.join of the parts is the uninterpreted JOIN over the list it is given (the parts are what is checked).

generate   for a mapping of <= 2 query arguments with ARBITRARY text keys and values and no query string: every part that is
           joined is  QP(key) ++ '=' ++ QP(value)  for exactly the mapping's items in order -- nothing of a key or value reaches
           the request line unquoted (the repaired defect: keys were written raw, so a key with a space, '&', '=', '#', ';' or
           non-ASCII text broke the request line or was not recovered), and the mapping itself is returned unchanged
parse      a query string without ';' and '&' (one part): 'k=v' stores UQP(v) under UQP(k) (split at the FIRST '='); a part
           without '=' stores 'true' under UQP(part); so generate-then-parse gives back key and value: UQP(QP(k)) = k
"""
import z3
from .common import *
from pyvc import builtins as BI
from pyvc.engine import ufunc

HTTPING = "hio.core.http.httping"
S = z3.StringSort()
QP = ufunc("quote_plus", S, S)
UQP = ufunc("unquote_plus", S, S)


def _models(B, joined):
    B.prog.externals["urllib.parse.quote_plus"] = lambda c, a, k: SV(QP(z(a[0])), "str")
    B.prog.externals["urllib.parse.unquote_plus"] = lambda c, a, k: SV(UQP(z(a[0])), "str")
    B.prog.externals[HTTPING + ".quote_plus"] = B.prog.externals["urllib.parse.quote_plus"]
    B.prog.externals[HTTPING + ".unquote_plus"] = B.prog.externals["urllib.parse.unquote_plus"]
    B.prog.externals["builtins.str"] = lambda c, a, k: a[0]

    def join(c, s, a, k):
        items = BI.concrete_iter(c, a[0])
        joined.append((conc(s), list(items) if items is not None else None))
        return c.fresh("str", "query")
    B.prog.text_models["join"] = join


@contract(HTTPING + ":updateQargsQuery", props=["C14"], name=HTTPING + ":updateQargsQuery[generate; <=2 arbitrary keys and values]")
def qargs_generate(B):
    ctx = B.ctx
    joined = []
    _models(B, joined)
    n = B.choice(0, 1, 2, label="query-arguments")
    keys = [B.of("str", "key%d" % i) for i in range(n)]
    vals = [B.of("str", "val%d" % i) for i in range(n)]
    if n == 2:
        ctx.assume(keys[0].t != keys[1].t)
    qargs = B.dict({})
    for kk, vv in zip(keys, vals):
        BI.setitem(ctx, qargs, kk, vv)
    r = B.call(qargs, "", qual=HTTPING + ":updateQargsQuery")
    B.no_other_exception()
    if not B.returned():
        return
    ok = isinstance(r, tuple) and len(r) == 2
    B.prove("returns-mapping-and-query", ok, top=True)
    if not ok:
        return
    B.prove("the-mapping-is-the-one-given", r[0] is qargs, top=True)
    B.prove("one-ampersand-join-of-the-parts", len(joined) == 1 and joined[0][0] == "&" and joined[0][1] is not None, top=True)
    if len(joined) != 1 or joined[0][1] is None:
        return
    parts = joined[0][1]
    B.prove("one-part-per-query-argument", len(parts) == n, top=True)
    for i, p in enumerate(parts[:n]):
        B.prove("part-is-quoted-key-equals-quoted-value#%d" % i,
                z(p) == z3.Concat(QP(keys[i].t), z3.StringVal("="), QP(vals[i].t)), top=True)
    B.prove("canary:no-parts", len(parts) == 0 and n > 0)      # must FAIL (vacuity guard); last


@contract(HTTPING + ":updateQargsQuery", props=["C14"], name=HTTPING + ":updateQargsQuery[parse; one part]", z3_ms=3000)
def qargs_parse(B):
    ctx = B.ctx
    joined = []
    _models(B, joined)
    query = B.of("str", "query")
    ctx.assume(z3.And(z3.Length(query.t) > 0, z3.Not(z3.Contains(query.t, z3.StringVal(";"))), z3.Not(z3.Contains(query.t, z3.StringVal("&")))))
    qargs = B.dict({})
    r = B.call(qargs, query, qual=HTTPING + ":updateQargsQuery")
    B.no_other_exception()
    if not B.returned():
        return
    items = list(ctx.st(qargs)["v"].values())
    B.prove("exactly-one-argument-stored", len(items) == 1, top=True)
    if len(items) != 1:
        return
    k, v = items[0]
    q = query.t
    p = z3.IndexOf(q, z3.StringVal("="), 0)
    B.prove("key-is-the-unquoted-text-before-the-first-equals-sign", z(k) == UQP(z3.If(p >= 0, z3.SubString(q, 0, p), q)), top=True)
    B.prove("value-is-the-unquoted-text-after-it-or-true", z(v) == z3.If(p >= 0, UQP(z3.SubString(q, p + 1, z3.Length(q) - p - 1)), z3.StringVal("true")), top=True)

"""Scheduler theory shared by C01-C06, C30 (consumer side: Doist / DoDoer drive their dogs).

Doers and dogs are external models.  A doer is any Doist-compatible callable (Doer instance,
doify/doize generator function, bound generator method); a dog is the generator it returns.
The dog protocol (DESIGN.md section 5) is implemented once, here, and used by every contract:
    START  next(dog)/send(None) on a fresh dog  -> suspends (alive) | StopIteration(v) | raises Exception
    SEND   dog.send(tyme) on an alive dog       -> yields tock | StopIteration(v) | raises Exception
    CLOSE  dog.close() on an alive dog          -> returns None (CPython 3.12), dog finished
Obligations are attached to the protocol itself: send/close only on alive dogs, never re-entered.
A ghost trace records every protocol event in order.

Sequences here have CONCRETE length (0..N doers, stated bound) with fully symbolic tymes, tocks,
retymes and outcomes: contracts built on this file are the *bounded* tier of the scheduler
properties (bounded in the number of doers only).  The unbounded tier is contracts/sched_inv.py.
"""
import z3
from .common import *
from pyvc.values import Ref
from pyvc.engine import PathEnd

DOIST = "hio.base.doing:Doist"
DODOER = "hio.base.doing:DoDoer"
TYMIST = "hio.base.tyming:Tymist"
FIELD_TYPES[TYMIST] = {"_tyme": "real", "_tock": "real"}
FIELD_TYPES[DOIST] = {"real": "bool", "temp": "bool"}


class Trace:
    def __init__(self):
        self.ev = []

    def add(self, *e):
        self.ev.append(tuple(e))

    def kinds(self, *ks):
        return [e for e in self.ev if e[0] in ks]


class DoerModel:
    """a Doist-compatible doer.  flavour: 'instance' (Doer-like object: done writable) or
    'method' (bound generator method: assignment to .done raises AttributeError, __func__.done is written)"""

    def __init__(self, world, name, flavour="instance"):
        self.world = world
        self.name = name
        self.flavour = flavour
        self.done = "unset"
        self.func_done = "unset"
        self.tock = None
        self.ref = None
        self.dogs = []
        self.has_temp = True

    def attr_done(self, ctx, r):
        if self.flavour == "method":
            return self.func_done if self.func_done != "unset" else None
        return self.done if self.done != "unset" else None

    def attr_tock(self, ctx, r):
        if self.tock is None:
            self.tock = ctx.fresh("real", self.name + ".tock")
            ctx.assume(self.tock.t >= 0)
        return self.tock

    def attr_temp(self, ctx, r):
        return None

    def attr_opts(self, ctx, r):
        return ctx.alloc("dict", init={"v": {}})

    def attr___func__(self, ctx, r):
        if self.flavour != "method":
            raise py_exc(AttributeError, "no __func__")
        return ctx.alloc("ext", init={"model": FuncOfMethod(self)})

    def setattr(self, ctx, r, name, v):
        if name == "done":
            if self.flavour == "method":
                raise py_exc(AttributeError, "'method' object has no attribute 'done'")
            self.done = v
            self.world.trace.add("DONE", self.name, v)
            return
        raise Undecided("doer attribute write " + name)

    def call(self, ctx, r, args, kwargs):
        w = self.world
        # C04 mechanism: the scheduler injects ITS tymth, the doer's own tock and temp
        w.trace.add("CALL", self.name, kwargs.get("tymth"), kwargs.get("tock"))
        dog = DogModel(w, self)
        self.dogs.append(dog)
        dog.ref = ctx.alloc("ext", init={"model": dog})
        return dog.ref

    def equal(self, ctx, a, b):
        return isinstance(b, Ref) and a.oid == b.oid


class FuncOfMethod:
    def __init__(self, doer):
        self.doer = doer

    def setattr(self, ctx, r, name, v):
        if name == "done":
            self.doer.func_done = v
            self.doer.world.trace.add("DONE", self.doer.name, v)
            return
        raise Undecided("function attribute " + name)


class DogModel:
    def __init__(self, world, doer):
        self.world = world
        self.doer = doer
        self.state = "fresh"        # fresh | alive | running | finished
        self.ref = None
        self.nsend = 0

    @property
    def name(self):
        return self.doer.name

    def truth(self, ctx, r):
        return True

    def equal(self, ctx, a, b):
        return isinstance(b, Ref) and a.oid == b.oid

    # -- protocol
    def _resume(self, ctx, value, first):
        w = self.world
        nm = w.B.name
        if first:
            ctx.prove(nm + "/dog-protocol/start-fresh", self.state == "fresh", kind="call-requires",
                      detail="next()/send(None) only on a fresh dog", top=True)
            w.trace.add("START", self.name)
        else:
            ctx.prove(nm + "/dog-protocol/send-alive", self.state == "alive", kind="call-requires",
                      detail="send only to a started, unfinished, suspended dog", top=True)
            w.trace.add("SEND", self.name, value)
        self.state = "running"
        self.nsend += 1
        # while the dog runs, user code may re-enter the scheduler (extend/remove): world decides
        w.reenter(ctx, self)
        k = ctx.fork(3 if w.allow_raise else 2, "dog-%s-outcome" % self.name)
        if k == 0:
            self.state = "alive"
            t = w.yielded_tock(ctx, self)
            w.trace.add("YIELD", self.name, t)
            return t
        self.state = "finished"
        if k == 1:
            v = w.return_value(ctx, self)
            w.trace.add("RETURN", self.name, v)
            raise PyExc(ExcVal(StopIteration, (v,)))
        w.trace.add("RAISE", self.name)
        ex = ExcVal(None, (), upper=Exception, attrs={"who": self.name})
        ex.excluded = [StopIteration]      # PEP 479: a generator cannot leak StopIteration other than by returning
        raise PyExc(ex)

    def m_send(self, ctx, r, args, kwargs):
        v = args[0]
        if self.state == "fresh":
            if v is not None:
                raise py_exc(TypeError, "can't send non-None value to a just-started generator")
            return self._resume(ctx, None, True)
        return self._resume(ctx, v, False)

    def m___next__(self, ctx, r, args, kwargs):
        return self._resume(ctx, None, self.state == "fresh")

    def m_close(self, ctx, r, args, kwargs):
        w = self.world
        ctx.prove(w.B.name + "/dog-protocol/close-alive", self.state in ("alive",), kind="call-requires",
                  detail="close() exactly once on each started, unfinished, suspended dog (never on the running one)", top=True)
        w.trace.add("CLOSE", self.name)
        self.state = "finished"
        return None        # A-312: generator.close() returns None on CPython 3.12


class World:
    """ghost world of one scheduler run"""

    def __init__(self, B, allow_raise=True, tock_kind="any", ret_kind="any"):
        self.B = B
        self.trace = Trace()
        self.doers = []
        self.allow_raise = allow_raise
        self.tock_kind = tock_kind
        self.ret_kind = ret_kind
        self.reentry = None

    def doer(self, name, flavour="instance"):
        d = DoerModel(self, name, flavour)
        d.ref = self.B.ctx.alloc("ext", init={"model": d})
        self.doers.append(d)
        return d

    def yielded_tock(self, ctx, dog):
        # None | 0 | t > 0  (the three cases the statement distinguishes); 'any' adds an arbitrary real
        k = ctx.fork(3, "tock-kind")
        if k == 0:
            return None
        if k == 1:
            return 0.0
        t = ctx.fresh("real", dog.name + ".ytock")
        ctx.assume(t.t > 0)
        return t

    def return_value(self, ctx, dog):
        k = ctx.fork(3, "ret-kind")
        if k == 0:
            return None
        if k == 1:
            return True
        return False

    def reenter(self, ctx, dog):
        if self.reentry is not None:
            self.reentry(ctx, dog)

    def alive(self):
        return [g for d in self.doers for g in d.dogs if g.state == "alive"]


def tymth_model(B, sched):
    """what Tymist.tymen() returns for `sched`: modelled by interpreting the real tymen()"""
    return None


def new_doist(B, doers=(), deeds=(), **fields):
    tyme = fields.pop("tyme", None) or B.real("tyme")
    tock = fields.pop("tock", None)
    if tock is None:
        tock = B.real("tock")
        B.ctx.assume(tock.t > 0)
    timer = B.obj("hio.help.timing:MonoTimer", hint="timer")
    d = B.obj(DOIST, hint="doist", _tyme=tyme, _tock=tock, doers=B.list(list(doers)), deeds=B.deque(list(deeds)),
              timer=timer, name="doist", done=None, limit=None, **fields)
    return d


def new_dodoer(B, doers=(), deeds=(), **fields):
    tyme = fields.pop("tyme", None) or B.real("tyme")
    B.ghost("tyme", tyme)
    tock = fields.pop("tock", None)
    if tock is None:
        tock = B.real("tock")
        B.ctx.assume(tock.t >= 0)
    tymth = B.model(lambda ctx, a, k: ctx.ghost["tyme"], "tymth")
    d = B.obj(DODOER, hint="dodoer", _tymth=tymth, _tock=tock, _doers=B.list(list(doers)), _deeds=B.deque(list(deeds)),
              opts=B.dict({}), **fields)
    return d


def deeds_of(B, sched):
    st = B.ctx.st(sched)
    r = st.get("deeds") or st.get("_deeds")
    return list(B.ctx.st(r)["v"])


def doers_of(B, sched):
    st = B.ctx.st(sched)
    r = st.get("doers") or st.get("_doers")
    return list(B.ctx.st(r)["v"])


def sched_tyme(B, sched):
    st = B.ctx.st(sched)
    if "_tyme" in st:
        return st["_tyme"]
    return B.ctx.ghost["tyme"]


def is_marker(deed):
    return deed[0] is None

"""C20 -- the gram size a Memoer rends with always leaves room for at least one body byte in every gram.

Memoer.size (setter) is interpreted from /repo/src for every header code of the real Sizes table (extracted from the class body
of the real source on every run and evaluated), base64 and base2 ("curt") headers, and any requested size (None or any integer).

    ensures   ._size == max(requested or MaxGramSize, overhead + 1)
              where overhead is the sum of ALL five header part sizes of the code (code, neck, memo id, signer id, signature),
              scaled by 3/4 (floor) for base2 headers -- the same quantity Memoer.rend subtracts from .size to get the body
              size of the zeroth gram; hence rend's zeroth body size is >= 1 for every configuration
    lemma     the non-zeroth gram of the same kind never has a larger overhead than the zeroth one (checked on the real
              Sizes / Pairs tables, all entries), so its body size is >= 1 too

Without this, rend would slice with a non-positive body size and the gram count announced in gram 0 would not match the grams
emitted: the receiver could then never reconstruct the memo (C20: any gram size).
"""
import ast
import collections
import z3
from .common import *
from pyvc import source
from .memo_tx import MEMOER


def real_tables():
    """evaluate the Sizes / Pairs / MaxGramSize statements of class Memoer from the real source"""
    mod = source.load_module("hio.core.memo.memoing")
    ns = {"namedtuple": collections.namedtuple}
    for node in mod.tree.body:      # module-level names the class body needs (Sizage, MemoDex, ...)
        if isinstance(node, (ast.Assign, ast.ClassDef, ast.ImportFrom, ast.Import)):
            names = [t.id for t in getattr(node, "targets", []) if isinstance(t, ast.Name)] + ([node.name] if isinstance(node, ast.ClassDef) else [])
            if any(n in ("Sizage", "GramCodex", "GramDex", "MemoDex", "MemoCodex", "MemoGramCodex") for n in names) or \
                    (isinstance(node, ast.ImportFrom) and node.module in ("collections", "dataclasses")):
                try:
                    exec(compile(ast.Module(body=[node], type_ignores=[]), mod.path, "exec"), ns)
                except Exception:   # noqa
                    pass
    cls = [n for n in mod.tree.body if isinstance(n, ast.ClassDef) and n.name == "Memoer"][0]
    cns = dict(ns)
    for node in cls.body:
        if isinstance(node, (ast.Assign, ast.Expr)) and any(isinstance(x, ast.Name) and x.id in ("Sizes", "Pairs", "MaxGramSize") for x in ast.walk(node)):
            try:
                exec(compile(ast.Module(body=[node], type_ignores=[]), mod.path, "exec"), cns)
            except Exception:   # noqa
                pass
    return cns.get("Sizes"), cns.get("Pairs"), cns.get("MaxGramSize")


@contract(MEMOER + ".size@set", props=["C20"], name=MEMOER + ".size@set[every code, base64/base2, any requested size]")
def memoer_size_setter(B):
    ctx = B.ctx
    sizes, pairs, maxgram = real_tables()
    ok = isinstance(sizes, dict) and isinstance(pairs, dict) and isinstance(maxgram, int) and len(sizes) > 0
    B.prove("table/Sizes-Pairs-MaxGramSize-read-from-the-real-class-body", ok, top=True)
    if not ok:
        return
    for z0, n0 in pairs.items():
        B.prove("table/non-zeroth-overhead-not-larger-than-zeroth/" + z0, z0 in sizes and n0 in sizes and sum(sizes[n0]) <= sum(sizes[z0]), top=True)
    code = B.choice(*sorted(sizes), label="code")
    curt = B.choice(False, True, label="curt")
    req = B.choice("none", "int", label="requested")
    size = None if req == "none" else B.int("size")
    self = B.obj(MEMOER, hint="memoer", Sizes=B.dict({k: tuple(v) for k, v in sizes.items()}), _code=code, _curt=curt, MaxGramSize=maxgram, _size=B.int("old_size"))
    B.call(self, size, qual=MEMOER + ".size@set")
    B.no_other_exception()
    if not B.returned():
        return
    oz = sum(sizes[code])
    if curt:
        oz = 3 * oz // 4
    got = z(ctx.st(self)["_size"], "int")
    want = z3.IntVal(maxgram) if size is None else size.t
    B.prove("size-is-the-request-raised-to-zeroth-overhead-plus-one", got == z3.If(want > oz + 1, want, z3.IntVal(oz + 1)), top=True)
    B.prove("zeroth-gram-keeps-room-for-a-body-byte", got - oz >= 1, top=True)
    if code in pairs:
        noz = sum(sizes[pairs[code]])
        if curt:
            noz = 3 * noz // 4
        B.prove("non-zeroth-grams-keep-room-for-a-body-byte", got - noz >= 1, top=True)

"""C08 -- timers measure elapsed tyme exactly and restart losslessly."""
import z3
from .common import *

TYMER = "hio.base.tyming:Tymer"
FIELD_TYPES[TYMER] = {"_start": "real", "_stop": "real"}


def tymth(B):
    """a wound tymth closure: returns the ghost scheduler tyme"""
    return B.model(lambda ctx, a, k: ctx.ghost["tyme"], "tymth")


def tymer(B):
    B.ghost("tyme", B.real("tyme"))
    return B.obj(TYMER, _tymth=tymth(B))


@contract(TYMER + ".elapsed@get", props=["C08"])
def tymer_elapsed(B):
    self = tymer(B)
    B.call(self)
    B.ensures("result == tyme - self._start", top=True)
    B.ensures("self._start == old(self._start) and self._stop == old(self._stop)")
    B.no_other_exception()


@contract(TYMER + ".remaining@get", props=["C08"])
def tymer_remaining(B):
    self = tymer(B)
    B.call(self)
    B.ensures("result == self._stop - tyme", top=True)
    B.ensures("self._start == old(self._start) and self._stop == old(self._stop)")
    B.no_other_exception()


@contract(TYMER + ".expired@get", props=["C08", "C05", "C12"])
def tymer_expired(B):
    self = tymer(B)
    B.call(self)
    B.ensures("result == (tyme >= self._stop)", top=True)
    B.ensures("self._start == old(self._start) and self._stop == old(self._stop)")
    B.no_other_exception()


@contract(TYMER + ".start", props=["C08"])
def tymer_start(B):
    self = tymer(B)
    duration = B.opt("real", "duration")
    start = B.opt("real", "start")
    B.call(self, duration=duration, start=start)
    B.ensures("self._start == (start if start is not None else tyme)", top=True)
    B.ensures("self._stop == self._start + (duration if duration is not None else old(self._stop) - old(self._start))", top=True)
    B.ensures("result == self._start")
    B.no_other_exception()


@contract(TYMER + ".restart", props=["C08", "C12"])
def tymer_restart(B):
    self = tymer(B)
    duration = B.opt("real", "duration")
    B.call(self, duration=duration)
    B.ensures("self._start == old(self._stop)", top=True)
    B.ensures("self._stop == old(self._stop) + (duration if duration is not None else old(self._stop) - old(self._start))", top=True)
    B.ensures("result == old(self._stop)")
    B.no_other_exception()


@contract(TYMER + ".__init__", props=["C08"])
def tymer_init(B):
    B.ghost("tyme", B.real("tyme"))
    wound = B.choice(True, False, label="wound")
    duration = B.opt("real", "duration")
    start = B.opt("real", "start")
    cls = B.obj(TYMER)          # fields are overwritten by __init__; they start arbitrary
    kw = dict(duration=duration, start=start)
    if wound:
        kw["tymth"] = tymth(B)
    B.call(cls, **kw)
    B.ensures("self._start == (start if start is not None else (tyme if wound else 0.0))", top=True, wound=wound)
    B.ensures("self._stop - self._start == (duration if duration is not None else 0.0)", top=True)
    B.no_other_exception()


# ---------------------------------------------------------------------------- MonoTimer / Timer
MONO = "hio.help.timing:MonoTimer"
TIMER = "hio.help.timing:Timer"
FIELD_TYPES[MONO] = {"_start": "real", "_stop": "real", "_last": "real", "retro": "bool"}
FIELD_TYPES[TIMER] = {"_start": "real", "_stop": "real"}


def any_clock(B):
    """EXT time.time(): each reading is an arbitrary real (may be smaller than any earlier reading)."""
    readings = []

    def clock(ctx):
        v = ctx.fresh("real", "now")
        readings.append(v)
        return v
    B.ghost("clock", clock)
    return readings


@contract(MONO + ".latest@get", props=["C08", "C07"])
def mono_latest(B):
    reads = any_clock(B)
    self = B.obj(MONO)
    B.call(self)
    B.let(now=reads[0] if reads else None)
    # elapsed (= _last - _start at the reading) never decreases; expired (= _last >= _stop) never reverts
    B.ensures("self._last - self._start >= old(self._last - self._start)", top=True)
    B.ensures("implies(old(self._last >= self._stop), self._last >= self._stop)", top=True)
    B.ensures("self._stop - self._start == old(self._stop - self._start)", top=True)
    B.ensures("result == self._last and self._last == now")
    B.ensures("implies(now >= old(self._last), self._start == old(self._start) and self._stop == old(self._stop))")
    B.ensures("implies(now < old(self._last), self._start == old(self._start) + (now - old(self._last)))")
    B.ensures("len(reads) == 1", reads=tuple(reads))
    # retro False: a retrograde clock raises and leaves the timer untouched
    from pyvc import source
    rte = source.class_by_qual("hio.help.timing:RetroTimerError")
    B.raises(rte, "not old(self.retro) and now < old(self._last) and self._start == old(self._start) and "
                  "self._stop == old(self._stop) and self._last == old(self._last)", top=True)
    B.no_other_exception()
    B.prove("canary:elapsed-strictly-increases", "self._last - self._start > old(self._last - self._start)") if B.returned() else None


@contract(MONO + ".elapsed@get", props=["C08"])
def mono_elapsed(B):
    any_clock(B)
    self = B.obj(MONO, retro=True)
    B.call(self)
    B.ensures("result == self._last - self._start", top=True)
    B.ensures("result >= old(self._last - self._start)", top=True)
    B.no_other_exception()


@contract(MONO + ".remaining@get", props=["C08", "C07"])
def mono_remaining(B):
    reads = any_clock(B)
    self = B.obj(MONO, retro=True)
    B.call(self)
    B.let(now=reads[0] if reads else None)
    # `self._stop - self.latest` reads _stop BEFORE latest shifts it, so after a retrograde step the
    # value over-reports once by the size of the step; it never under-reports (a sleeper never wakes early).
    # (A first version demanded equality; that is more than C08/C07 state, so the clause was corrected.)
    B.ensures("result >= self._stop - self._last", top=True)
    B.ensures("implies(now >= old(self._last), result == self._stop - self._last)")
    B.no_other_exception()


@contract(MONO + ".expired@get", props=["C08", "C07"])
def mono_expired(B):
    any_clock(B)
    self = B.obj(MONO, retro=True)
    B.call(self)
    B.ensures("result == (self._last >= self._stop)", top=True)
    B.ensures("implies(old(self._last >= self._stop), result)", top=True)
    B.no_other_exception()


@contract(MONO + ".start", props=["C08", "C07"], name=MONO + ".start")
def mono_start(B):
    reads = any_clock(B)
    self = B.obj(MONO)
    duration = B.opt("real", "duration")
    start = B.opt("real", "start")
    B.call(self, duration=duration, start=start)
    B.let(now=reads[0] if reads else None)
    B.ensures("self._start == (start if start is not None else now)", top=True)
    B.ensures("self._stop == self._start + (duration if duration is not None else old(self._stop) - old(self._start))", top=True)
    B.ensures("result == self._start")
    # the retrograde reference follows a start at the current time, and only that (C07: a clock step before the start
    # must not be applied to the new period)
    B.ensures("self._last == (old(self._last) if start is not None else now)", top=True)
    B.no_other_exception()


@contract(TIMER + ".restart", props=["C08", "C07"], name=MONO + ".restart(inherited Timer.restart)")
def mono_restart(B):
    reads = any_clock(B)
    self = B.obj(MONO)
    duration = B.opt("real", "duration")
    B.call(self, duration=duration)
    B.ensures("self._start == old(self._stop)", top=True)
    B.ensures("self._stop == old(self._stop) + (duration if duration is not None else old(self._stop) - old(self._start))", top=True)
    B.ensures("len(reads) == 0", reads=tuple(reads))      # lossless: the clock is not consulted
    B.ensures("self._last == old(self._last)")
    B.no_other_exception()


@contract(MONO + ".__init__", props=["C08"])
def mono_init(B):
    reads = any_clock(B)
    self = B.obj(MONO)
    duration = B.real("duration")
    start = B.opt("real", "start")
    retro = B.bool("retro")
    B.call(self, duration=duration, start=start, retro=retro)
    B.let(now0=reads[0] if reads else None)
    B.ensures("self._stop - self._start == duration", top=True)
    B.ensures("implies(start is not None, self._start == start and self._last == start)", top=True)
    B.ensures("self.retro == retro")
    B.no_other_exception()

"""C25 -- the transition block of the generator Boxer.run: which actions one pass runs, and in which order.

hio.base.hier.boxing:Boxer.run is interpreted from /repo/src as a generator under contract (every `yield` resumes with a symbolic
tyme).  Its `while True` loop is cut by an invariant (the active box is any box of the boxwork, hold bags hold anything), so ONE
ARBITRARY PASS is analysed; the first pass (before the loop) is analysed on the way.  Bounded in the shape only: the active pile
has 1..2 boxes, each with 0..2 transition acts; whether an act fires, where it points (any box, incl. the active one), whether
the destination's entry preconditions hold and what exen returns are all symbolic / opaque.
exen, predo, exdo, rexdo, rendo, endo, redo, end are summarised by their own contracts (contracts/c25_boxing.py): here they are
logged with their arguments.

One pass (after the tick):
    end requested          -> end() once, nothing else, the run returns True
    otherwise boxes are visited top-down: afdo(box), then its transition acts in declaration order, until the first act that
    fires AND whose destination's predo(endos-of-exen) holds; for that one, in this order:
            exdo(exdos), rexdo(rexdos), [active box := destination], rendo(rendos), endo(endos), redo()
        with the four lists exactly as exen(active box, destination) returned them (exdos, endos, rexdos, rendos)
    an act that fires but whose predo FAILS contributes nothing: no exdo/rexdo, and its lists never reach rendo/endo
    no transition          -> rendo([]), endo([]), redo(); the active box is unchanged
    no box is visited after a transition was taken
First pass: predo(pile of first) fails -> the run returns False with no exit/enter action; else rendo([]), endo(pile), redo().
"""
import z3
from .common import *
from pyvc import builtins as BI

BOXER = "hio.base.hier.boxing:Boxer"


class Box:
    def __init__(self, name, log):
        self.name, self.log = name, log
        self.pile = None
        self.goacts = []

    def truth(self, ctx, r):
        return True

    def getattr(self, ctx, r, name):
        if name == "pile":
            return ctx.alloc("list", init={"v": list(self.pile)})
        if name == "goacts":
            return ctx.alloc("list", init={"v": list(self.goacts)})
        if name == "name":
            return self.name
        raise Undecided("box attribute " + name)

    def m_afdo(self, ctx, r, a, k):
        self.log.append(("afdo", self.name))


class Bag:
    def __init__(self):
        self.value = None

    def truth(self, ctx, r):
        return True

    def getattr(self, ctx, r, name):
        if name == "value":
            return self.value
        raise Undecided("bag attribute " + name)

    def setattr(self, ctx, r, name, v):
        if name == "value":
            self.value = v
            return
        raise Undecided("bag attribute write " + name)


class Hold:
    def __init__(self, ctx):
        self.d = {}
        self.ctx = ctx

    def truth(self, ctx, r):
        return True

    def m_tokey(self, ctx, r, a, k):
        return "_".join(str(conc(x)) for x in a[0])

    def contains(self, ctx, r, key):
        kk = "_".join(str(conc(x)) for x in key) if isinstance(key, tuple) else conc(key)
        return kk in self.d

    def getitem(self, ctx, r, key):
        kk = "_".join(str(conc(x)) for x in key) if isinstance(key, tuple) else conc(key)
        if kk not in self.d:
            raise py_exc(KeyError, kk)
        return self.d[kk]

    def setitem(self, ctx, r, key, v):
        self.d[conc(key)] = v


@contract(BOXER + ".run", props=["C25"], name=BOXER + ".run[one arbitrary pass; pile <= 2, <= 2 acts per box]")
def boxer_run(B):
    ctx = B.ctx
    log = ctx.ghost["log"] = []
    nbox = B.choice(1, 2, label="pile-depth")
    boxes = [Box("b%d" % i, log) for i in range(nbox)]
    other = Box("other", log)
    refs = [B.ext(b) for b in boxes]
    oref = B.ext(other)
    for b in boxes:
        b.pile = list(refs)              # all boxes of the active pile share it (top-down)
    other.pile = [oref]
    exens = {}

    def goact(bi, gi):
        def fire(c, a, k):
            log.append(("goact", "b%d" % bi, gi))
            which = c.fork(2 + nbox, "goact-b%d-%d" % (bi, gi))     # 0: does not fire; 1: to another tree; 2..: to a box of the active pile
            if which == 0:
                return None
            return oref if which == 1 else refs[which - 2]
        return ModelFn(fire, "goact")
    for bi, b in enumerate(boxes):
        b.goacts = [goact(bi, gi) for gi in range(B.choice(0, 1, 2, label="acts-b%d" % bi))]
    B.prog.class_models["hio.base.hier.bagging:Bag"] = lambda interp, cls, a, k: ctx.alloc("ext", init={"model": Bag()})
    hold = Hold(ctx)
    self = B.obj(BOXER, hint="boxer", first=refs[-1], box=None, hold=B.ext(hold), _name="bx", boxes=B.dict({}), _tymth=None)

    def v_exen(c, a, k):
        n = len(exens)
        tok = tuple(("%s#%d" % (nm, n),) for nm in ("exdos", "endos", "rexdos", "rendos"))
        exens[n] = dict(near=a[0], far=a[1], tok=tok)
        log.append(("exen", n))
        return tok
    B.virtual(self, "exen", v_exen)

    def v_predo(c, a, k):
        ok = bool(c.fork(2, "predo"))
        log.append(("predo", tuple(c.st(a[0])["v"]) if isinstance(a[0], Ref) and a[0].kind == "list" else a[0], ok))
        return ok
    B.virtual(self, "predo", v_predo)
    for nm in ("exdo", "rexdo", "rendo", "endo"):
        B.virtual(self, nm, (lambda nm: lambda c, a, k: log.append((nm, a[0] if not (isinstance(a[0], Ref) and a[0].kind == "list") else tuple(c.st(a[0])["v"]))))(nm))
    B.virtual(self, "redo", lambda c, a, k: log.append(("redo",)))
    B.virtual(self, "end", lambda c, a, k: log.append(("end",)))
    want_end = {"v": None}

    def v_endial(c, a, k):
        want_end["v"] = bool(c.fork(2, "endial"))
        log.append(("endial", want_end["v"]))
        return want_end["v"]
    B.virtual(self, "endial", v_endial)
    marks = {}

    def havoc(interp, fr):
        # arbitrary pass: any box of the pile is the active one; what happened before is forgotten
        marks["active"] = refs[ctx.fork(nbox, "active-box")]
        ctx.st(self)["box"] = marks["active"]
        marks["loop"] = len(log)

    def analyse():
        """the clauses of one arbitrary pass that completed normally (evaluated at the end of the loop body)"""
        cur = log[marks["loop"]:]
        out = {}
        seq = [e for e in cur if e[0] in ("afdo", "goact", "exen", "predo", "exdo", "rexdo", "rendo", "endo", "redo")]
        names = [e[0] for e in seq]
        taken = None
        for idx, e in enumerate(seq):
            if e[0] == "predo" and e[2] is True:
                taken = idx
                break
        acts0 = [e for e in log[:marks["loop"]] if e[0] in ("predo", "exdo", "rexdo", "rendo", "endo", "redo", "exen", "afdo", "goact")]
        out["first"] = [e[0] for e in acts0] == ["predo", "rendo", "endo", "redo"] and acts0[0][2] is True and acts0[0][1] == tuple(refs) and \
            acts0[1][1] == () and acts0[2][1] == tuple(refs)
        out["ends"] = names[-3:] == ["rendo", "endo", "redo"]
        out["noend"] = want_end["v"] is False and "end" not in [e[0] for e in cur]
        if taken is None:
            out["none_noexit"] = "exdo" not in names and "rexdo" not in names
            out["none_refused"] = len(seq) >= 3 and seq[-3][1] == () and seq[-2][1] == ()
            out["none_visit"] = [e[1] for e in seq if e[0] == "afdo"] == [b.name for b in boxes]
            out["none_box"] = ctx.st(self)["box"] is marks["active"]
            out["t_order"] = out["t_pre"] = out["t_box"] = out["t_stop"] = True
        else:
            n = [e for e in seq[:taken] if e[0] == "exen"][-1][1]
            tok = exens[n]["tok"]
            tail_ = seq[taken + 1:]
            out["t_order"] = [(e[0], e[1]) if len(e) > 1 else (e[0],) for e in tail_] == \
                [("exdo", tok[0]), ("rexdo", tok[2]), ("rendo", tok[3]), ("endo", tok[1]), ("redo",)]
            out["t_pre"] = seq[taken][1] == tok[1] and exens[n]["near"] is marks["active"]
            out["t_box"] = ctx.st(self)["box"] is exens[n]["far"]
            out["t_stop"] = all(e[0] not in ("afdo", "goact", "exen", "predo") for e in tail_)
            out["none_noexit"] = out["none_refused"] = out["none_visit"] = out["none_box"] = True
        refused = [i2 for i2, e in enumerate(seq) if e[0] == "predo" and e[2] is False]
        out["refused"] = all(i2 + 1 < len(seq) and seq[i2 + 1][0] in ("goact", "afdo", "rendo") for i2 in refused)
        ga = [(e[1], e[2]) for e in seq if e[0] == "goact"]
        out["decl"] = ga == sorted(ga) and all(seq[i2 - 1][0] in ("afdo", "goact", "predo") for i2, e in enumerate(seq) if e[0] == "goact")
        # every act is consulted for the box it belongs to, after that box's afdo
        afd = [e[1] for e in seq if e[0] == "afdo"]
        out["afdo_first"] = all(e[1] in afd[:1 + [x[1] for x in seq[:i2] if x[0] == "afdo"].__len__()] for i2, e in enumerate(seq) if e[0] == "goact")
        return out
    CLAUSES = [("first", "first-pass/preconditions-held-then-enters-the-whole-pile-of-first-top-down-nothing-else"),
               ("ends", "pass-ends-with-rendo-endo-redo"), ("noend", "no-end-unless-requested"),
               ("none_noexit", "no-transition/no-exit-actions"), ("none_refused", "no-transition/refused-destinations-contribute-nothing"),
               ("none_visit", "no-transition/every-box-visited-top-down"), ("none_box", "no-transition/active-box-unchanged"),
               ("t_order", "transition/exit-reexit-then-reenter-enter-in-this-order-with-exens-lists"),
               ("t_pre", "transition/preconditions-checked-on-the-boxes-to-enter-from-the-active-box"),
               ("t_box", "transition/active-box-becomes-the-destination"), ("t_stop", "transition/no-further-box-or-act-consulted"),
               ("refused", "refused/no-action-before-the-next-act-is-tried"), ("decl", "acts-in-declaration-order-boxes-top-down"),
               ("afdo_first", "afdo-of-a-box-before-its-acts")]
    for key, label in CLAUSES:
        B.prog.spec_env["pass_" + key] = ModelFn((lambda key: lambda c, a, k: bool(analyse()[key]))(key), "spec:" + label)
    B.loop(BOXER + ".run", 0, invariant=[], modifies=[havoc], body_ensures=[(label, "pass_%s()" % key) for key, label in CLAUSES])
    nyield = {"n": 0}

    def on_yield(interp, fr, e, v):
        nyield["n"] += 1
        log.append(("yield", nyield["n"]))
        return ctx.fresh("real", "tyme")
    r = B.call(self, B.real("tock"), qual=BOXER + ".run", yield_handler=on_yield)
    B.no_other_exception()
    if "loop" not in marks:
        # ---- the run ended before the loop: only possible when the first predo failed
        first = [e for e in log if e[0] in ("predo", "exdo", "rexdo", "rendo", "endo", "redo")]
        if B.returned():
            B.prove("first-pass/returns-False-only-when-entry-preconditions-fail", r is False and bool(first[:1]) and first[0][0] == "predo" and first[0][2] is False, top=True)
            B.prove("first-pass/failed-preconditions-run-no-action", len(first) == 1, top=True)
        return
    # ---- the run returned from inside the arbitrary pass: only an end request does that
    cur = log[marks["loop"]:]
    B.prove("end-request/end-once-and-nothing-else-then-True", B.returned() and want_end["v"] is True and r is True and
            [e[0] for e in cur if e[0] != "yield"] == ["endial", "end"], top=True)
    B.prove("end-request/no-active-box-afterwards", ctx.st(self)["box"] is None, top=True)

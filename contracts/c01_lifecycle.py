"""C01 (producer side) -- Doer.do / DoDoer.do run a well-formed lifecycle on every exit path.

Ghost automaton `phase`: 0 new, 1 entered, 2 recurring, 3 closed-out (clean|cease|abort done), 4 exited.
Every hook is virtual (overridable user code): it may raise any Exception and, optionally, a
BaseException that is not an Exception (KeyboardInterrupt), and it may mutate `self.done`.
The contract is over the REAL try/except GeneratorExit/except Exception/else/finally text of the
two generators; `yield` forks into resumed-by-send / closed.  Schedulers never throw() into dogs.
"""
import z3
from .common import *
from pyvc.engine import PathEnd
from pyvc.spec import eval_clause

DOER = "hio.base.doing:Doer"
DODOER = "hio.base.doing:DoDoer"
FIELD_TYPES[DOER] = {"done": "bool", "_tock": "real", "temp": "bool"}
FIELD_TYPES[DODOER] = {"_always": "bool"}

KINDS = {"enter": "ENTER", "recur": "RECUR", "clean": "CLEAN", "cease": "CEASE", "abort": "ABORT", "exit": "EXIT"}


def phase_in(ph, *vals):
    return z3.Or(*[z(ph, "int") == v for v in vals])


def install_hooks(B, self, keyboard, recur_gen):
    """virtual lifecycle hooks with call-site contracts (requires on ghost phase, effect applied even if the hook raises)"""
    ctx = B.ctx
    g = ctx.ghost
    g["phase"] = 0
    g["failed"] = False           # an Exception escaped enter/recur
    g["kbd"] = False              # a non-Exception BaseException escaped a hook
    g["closing"] = False          # GeneratorExit was delivered
    g["last_recur"] = False       # result of the latest plain recur
    g["nexit"] = 0

    def outcome(name, may_fail=True):
        # returns normally | raises Exception | (optionally) raises KeyboardInterrupt
        n = 3 if keyboard else 2
        k = ctx.fork(n, name + "-outcome")
        if k == 1:
            if name in ("enter", "recur"):
                g["failed"] = True
            raise PyExc(ExcVal(None, (), upper=Exception))
        if k == 2:
            g["kbd"] = True
            raise PyExc(ExcVal(KeyboardInterrupt, ()))

    def req(name, cond, text):
        ctx.prove("%s/call self.%s/requires" % (B.name, name), cond, kind="call-requires", detail=text, top=True)

    def havoc_done():
        ctx.st(self)["done"] = ctx.fresh("bool", "done")

    def enter(c, a, k):
        req("enter", phase_in(g["phase"], 0), "enter is the first hook (phase == new)")
        g["phase"] = 1
        havoc_done()
        outcome("enter")

    def recur_plain(c, a, k):
        req("recur", phase_in(g["phase"], 1, 2), "recur only between enter and clean/cease/abort")
        g["phase"] = 2
        havoc_done()
        outcome("recur")
        r = ctx.fresh("bool", "recur_result")
        g["last_recur"] = r
        return r

    def closeout(name):
        def fn(c, a, k):
            req(name, phase_in(g["phase"], 1, 2), "%s exactly once, after enter, before exit" % name)
            if name == "cease":
                req("cease-only-on-close", g["closing"] is True, "cease only after GeneratorExit")
            if name == "clean":
                req("clean-only-unforced", g["closing"] is False and g["failed"] is False and g["kbd"] is False,
                    "clean only when the doer finished by itself")
                req("clean-after-done", z3.Implies(z(g["phase"], "int") == 2, z(g["last_recur"]) == True) if recur_gen is False else True,  # noqa
                    "clean only after recur returned a true done value")
            if name == "abort":
                req("abort-only-on-exception", g["failed"] is True, "abort only after enter/recur raised an Exception")
            g["phase"] = 3
            havoc_done()
            outcome(name)
        return fn

    def exit_(c, a, k):
        # abort/cease/clean must have run, unless a non-Exception BaseException (KeyboardInterrupt) is in flight
        req("exit", phase_in(g["phase"], 3), "exit exactly once, after exactly one of clean/cease/abort")
        g["nexit"] = g["nexit"] + 1
        g["phase"] = 4
        havoc_done()
        outcome("exit")

    B.virtual(self, "enter", enter)
    B.virtual(self, "clean", closeout("clean"))
    B.virtual(self, "cease", closeout("cease"))
    B.virtual(self, "abort", closeout("abort"))
    B.virtual(self, "exit", exit_)
    return recur_plain, req, outcome


class SubGen:
    """opaque generator returned by a generator-method recur(): yields any number of tocks, then returns/raises"""

    def __init__(self, B, self_obj, req, outcome):
        self.B = B
        self.obj = self_obj
        self.req = req
        self.outcome = outcome

    def yield_from(self, interp, fr, e, g):
        ctx = interp.ctx
        gh = ctx.ghost
        name = "%s/yield-from self.recur" % self.B.name
        # invariant cut over the unbounded number of inner yields
        ctx.prove(name + "/inv-entry", phase_in(gh["phase"], 1, 2), kind="loop-entry", detail="phase in (1, 2)")
        ph = ctx.fresh("int", "phase")
        ctx.assume(phase_in(ph, 1, 2))
        gh["phase"] = ph
        ctx.st(self.obj)["done"] = ctx.fresh("bool", "done")
        k = ctx.fork(3, "subgen-step")
        self.req("recur", phase_in(gh["phase"], 1, 2), "recur only between enter and clean/cease/abort")
        gh["phase"] = 2
        if k == 0:      # inner generator returns its done value
            self.outcome("recur")
            return ctx.fresh("bool", "recur_result")
        if k == 1:      # inner generator raises
            gh["failed"] = True
            raise PyExc(ExcVal(None, (), upper=Exception))
        # inner generator yields a tock: that is a yield of the doer itself
        v = ctx.fresh("real", "inner_tock")
        fr.yield_handler(interp, fr, e, v)      # may raise GeneratorExit (close) into the delegation chain
        ctx.prove(name + "/inv-preserved", phase_in(gh["phase"], 1, 2), kind="loop-preserved", detail="phase in (1, 2)")
        raise PathEnd()


def make_yield_handler(B):
    ctx = B.ctx
    g = ctx.ghost

    def on_yield(interp, fr, node, value):
        ctx.prove("%s/yield/only-while-running" % B.name, phase_in(g["phase"], 1, 2), kind="yield-post",
                  detail="the doer is suspended only between enter and clean/cease/abort", top=True)
        ctx.prove("%s/yield/not-after-close" % B.name, g["closing"] is False, kind="yield-post",
                  detail="no yield after GeneratorExit (CPython: RuntimeError, generator left unfinished)", top=True)
        g["nyield"] = g.get("nyield", 0) + 1
        if ctx.fork(2, "resume-or-close") == 0:
            return ctx.fresh("real", "sent_tyme")
        g["closing"] = True
        raise PyExc(ExcVal(GeneratorExit, ()))
    return on_yield


def final_clauses(B, self):
    g = B.ctx.ghost
    B.let(phase=g["phase"], failed=g["failed"], closing=g["closing"], nexit=g["nexit"], kbd=g["kbd"])
    # every termination of the generator body: exit ran exactly once and was the last hook
    B.prove("terminates-exited", "phase == 4 and nexit == 1", top=True)
    if B.returned():
        # a doer's Exception is never swallowed: a normal return means enter/recur did not fail
        B.prove("return/not-failed", "not failed and not kbd", top=True)
        B.prove("return/result-is-done", "result == self.done", top=True)
    elif B.raised(GeneratorExit):
        B.handled = True
        B.prove("close/only-when-closed", "closing", top=True)
    elif B.raised(KeyboardInterrupt):
        B.handled = True
    else:
        B.handled = True       # an Exception from a hook propagates: allowed (abort path or failing clean/cease/exit)
    B.no_other_exception()


def doer_do(B, keyboard):
    B.ghost("tyme", B.real("tyme"))
    recur_gen = B.choice(False, True, label="recur-is-generator")
    earlier = B.model(lambda ctx, a, k: ctx.fresh("real", "tyme-of-an-earlier-run"), "earlier-tymth") if B.choice(False, True, label="ran-before") else None
    self = B.obj(DOER, _tymth=earlier, opts=B.dict({}))
    recur_plain, req, outcome = install_hooks(B, self, keyboard, recur_gen)
    if recur_gen:
        sub = SubGen(B, self, req, outcome)
        B.virtual(self, "recur", lambda c, a, k: B.ext(sub))
    else:
        B.virtual(self, "recur", recur_plain)
    B.prog.externals["inspect.isgeneratorfunction"] = lambda c, a, k: recur_gen
    # the `while not self.done` loop (ordinal 0 of Doer.do)
    B.loop(DOER + ".do", 0, invariant=["ghost('phase') == 1 or ghost('phase') == 2",
                                       "implies(ghost('phase') == 2, self.done == ghost('last_recur'))",
                                       "ghost('closing') is False and ghost('failed') is False and ghost('kbd') is False"],
           modifies=["self.done", "ghost:phase:int", "ghost:last_recur:bool"])
    tymth = B.model(lambda ctx, a, k: ctx.ghost["tyme"], "tymth")
    B.call(self, tymth, tock=B.real("tock"), temp=B.opt("bool", "temp"), yield_handler=make_yield_handler(B))
    B.prove("wound-to-the-time-source-of-THIS-run (not one kept from an earlier run)", B.ctx.st(self)["_tymth"] is tymth, top=True, props=["C04", "C01"])
    final_clauses(B, self)


@contract(DOER + ".do", props=["C01", "C02", "C05", "C04"], name=DOER + ".do")
def doer_do_exc(B):
    doer_do(B, keyboard=False)


@contract(DOER + ".do", props=["C01"], name=DOER + ".do[BaseException in hook]")
def doer_do_kbd(B):
    doer_do(B, keyboard=True)


def dodoer_do(B, keyboard):
    B.ghost("tyme", B.real("tyme"))
    # the doer object may have run before, under ANOTHER scheduler: whatever time source it was wound to then is arbitrary
    earlier = B.model(lambda ctx, a, k: ctx.fresh("real", "tyme-of-an-earlier-run"), "earlier-tymth") if B.choice(False, True, label="ran-before") else None
    self = B.obj(DODOER, _tymth=earlier, opts=B.dict({}), _doers=B.list([]), _deeds=B.deque([]))
    recur_plain, req, outcome = install_hooks(B, self, keyboard, False)
    B.virtual(self, "recur", recur_plain)
    B.loop(DODOER + ".do", 0, invariant=["ghost('phase') == 1 or ghost('phase') == 2",
                                         "implies(ghost('phase') == 2, self.done == ghost('last_recur'))",
                                         "ghost('closing') is False and ghost('failed') is False and ghost('kbd') is False"],
           modifies=["self.done", "ghost:phase:int", "ghost:last_recur:bool"])
    tymth = B.model(lambda ctx, a, k: ctx.ghost["tyme"], "tymth")
    always = B.opt("bool", "always")
    B.let(always_eff=None)
    B.call(self, tymth, tock=B.real("tock"), always=always, temp=B.opt("bool", "temp"), yield_handler=make_yield_handler(B))
    B.prove("wound-to-the-time-source-of-THIS-run (not one kept from an earlier run)", B.ctx.st(self)["_tymth"] is tymth, top=True, props=["C04", "C01"])
    final_clauses(B, self)


@contract(DODOER + ".do", props=["C01", "C02", "C05", "C04"], name=DODOER + ".do")
def dodoer_do_exc(B):
    dodoer_do(B, keyboard=False)


@contract(DODOER + ".do", props=["C01"], name=DODOER + ".do[BaseException in hook]")
def dodoer_do_kbd(B):
    dodoer_do(B, keyboard=True)

"""C05 / C01 / C30 / C07 -- Doist.do and Doist.ado: run termination, done flag, exit on every path.

`enter`, `recur`, `exit` are taken modularly (virtual, with the effects their own contracts establish:
recur advances tyme by exactly one tock and leaves `deeds` empty or not; any of them may raise a doer's
Exception; recur may also raise KeyboardInterrupt / SystemExit).  The outer `while True` loop is cut by an
invariant, so the result holds for any number of cycles.  The SAME harness is run on `do` and on `ado`
(C30): both must satisfy the identical clauses, which fix the hook-call sequence and the final state as a
function of the hook outcomes.
"""
import z3
from .common import *
from .sched import DOIST
from .c08_timers import any_clock, MONO

FIELD_TYPES.setdefault(DOIST, {})


class DeedsAbs:
    """abstract deque: only its emptiness is observable by do()"""

    def truth(self, ctx, r):
        return ctx.ghost["deeds_nonempty"]


def do_harness(B, qual, real):
    ctx = B.ctx
    g = ctx.ghost
    reads = any_clock(B)
    tyme0 = B.real("tyme")
    tock = B.real("tock")
    ctx.assume(tock.t > 0)
    timer = B.obj(MONO, hint="timer", retro=True)
    limit0 = B.opt("nonneg", "limit0")      # self.limit before the call (set by __init__ through abs(float()))
    self = B.obj(DOIST, hint="doist", _tyme=tyme0, _tock=tock, doers=B.list([]), deeds=B.ext(DeedsAbs()), timer=timer,
                 name="doist", done=None, limit=limit0, real=real)
    g.update(n_enter=0, n_recur=0, n_exit=0, kbd=False, failed=False, sysexit=False, after_exit=False,
             deeds_nonempty=B.bool("deeds_nonempty"), tyme_enter=None, stop=None)

    def no_after_exit(name):
        ctx.prove("%s/call self.%s/not-after-exit" % (B.name, name), g["after_exit"] is False, kind="call-requires",
                  detail="nothing runs after exit()", top=True)

    def enter(c, a, k):
        no_after_exit("enter")
        ctx.prove(B.name + "/call self.enter/first", g["n_enter"] == 0 and g["n_recur"] == 0, kind="call-requires", detail="enter once, first", top=True)
        # C01/C02 (consumer side): do() must let enter() fill self.deeds itself (doers=None).  With doers given,
        # enter() fills a local deque, and doers entered before a failing enter would be in no deeds for exit().
        ctx.prove(B.name + "/call self.enter/enters-into-own-deeds", k.get("doers") is None and not a, kind="call-requires",
                  detail="do() calls enter() without a doers argument, so entered doers are in self.deeds even if a later enter raises", top=True)
        g["n_enter"] += 1
        g["deeds_nonempty"] = ctx.fresh("bool", "deeds_nonempty")
        g["tyme_enter"] = ctx.st(self)["_tyme"]
        if ctx.fork(2, "enter-outcome") == 1:
            g["failed"] = True
            raise PyExc(ExcVal(None, (), upper=Exception))
        return ctx.st(self)["deeds"]

    def recur(c, a, k):
        no_after_exit("recur")
        ctx.prove(B.name + "/call self.recur/after-enter", g["n_enter"] == 1, kind="call-requires", detail="recur only after enter", top=True)
        g["n_recur"] = g["n_recur"] + 1
        st = ctx.st(self)
        k_ = ctx.fork(4, "recur-outcome")
        if k_ == 1:
            g["failed"] = True
            raise PyExc(ExcVal(None, (), upper=Exception))
        if k_ == 2:
            g["kbd"] = True
            raise PyExc(ExcVal(KeyboardInterrupt, ()))
        if k_ == 3:
            g["sysexit"] = True
            raise PyExc(ExcVal(SystemExit, ()))
        st["_tyme"] = mk(z(st["_tyme"]) + z(st["_tock"]), "real")     # Doist.recur contract: tyme' == tyme + tock
        g["deeds_nonempty"] = ctx.fresh("bool", "deeds_nonempty")

    def exit_(c, a, k):
        no_after_exit("exit")
        g["n_exit"] += 1
        g["after_exit"] = True

    B.virtual(self, "enter", enter)
    B.virtual(self, "recur", recur)
    B.virtual(self, "exit", exit_)
    B.prog.externals["time.sleep"] = lambda c, a, k: None
    B.prog.externals["asyncio.sleep"] = lambda c, a, k: None

    class Loop:
        def m_time(self, c, r, a, k):
            return c.ghost["clock"](c)
    B.prog.externals["asyncio.get_event_loop"] = lambda c, a, k: c.alloc("ext", init={"model": Loop()})

    # outer `while True` loop (ordinal 0): any number of cycles
    inv = ["ghost('n_enter') == 1 and ghost('n_exit') == 0 and ghost('after_exit') is False",
           "ghost('kbd') is False and ghost('failed') is False and ghost('sysexit') is False",
           "self.done is False",
           "tymer._start == ghost('tyme_enter') and tymer._stop == ghost('tyme_enter') + (self.limit if self.limit is not None else 0.0)",
           "ghost('n_recur') >= 0",
           # still looping after >=1 cycles  =>  the previous cycle neither emptied deeds nor reached the limit
           "implies(ghost('n_recur') > 0, ghost('deeds_nonempty'))",
           "implies(ghost('n_recur') > 0 and self.limit is not None and self.limit != 0.0, self._tyme < tymer._stop)",
           "implies(ghost('n_recur') == 0, self._tyme == ghost('tyme_enter'))",
           "self._tyme >= ghost('tyme_enter')"]
    B.loop(qual, 0, invariant=inv, modifies=["self._tyme", "ghost:n_recur:int", "ghost:deeds_nonempty:bool"],
           top=(5, 6))
    limit = B.opt("real", "limit")
    tyme = B.opt("real", "tyme_arg")
    B.let(limit_arg=limit, tyme_arg=tyme, limit0=limit0, tyme0=tyme0)
    B.call(self, limit=limit, tyme=tyme, temp=B.opt("bool", "temp"), qual=qual)
    B.let(n_enter=g["n_enter"], n_recur=g["n_recur"], n_exit=g["n_exit"], kbd=g["kbd"], failed=g["failed"], sysexit=g["sysexit"],
          nonempty=g["deeds_nonempty"], tyme_enter=g["tyme_enter"])
    # ---- every path: enter once, exit exactly once and last (finally)
    B.prove("exit-exactly-once-on-every-path", "n_exit == 1 and n_enter == 1", top=True)
    B.let(lim=(mk(z3.If(z(limit) >= 0, z(limit), -z(limit)), "real") if limit is not None else limit0))
    if B.returned():
        B.prove("return/no-swallowed-exception", "not failed and not sysexit", top=True)
        B.prove("return/ran-at-least-one-cycle", "n_recur >= 1", top=True)
        # done is True exactly when the last cycle left no deeds (and no keyboard interrupt)
        B.prove("return/done-iff-all-completed", "self.done == ((not nonempty) and not kbd)", top=True)
        # with a limit: leaves at the first cycle whose end tyme >= start + L (unless deeds emptied first)
        B.prove("return/limit-first-expiry", "implies(nonempty and not kbd, lim is not None and lim != 0.0 and self._tyme >= tyme_enter + lim)", top=True)
        B.prove("return/tyme-start", "tyme_enter == (tyme_arg if tyme_arg is not None else tyme0)", top=True)
    else:
        B.handled = True
        B.prove("raise/only-propagates-a-failure", "failed or sysexit", top=True)
        B.prove("raise/done-not-true", "self.done is False", top=True)
    B.no_other_exception()


@contract(DOIST + ".do", props=["C05", "C01", "C02", "C30"], name=DOIST + ".do[virtual time]")
def doist_do(B):
    do_harness(B, DOIST + ".do", real=False)


@contract(DOIST + ".ado", props=["C30"], name=DOIST + ".ado[virtual time]")
def doist_ado(B):
    do_harness(B, DOIST + ".ado", real=False)

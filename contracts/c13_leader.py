"""C13 -- httping.parseLeader: one arbitrary turn of its line loop, on an arbitrary buffer, after any history of waits.

parseLeader is interpreted from /repo/src as a generator under contract; its `while True` loop is cut (invariant: none needed, the
buffer, the headers collected so far and every local are arbitrary at the head of a turn), so the clauses hold for the first
line, for a line completed after any number of waits, and for every later line.  eols = (CRLF, LF) as the head parsers use it.

Let b be the buffer at the head of the turn and t the EARLIEST terminator (CRLF or LF) in b.
    no terminator in b, len(b) <= MAX+1 -> yields None, buffer untouched (idle-stutter: waiting never consumes)
    no terminator, len(b) > MAX+1      -> LineTooLong   (+1: the buffer may end in the CR of a CRLF still to be completed)
    otherwise the line is b up to the FIRST occurrence of t in the WHOLE buffer (the search never starts later than position 0,
    so a terminator straddling two reads is found), exactly line ++ t is consumed, and
        line empty                     -> yields the collected headers (the leader is complete)
        line 'name:value', name non-empty -> headers[name] = value stripped, turn ends, nothing yielded
        otherwise                      -> HTTPException
        line longer than MAX           -> LineTooLong
(Until the repository fix "earliest line terminator" t was the first KIND of terminator found anywhere: recorded then, repaired now.)
EXT: bytes.decode('iso-8859-1') is a 1:1 uninterpreted map LATIN1, str.strip uninterpreted, cimdict a mapping that logs its sets.
"""
import z3
from .common import *
from pyvc import builtins as BI
from pyvc.engine import ufunc, Suspend

HTTPING = "hio.core.http.httping"
S = z3.StringSort()
LATIN1 = ufunc("latin1", S, S)
STRIPS = ufunc("str_strip", S, S)
MAX = 65536


class Cim:
    def __init__(self, ctx):
        self.n = ctx.fresh("int", "nheaders")
        ctx.assume(self.n.t >= 0)
        self.sets = []

    def truth(self, c, r):
        return True

    def length(self, c, r):
        return mk(self.n.t + len(self.sets), "int")      # (an upper bound would do: only compared with MAX_HEADERS)

    def setitem(self, c, r, k, v):
        self.sets.append((k, v))


@contract(HTTPING + ":parseLeader", props=["C13", "C16"], name=HTTPING + ":parseLeader[one arbitrary turn; eols=(CRLF, LF)]", z3_ms=3000)
def parse_leader_turn(B):
    ctx = B.ctx
    raw = B.buf(hint="raw")
    hdr = Cim(ctx)
    href = B.ext(hdr)
    B.prog.text_models["decode"] = lambda c, s, a, k: SV(LATIN1(z(s)), "str")
    B.prog.text_models["strip"] = lambda c, s, a, k: SV(STRIPS(z(s)), "str")
    B.prog.text_models["format"] = lambda c, s, a, k: c.fresh("str", "fmt")
    marks = {}

    def havoc(interp, fr):
        marks["b"] = ctx.fresh("bytes", "b")
        ctx.st(raw)["v"] = marks["b"]
        hdr.n = ctx.fresh("int", "nheaders*")
        ctx.assume(hdr.n.t >= 0)
        hdr.sets = []
        marks["yields"] = 0

    def facts():
        b = z(marks["b"])
        crlf, lf = z3.StringVal("\r\n"), z3.StringVal("\n")
        icr, ilf = z3.IndexOf(b, crlf, 0), z3.IndexOf(b, lf, 0)
        found = z3.Or(icr >= 0, ilf >= 0)
        # the EARLIEST terminator of the buffer; CRLF wins where both start (a CRLF's LF is one byte later, so CRLF at i and LF at
        # i+1: the line ends at i).  (Before the repository's `fix: ... earliest line terminator` this was "CRLF anywhere first".)
        crlf_first = z3.And(icr >= 0, z3.Or(ilf < 0, icr <= ilf))
        idx = z3.If(crlf_first, icr, ilf)
        tlen = z3.If(crlf_first, 2, 1)
        return b, found, idx, tlen

    def turn_consumed(c):
        """a turn that ended normally without yielding the headers: either it waited or it stored one header line"""
        b, found, idx, tlen = facts()
        now = z(ctx.st(raw)["v"])
        if marks["yields"]:       # waited: (the handler appended `arrived` AFTER the yield)
            return mk(z3.And(z3.Not(found), z3.Length(b) <= MAX + 1, now == z3.Concat(b, z(marks["arrived"]))), "bool")
        line = z3.SubString(b, 0, idx)
        ok = z3.And(found, idx <= MAX, now == z3.SubString(b, idx + tlen, z3.Length(b) - idx - tlen), z3.Length(line) > 0)
        stored = len(hdr.sets) == 1
        return mk(z3.And(ok, z3.BoolVal(stored)), "bool")

    def header_stored(c):
        if marks["yields"] or len(hdr.sets) != 1:
            return True
        b, found, idx, tlen = facts()
        text = LATIN1(z3.SubString(b, 0, idx))
        k, v = hdr.sets[0]
        p = z3.IndexOf(text, z3.StringVal(":"), 0)
        return mk(z3.And(p > 0, z(k) == z3.SubString(text, 0, p), z(v) == STRIPS(z3.SubString(text, p + 1, z3.Length(text) - p - 1))), "bool")
    B.prog.spec_env["turn_consumed"] = ModelFn(lambda c, a, k: turn_consumed(c), "spec:turn_consumed")
    B.prog.spec_env["header_stored"] = ModelFn(lambda c, a, k: header_stored(c), "spec:header_stored")
    B.loop(HTTPING + ":parseLeader", 0, invariant=[], modifies=[havoc],
           body_ensures=[("a-turn-either-waits-untouched-or-consumes-exactly-one-header-line-found-from-position-0", "turn_consumed()"),
                         ("the-stored-header-is-name-and-stripped-value-of-that-line", "header_stored()")])

    def on_yield(interp, fr, e, v):
        if v is None:
            marks["yields"] = marks.get("yields", 0) + 1
            marks["at_wait"] = ctx.st(raw)["v"]
            marks["arrived"] = ctx.fresh("bytes", "arrived")
            ctx.st(raw)["v"] = E.binop(ctx, __import__("ast").Add(), ctx.st(raw)["v"], marks["arrived"])
            return None
        raise Suspend(v, e)
    B.call(raw, qual=HTTPING + ":parseLeader", eols=(b"\r\n", b"\n"), headers=href, yield_handler=on_yield)
    from pyvc import source
    if "b" not in marks:
        B.prove("unreachable: the loop is always entered", False, top=True)
        return
    b, found, idx, tlen = facts()
    now = z(ctx.st(raw)["v"])
    line = z3.SubString(b, 0, idx)
    text = LATIN1(line)
    p = z3.IndexOf(text, z3.StringVal(":"), 0)
    if B.raised():
        B.handled = True
        toolong = source.class_by_qual(HTTPING + ":LineTooLong")
        httpexc = source.class_by_qual(HTTPING + ":HTTPException")
        B.prove("raises-only-HTTPException-subclasses", bool(B.raised(httpexc)), top=True)
        if B.raised(toolong):
            B.prove("LineTooLong-only-beyond-the-maximum", z3.Or(z3.And(z3.Not(found), z3.Length(b) > MAX + 1), z3.And(found, idx > MAX)), top=True)
        else:
            kind, node = source.load_module(HTTPING).defs["MAX_HEADERS"]
            maxh = node.value if kind == "assign" and hasattr(node, "value") else None
            B.prove("MAX_HEADERS-is-a-module-constant", isinstance(maxh, int), top=True)
            toomany = hdr.n.t + len(hdr.sets) > (maxh if isinstance(maxh, int) else 0)
            B.prove("HTTPException-only-for-a-malformed-header-line-or-too-many-headers",
                    z3.Or(z3.And(found, z3.Length(line) > 0, p <= 0), toomany), top=True)
        B.no_other_exception()
        return
    B.no_other_exception()
    out = B.outcome[1] if B.outcome and B.outcome[0] == "yield" else None
    B.prove("the-run-ends-only-by-yielding-the-headers", out is href, top=True)
    B.prove("headers-yielded-exactly-at-the-empty-line-which-is-consumed",
            z3.And(found, idx == 0, now == z3.SubString(b, tlen, z3.Length(b) - tlen), z3.BoolVal(not hdr.sets)), top=True)

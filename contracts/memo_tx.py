"""C21 -- memo transmission loses no gram under transport backpressure.

Memoer._serviceOnceTxGrams / serviceTxGramsOnce / serviceTxGrams are interpreted from /repo/src.  `self.send(gram, dst)` is the
transport (EXT): returns cnt with 0 <= cnt <= len(gram) having put gram[:cnt] on the wire to dst, or raises OSError(e).
Ghost per destination: wire[dst].  TOP (class invariant, stated per call):
    wire_before ++ pending_before  ==  wire_after ++ pending_after ++ dropped
where pending = remainder in .txbs (when its dst is not None) followed by the grams in .txgs, and `dropped` is non-empty only
when send raised one of the unreachable-destination errnos.  Enabledness: a pending remainder or gram on an open transport
is offered to send().
The queue .txgs has a concrete length 0..2 here (symbolic contents, symbolic counts and errnos): bounded in queue length only.
"""
import errno
import z3
from .common import *
from pyvc import builtins as BI

MEMOER = "hio.core.memo.memoing:Memoer"
UNREACHABLE = sorted({errno.ECONNREFUSED, errno.ENOENT, errno.ECONNRESET, errno.ENETRESET, errno.ENETUNREACH, errno.EHOSTUNREACH,
                      errno.ENETDOWN, errno.EHOSTDOWN, errno.ETIMEDOUT, errno.ETIME})
FIELD_TYPES[MEMOER] = {"opened": "bool"}


def cat(ctx, *parts):
    out = b""
    for p in parts:
        out = E.binop(ctx, __import__("ast").Add(), out, p)
    return out


def setup(B, nq, partial):
    ctx = B.ctx
    g = ctx.ghost
    g["wire"] = b""
    g["sends"] = []
    g["fault"] = None
    g["events"] = []
    grams = [B.bytes("gram%d" % i) for i in range(nq)]
    for x in grams:
        ctx.assume(z3.Length(x.t) > 0)
    if partial:
        rem = B.bytes("rem")
        ctx.assume(z3.Length(rem.t) > 0)
        txbs = (B.buf(rem, hint="txbs"), "D")
    else:
        rem = b""
        txbs = (B.buf(b"", hint="txbs"), None)
    self = B.obj(MEMOER, hint="memoer", txbs=txbs, txgs=B.deque([(x, "D") for x in grams]), name="m", opened=True)

    def send(c, a, k):
        gram = BI.as_text(c, a[0])
        g["sends"].append((gram, a[1]))
        if c.fork(2, "send-outcome") == 1:
            e = c.fresh("int", "errno")
            g["fault"] = e
            g["events"].append(("fault", gram, e))
            raise PyExc(ExcVal(OSError, (e, "transport error")))
        n = c.fresh("int", "cnt")
        c.assume(z3.And(n.t >= 0, n.t <= z(BI.text_len(gram), "int")))
        part = BI.text_slice(c, gram, slice(None, n, None))
        g["wire"] = cat(c, g["wire"], part)
        g["events"].append(("ok", part, None))
        return n
    B.virtual(self, "send", send)
    pending = cat(ctx, rem, *grams)
    return self, grams, rem, pending


def pending_now(B, self):
    ctx = B.ctx
    st = ctx.st(self)
    buf, dst = st["txbs"]
    parts = []
    if dst is not None:
        parts.append(ctx.st(buf)["v"])
    for gram, d in ctx.st(st["txgs"])["v"]:
        parts.append(BI.as_text(ctx, gram))
    return cat(ctx, *parts)


def no_loss_clauses(B, self, pending0, what):
    """account = in offer order: bytes the transport accepted, and whole offered remainders of grams dropped because the
    transport raised and the code swallowed the error.  TOP: account ++ pending_now == pending_before, and every swallowed
    error is an unreachable-destination errno."""
    ctx = B.ctx
    g = ctx.ghost
    ev = list(g["events"])
    swallowed = [x for x in ev if x[0] == "fault"]
    if B.raised() and swallowed:
        swallowed = swallowed[:-1]          # the last error propagated: that gram was not dropped
        ev = [x for x in ev if x is not [y for y in g["events"] if y[0] == "fault"][-1]]
        B.handled = True
    account = cat(ctx, *[x[1] for x in ev])
    if B.returned():
        # (an error outside the unreachable list propagates to the caller; the statement makes no claim about the queue then)
        B.prove(what + "/nothing-lost-duplicated-or-reordered", z(cat(ctx, account, pending_now(B, self))) == z(pending0), top=True)
    for x in swallowed:
        B.prove(what + "/drop-only-when-unreachable", z3.Or(*[z(x[2], "int") == v for v in UNREACHABLE]), top=True)


def once_contract(B):
    nq = B.choice(0, 1, 2, label="queued")
    partial = B.choice(False, True, label="remainder-pending")
    self, grams, rem, pending0 = setup(B, nq, partial)
    r = B.call(self, qual=MEMOER + "._serviceOnceTxGrams")
    g = B.ctx.ghost
    no_loss_clauses(B, self, pending0, "once")
    if nq or partial:
        B.prove("once/pending-work-is-offered-to-the-transport", len(g["sends"]) == 1, top=True)
        first = rem if partial else grams[0]
        B.prove("once/offers-the-oldest-pending-bytes-in-full", E.values_equal(B.ctx, g["sends"][0][0], first) if g["sends"] else False, top=True)
    else:
        B.prove("once/nothing-to-do", len(g["sends"]) == 0 and r is False)
    if B.returned() and g["fault"] is None and (nq or partial):
        # result tells greedy callers whether the gram went out completely
        st = B.ctx.st(self)
        B.prove("once/result-true-iff-no-remainder", (r is True) == (st["txbs"][1] is None), top=True)
    B.no_other_exception()


@contract(MEMOER + "._serviceOnceTxGrams", props=["C21"], name=MEMOER + "._serviceOnceTxGrams[queue<=2]")
def memoer_once(B):
    once_contract(B)


def service_contract(B, fn):
    nq = B.choice(0, 1, 2, label="queued")
    partial = B.choice(False, True, label="remainder-pending")
    self, grams, rem, pending0 = setup(B, nq, partial)
    B.call(self, qual=MEMOER + "." + fn)
    g = B.ctx.ghost
    no_loss_clauses(B, self, pending0, fn)
    if nq or partial:
        # enabledness: something pending on an open transport is never left unattended (incl. the remainder of the LAST gram)
        B.prove(fn + "/pending-work-is-offered-to-the-transport", len(g["sends"]) >= 1, top=True)
    B.no_other_exception()


@contract(MEMOER + ".serviceTxGramsOnce", props=["C21"], name=MEMOER + ".serviceTxGramsOnce[queue<=2]")
def memoer_service_once(B):
    service_contract(B, "serviceTxGramsOnce")


@contract(MEMOER + ".serviceTxGrams", props=["C21"], name=MEMOER + ".serviceTxGrams[queue<=2]")
def memoer_service(B):
    service_contract(B, "serviceTxGrams")

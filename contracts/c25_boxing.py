"""C25 -- order of exit / enter actions on a boxwork transition: the functions that compute and walk the order.

Interpreted from /repo/src/hio/base/hier/boxing.py, for piles of ANY depth (window-encoded lists of boxes known by identity):

Boxer.exen(near, far)   requires  far in far.pile, and two piles that agree on their whole common length have the same length
                                  (W2: a pile runs from the root through the box down its primary unders to a LEAF, so one pile
                                  cannot be a proper prefix of another; Box._trace, checked natively on random forests)
                        ensures   never falls off the loop (never returns None); with i the returned split point:
                                  every j < i has nears[j] is fars[j] and nears[j] is not far   (the kept boxes, all above far)
                                  far is nears[i] or fars[i] is not nears[i]                   (i is the FIRST such index)
                                  exdos  == nears[i:] bottom-up     endos  == fars[i:] top-down
                                  rexdos == nears[:i] bottom-up     rendos == fars[:i] top-down
Boxer.exdo / rexdo / rendo / endo (boxes)
                        ensures   exactly one call of the box's exdo / rexdo / rendo / endo per list element, in list order,
                                  and no other box method
Boxer.predo(boxes)      ensures   boxes are asked top-down; stops at the first unmet one; result is True iff all are met
Boxer.end()             ensures   every box of the active pile is exited exactly once, bottom-up

The transition block of Boxer.run (which calls exen, predo, exdo, rexdo, then rendo, endo in that order and skips all four when
predo fails) is inside a generator with nested loops: it stays in the bounded tier (harness/c25.py runs it on random forests).
"""
import z3
from .common import *
from pyvc import builtins as BI
from pyvc.engine import usort, ufunc

BOXER = "hio.base.hier.boxing:Boxer"
BOX = usort("Box")
I = z3.IntSort()


def pile(ctx, hint):
    return BI.wseq_fresh(ctx, ("u:Box",), hint, "list")


def win(ctx, ref):
    s = ctx.st(ref)
    return s["arrs"][0], s["lo"], s["hi"]


class BoxModel:
    """a Box known by identity: .pile is its (fixed) pile; nabe methods append to the ghost call log"""

    def __init__(self, B, piles=None):
        self.B = B
        self.piles = piles or {}

    def getattr(self, ctx, sv, name):
        g = ctx.ghost
        if name == "pile":
            for t, ref in self.piles.values():
                if z3.eq(t, sv.t):
                    return ref
            raise Undecided("pile of an arbitrary box")
        if name in ("exdo", "rexdo", "rendo", "endo", "redo", "afdo", "predo"):
            def call(c, a, k, name=name):
                n = z(g["ncalls"], "int")
                g["calls_m"] = z3.Store(g["calls_m"], n, z3.StringVal(name))
                g["calls_b"] = z3.Store(g["calls_b"], n, sv.t)
                g["ncalls"] = mk(n + 1, "int")
                if name == "predo":
                    return SV(ufunc("met", BOX, z3.BoolSort())(sv.t), "bool")
                return None
            return ModelFn(call, "box." + name)
        raise Undecided("box attribute " + name)


def log_init(B):
    g = B.ctx.ghost
    g["calls_m"] = z3.Const("calls_m0", z3.ArraySort(I, z3.StringSort()))
    g["calls_b"] = z3.Const("calls_b0", z3.ArraySort(I, BOX))
    g["ncalls"] = 0


def spec(B, name, fn):
    B.prog.spec_env[name] = ModelFn(lambda c, a, k, fn=fn: fn(c, *a), "spec:" + name)


# ------------------------------------------------------------------------------------------------ exen

@contract(BOXER + ".exen", props=["C25"], name=BOXER + ".exen[piles of any depth]", z3_ms=4000)
def boxer_exen(B):
    ctx = B.ctx
    near, far = B.uid("Box", "near"), B.uid("Box", "far")
    nears, fars = pile(ctx, "nears"), pile(ctx, "fars")
    NA, nlo, nhi = win(ctx, nears)
    FA, flo, fhi = win(ctx, fars)
    ctx.assume(z3.And(nlo == 0, flo == 0, nhi >= 1, fhi >= 1))
    B.prog.usort_models["Box"] = BoxModel(B, {"near": (near.t, nears), "far": (far.t, fars)})
    j = z3.Int("j!q")
    sf = B.int("spot_far")
    ctx.assume(z3.And(0 <= sf.t, sf.t < fhi, z3.Select(FA, sf.t) == far.t))                 # W1: far is in its own pile
    l = z3.If(nhi < fhi, nhi, fhi)
    ctx.assume(z3.Implies(z3.ForAll([j], z3.Implies(z3.And(0 <= j, j < l), z3.Select(NA, j) == z3.Select(FA, j))), nhi == fhi))    # W2

    def inv(c, idx):
        i = z(idx, "int")
        return mk(z3.And(0 <= i, i <= l, z3.ForAll([j], z3.Implies(z3.And(0 <= j, j < i),
                  z3.And(z3.Select(NA, j) == z3.Select(FA, j), z3.Select(NA, j) != far.t)))), "bool")
    spec(B, "inv_common", inv)
    B.loop(BOXER + ".exen", 0, invariant=["inv_common(_idx)"])
    r = B.call(near, far, qual=BOXER + ".exen")
    B.no_other_exception()
    if not B.returned():
        return
    B.prove("always-returns-the-four-lists", isinstance(r, tuple) and len(r) == 4 and all(isinstance(x, Ref) and x.kind == "wseq" for x in r), top=True)
    if not (isinstance(r, tuple) and len(r) == 4):
        return
    (XA, xlo, xhi), (EA, elo, ehi), (RXA, rxlo, rxhi), (REA, relo, rehi) = [win(ctx, x) for x in r]
    i = rehi - relo              # the split point = number of kept boxes
    B.prove("kept-boxes-are-common-and-above-far", z3.And(0 <= i, i < l + 1, z3.ForAll([j], z3.Implies(z3.And(0 <= j, j < i),
            z3.And(z3.Select(NA, j) == z3.Select(FA, j), z3.Select(NA, j) != far.t)))), top=True)
    B.prove("split-at-the-first-uncommon-box-or-at-far", z3.And(i < l, z3.Or(z3.Select(NA, i) == far.t, z3.Select(FA, i) != z3.Select(NA, i))), top=True)
    B.prove("rendos-are-the-kept-boxes-top-down", z3.ForAll([j], z3.Implies(z3.And(0 <= j, j < i), z3.Select(REA, relo + j) == z3.Select(FA, j))), top=True)
    B.prove("rexdos-are-the-kept-boxes-bottom-up", z3.And(rxhi - rxlo == i, z3.ForAll([j], z3.Implies(z3.And(0 <= j, j < i),
            z3.Select(RXA, rxlo + j) == z3.Select(NA, i - 1 - j)))), top=True)
    B.prove("endos-are-the-boxes-arrived-at-top-down", z3.And(ehi - elo == fhi - i, z3.ForAll([j], z3.Implies(z3.And(0 <= j, j < fhi - i),
            z3.Select(EA, elo + j) == z3.Select(FA, i + j)))), top=True)
    B.prove("exdos-are-the-boxes-left-bottom-up", z3.And(xhi - xlo == nhi - i, z3.ForAll([j], z3.Implies(z3.And(0 <= j, j < nhi - i),
            z3.Select(XA, xlo + j) == z3.Select(NA, nhi - 1 - j)))), top=True)


# ------------------------------------------------------------------------------------------------ exdo / rexdo / rendo / endo

def walk_contract(B, meth):
    ctx = B.ctx
    g = ctx.ghost
    log_init(B)
    boxes = pile(ctx, "boxes")
    A, lo, hi = win(ctx, boxes)
    B.prog.usort_models["Box"] = BoxModel(B)
    self = B.obj(BOXER, hint="boxer")
    j = z3.Int("j!q")
    M0, B0 = g["calls_m"], g["calls_b"]

    def inv(c, idx):
        k = z(idx, "int") - lo
        return mk(z3.And(z(g["ncalls"], "int") == k, k >= 0, k <= hi - lo,
                         z3.ForAll([j], z3.Implies(z3.And(0 <= j, j < k), z3.And(z3.Select(g["calls_m"], j) == z3.StringVal(meth),
                                                                                 z3.Select(g["calls_b"], j) == z3.Select(A, lo + j))))), "bool")
    spec(B, "inv_walk", inv)

    def havoc(interp, fr):
        n = ctx.nfresh = ctx.nfresh + 1
        g["calls_m"] = z3.Const("calls_m!%d" % n, M0.sort())
        g["calls_b"] = z3.Const("calls_b!%d" % n, B0.sort())
        g["ncalls"] = ctx.fresh("int", "ncalls")
    B.loop(BOXER + "." + meth, 0, invariant=["inv_walk(_idx)"], modifies=[havoc])
    B.call(self, boxes, qual=BOXER + "." + meth)
    B.no_other_exception()
    if not B.returned():
        return
    n = z(g["ncalls"], "int")
    B.prove("one-call-per-box", n == hi - lo, top=True)
    B.prove("each-box-gets-its-%s-in-list-order-and-nothing-else" % meth,
            z3.ForAll([j], z3.Implies(z3.And(0 <= j, j < hi - lo), z3.And(z3.Select(g["calls_m"], j) == z3.StringVal(meth),
                                                                           z3.Select(g["calls_b"], j) == z3.Select(A, lo + j)))), top=True)


for _m in ("exdo", "rexdo", "rendo", "endo"):
    def _mk(meth=_m):
        @contract(BOXER + "." + meth, props=["C25"], name=BOXER + "." + meth + "[any number of boxes]", z3_ms=4000)
        def _c(B):
            walk_contract(B, meth)
    _mk()


# ------------------------------------------------------------------------------------------------ predo

@contract(BOXER + ".predo", props=["C25"], name=BOXER + ".predo[any number of boxes]", z3_ms=4000)
def boxer_predo(B):
    ctx = B.ctx
    g = ctx.ghost
    log_init(B)
    boxes = pile(ctx, "boxes")
    A, lo, hi = win(ctx, boxes)
    B.prog.usort_models["Box"] = BoxModel(B)
    self = B.obj(BOXER, hint="boxer")
    met = ufunc("met", BOX, z3.BoolSort())
    j = z3.Int("j!q")
    M0, B0 = g["calls_m"], g["calls_b"]

    def inv(c, idx, m):
        k = z(idx, "int") - lo
        return mk(z3.And(z(g["ncalls"], "int") == k, k >= 0, k <= hi - lo, z(m) == True,      # noqa: E712  (a re-entered loop head means all so far were met)
                         z3.ForAll([j], z3.Implies(z3.And(0 <= j, j < k), z3.And(met(z3.Select(A, lo + j)), z3.Select(g["calls_m"], j) == z3.StringVal("predo"),
                                                                                 z3.Select(g["calls_b"], j) == z3.Select(A, lo + j))))), "bool")
    spec(B, "inv_predo", inv)

    def havoc(interp, fr):
        n = ctx.nfresh = ctx.nfresh + 1
        g["calls_m"] = z3.Const("calls_m!%d" % n, M0.sort())
        g["calls_b"] = z3.Const("calls_b!%d" % n, B0.sort())
        g["ncalls"] = ctx.fresh("int", "ncalls")
    B.loop(BOXER + ".predo", 0, invariant=["inv_predo(_idx, met)"], modifies=[havoc], types={"met": "bool"})
    r = B.call(self, boxes, qual=BOXER + ".predo")
    B.no_other_exception()
    if not B.returned():
        return
    n = z(g["ncalls"], "int")
    allmet = z3.ForAll([j], z3.Implies(z3.And(0 <= j, j < hi - lo), met(z3.Select(A, lo + j))))
    B.prove("result-is-all-preconditions-met", z(r) == allmet, top=True)
    B.prove("asked-top-down-up-to-the-first-unmet-box", z3.And(n >= 0, n <= hi - lo,
            z3.ForAll([j], z3.Implies(z3.And(0 <= j, j < n), z3.And(z3.Select(g["calls_m"], j) == z3.StringVal("predo"), z3.Select(g["calls_b"], j) == z3.Select(A, lo + j)))),
            z3.ForAll([j], z3.Implies(z3.And(0 <= j, j < n - 1), met(z3.Select(A, lo + j)))),
            z3.Or(z(r), z3.And(n >= 1, z3.Not(met(z3.Select(A, lo + n - 1)))))), top=True)


# ------------------------------------------------------------------------------------------------ end

@contract(BOXER + ".end", props=["C25"], name=BOXER + ".end[pile of any depth]", z3_ms=4000)
def boxer_end(B):
    ctx = B.ctx
    g = ctx.ghost
    log_init(B)
    active = B.uid("Box", "active")
    p = pile(ctx, "pile")
    A, lo, hi = win(ctx, p)
    B.prog.usort_models["Box"] = BoxModel(B, {"active": (active.t, p)})
    self = B.obj(BOXER, hint="boxer", box=active)
    j = z3.Int("j!q")
    M0, B0 = g["calls_m"], g["calls_b"]
    cur = {}

    def inv(c, idx):
        # the list walked is list(reversed(pile)): a fresh window R with R[rlo + k] == A[hi - 1 - k]
        fr = cur["fr"]
        k = z(idx, "int") - lo
        return mk(z3.And(z(g["ncalls"], "int") == k, k >= 0, k <= hi - lo,
                         z3.ForAll([j], z3.Implies(z3.And(0 <= j, j < k), z3.And(z3.Select(g["calls_m"], j) == z3.StringVal("exdo"),
                                                                                 z3.Select(g["calls_b"], j) == z3.Select(A, hi - 1 - j))))), "bool")
    spec(B, "inv_end", inv)

    def head(c, fr):
        cur["fr"] = fr

    def havoc(interp, fr):
        cur["fr"] = fr
        n = ctx.nfresh = ctx.nfresh + 1
        g["calls_m"] = z3.Const("calls_m!%d" % n, M0.sort())
        g["calls_b"] = z3.Const("calls_b!%d" % n, B0.sort())
        g["ncalls"] = ctx.fresh("int", "ncalls")
    cur["fr"] = None
    B.loop(BOXER + ".exdo", 0, invariant=["inv_end(_idx)"], modifies=[havoc], head=head)
    B.call(self, qual=BOXER + ".end")
    B.no_other_exception()
    if not B.returned():
        return
    n = z(g["ncalls"], "int")
    B.prove("every-active-box-exited-exactly-once", n == hi - lo, top=True)
    B.prove("exits-bottom-up", z3.ForAll([j], z3.Implies(z3.And(0 <= j, j < hi - lo), z3.And(z3.Select(g["calls_m"], j) == z3.StringVal("exdo"),
            z3.Select(g["calls_b"], j) == z3.Select(A, hi - 1 - j)))), top=True)
    # frame: Box.pile hands out the box's CACHED list, so ending must not reorder it (the next run of the same boxer walks it again)
    A1, lo1, hi1 = win(ctx, p)
    B.prove("the-active-boxs-own-pile-is-left-as-it-was", z3.And(lo1 == lo, hi1 == hi, z3.ForAll([j], z3.Implies(z3.And(lo <= j, j < hi), z3.Select(A1, j) == z3.Select(A, j)))), top=True)
